"""Apply a patch to a scratch copy of /repo (never to /repo itself) and report which checks fire.
usage: python -m verif.tools.tryseed <patch.diff> [PROP ...]"""
import os, shutil, subprocess, sys, tempfile
from verif.selftest.runner import make_copy, evaluate

def main() -> int:
    patch = os.path.abspath(sys.argv[1])
    props = [p.upper() for p in sys.argv[2:]] or ["C%02d" % i for i in range(1, 21)]
    tmp = tempfile.mkdtemp(prefix="skseed_")
    try:
        make_copy("/repo", tmp)
        r = subprocess.run(["patch", "-p1", "-s", "-i", patch], cwd=tmp, capture_output=True, text=True)
        if r.returncode != 0:
            print("PATCH FAILED:", r.stdout, r.stderr)
            return 2
        fired = False
        base = {p: evaluate(p, "/repo") for p in props}
        for p in props:
            res = evaluate(p, tmp)
            newv = [x for x in res["violated"] if x not in base[p]["violated"]]
            newu = [x for x in res["unknown"] if x not in base[p]["unknown"]]
            for v in newv:
                fired = True
                print("%s VIOLATED [%s] %s\n      %s" % (p, v[0], v[1][:150], res["detail"].get("%s|%s" % v, "")[:300]))
            for v in newu:
                print("%s unknown  [%s] %s\n      %s" % (p, v[0], v[1][:150], res["detail"].get("%s|%s" % v, "")[:300]))
        if not fired:
            print("NO CHECK FIRED")
        return 0 if fired else 1
    finally:
        shutil.rmtree(tmp, ignore_errors=True)

if __name__ == "__main__":
    sys.exit(main())
