"""Re-run every kept seeded change (verif/../seeded/*/patch.diff) against the checks; update meta.json; print a table.
A seed counts as caught when its OWN property's check reports a new violation on a scratch copy with the patch."""
import concurrent.futures, json, os, subprocess, sys, glob
VERIF = os.path.dirname(os.path.dirname(os.path.dirname(os.path.abspath(__file__))))


def one(d):
    mp = os.path.join(d, "meta.json")
    meta = json.load(open(mp))
    r = subprocess.run(["/venv/bin/python", "-m", "verif.tools.tryseed", os.path.join(d, "patch.diff")], cwd=VERIF, capture_output=True, text=True)
    fired = [l for l in r.stdout.splitlines() if " VIOLATED [" in l]
    meta["checks_fired"] = fired
    meta["caught"] = bool(fired)
    meta["caught_by_property_check"] = any(l.startswith(meta["property"] + " ") for l in fired)
    json.dump(meta, open(mp, "w"), indent=1)
    props = sorted({l.split()[0] for l in fired})
    rules = sorted({l.split("[")[1].split("]")[0] for l in fired if l.startswith(meta["property"] + " ")})
    return (meta["id"], meta["property"], "yes" if meta["caught_by_property_check"] else ("other" if fired else "NO"), ",".join(rules), ",".join(props))


def main():
    dirs = [d for d in sorted(glob.glob(os.path.join(VERIF, "seeded", "*"))) if os.path.isfile(os.path.join(d, "meta.json"))]
    with concurrent.futures.ThreadPoolExecutor(max_workers=16) as ex:
        rows = list(ex.map(one, dirs))
    for r in rows:
        print("%-7s %-4s own:%-5s rules:%-28s fired-in:%s" % r)
    print("%d seeds, %d caught by own property check, %d only by another, %d missed" % (
        len(rows), len([r for r in rows if r[2] == "yes"]), len([r for r in rows if r[2] == "other"]), len([r for r in rows if r[2] == "NO"])))


if __name__ == "__main__":
    main()
