"""Run every check against scratch copies with behaviour-preserving refactorings applied; anything reported is a false alarm.
usage: python -m verif.tools.tryrefactors <dir>/_refactor   (directories <n>/patch.diff)"""
import glob, os, shutil, subprocess, sys, tempfile
from verif.selftest.runner import make_copy, evaluate

def main() -> int:
    props = ["C%02d" % i for i in range(1, 21)]
    base = {p: evaluate(p, "/repo") for p in props}
    bad = 0
    for root in sys.argv[1:]:
        for patch in sorted(glob.glob(os.path.join(root, "*", "patch.diff"))):
            tmp = tempfile.mkdtemp(prefix="skrf_")
            try:
                make_copy("/repo", tmp)
                r = subprocess.run(["patch", "-p1", "-s", "-i", patch], cwd=tmp, capture_output=True, text=True)
                if r.returncode != 0:
                    print("PATCH FAILED", patch, r.stdout[:200])
                    continue
                msgs = []
                for p in props:
                    res = evaluate(p, tmp)
                    for v in res["violated"]:
                        if v not in base[p]["violated"]:
                            msgs.append("  %s VIOLATED [%s] %s\n        %s" % (p, v[0], v[1][:140], res["detail"].get("%s|%s" % v, "")[:260]))
                    for v in res["unknown"]:
                        if v not in base[p]["unknown"]:
                            msgs.append("  %s unknown  [%s] %s\n        %s" % (p, v[0], v[1][:140], res["detail"].get("%s|%s" % v, "")[:260]))
                print(("FALSE-ALARM? " if msgs else "silent       ") + patch)
                for m in msgs:
                    print(m)
                bad += bool(msgs)
            finally:
                shutil.rmtree(tmp, ignore_errors=True)
    print("%d refactorings raised something" % bad)
    return 1 if bad else 0

if __name__ == "__main__":
    sys.exit(main())
