"""Run every check against scratch copies with behaviour-preserving refactorings applied; anything reported is a false alarm.
usage: python -m verif.tools.tryrefactors [<dir> ...]   (directories <n>/patch.diff; default /verif/refactors and /verif/features)"""
import concurrent.futures, glob, os, shutil, subprocess, sys, tempfile
from verif.selftest.runner import make_copy, evaluate

PROPS = ["C%02d" % i for i in range(1, 21)]
HERE = os.path.dirname(os.path.dirname(os.path.dirname(os.path.abspath(__file__))))


def one(args):
    patch, base, repo_root = args
    tmp = tempfile.mkdtemp(prefix="skrf_")
    try:
        make_copy(repo_root, tmp)
        r = subprocess.run(["patch", "-p1", "-s", "-i", patch], cwd=tmp, capture_output=True, text=True)
        if r.returncode != 0:
            return patch, None, "PATCH FAILED %s" % r.stdout[:200]
        msgs = []
        for p in PROPS:
            res = evaluate(p, tmp)
            for v in res["violated"]:
                if v not in base[p]["violated"]:
                    msgs.append("  %s VIOLATED [%s] %s\n        %s" % (p, v[0], v[1][:140], res["detail"].get("%s|%s" % v, "")[:400]))
            for v in res["unknown"]:
                if v not in base[p]["unknown"]:
                    msgs.append("  %s unknown  [%s] %s\n        %s" % (p, v[0], v[1][:140], res["detail"].get("%s|%s" % v, "")[:400]))
        return patch, msgs, None
    finally:
        shutil.rmtree(tmp, ignore_errors=True)


def run(roots, repo_root="/repo", jobs=16, out=sys.stdout):
    base = {p: evaluate(p, repo_root) for p in PROPS}
    patches = []
    for root in roots:
        patches += sorted(glob.glob(os.path.join(root, "*", "patch.diff")))
    bad = failed = 0
    results = []
    with concurrent.futures.ProcessPoolExecutor(max_workers=jobs) as ex:
        for patch, msgs, err in ex.map(one, [(p, base, repo_root) for p in patches]):
            if err:
                print(err, patch, file=out)
                failed += 1
                continue
            print(("FALSE-ALARM? " if msgs else "silent       ") + patch, file=out)
            for m in msgs:
                print(m, file=out)
            bad += bool(msgs)
            results.append((patch, msgs))
    print("%d refactorings, %d raised something, %d did not apply" % (len(patches), bad, failed), file=out)
    return len(patches), bad, failed, results


def main() -> int:
    roots = [os.path.abspath(r) for r in sys.argv[1:]] or [os.path.join(HERE, "refactors"), os.path.join(HERE, "features")]
    n, bad, failed, _ = run(roots)
    return 1 if bad else 0


if __name__ == "__main__":
    sys.exit(main())
