"""Systematic first-order mutation sweep (a measuring instrument, not a check).

For every mutation site of the classic operators (comparison flips, and/or, +/-, integer constants +-1, `not` removed, a call statement or a
raise replaced by `pass`) in the files the properties are anchored in: make a scratch copy with that one edit, run the repository's own
test suite (in a private network namespace), and for the mutants the suite does NOT kill run all 20 quick checks. Prints how many of
the survivors some check reports, how many only produce an analysis error, and lists the silent ones for triage (equivalent mutants,
logging-only edits and changes outside every property are expected there).

usage: python -m verif.tools.mutsweep [--files a.py,b.py] [--limit N] [--jobs J] [--out FILE]
Scratch copies live under tempfile.mkdtemp() and are removed; /repo is never modified."""
from __future__ import annotations

import argparse
import ast
import json
import os
import random
import shutil
import subprocess
import sys
import tempfile
from concurrent.futures import ProcessPoolExecutor
from typing import Any, Dict, List, Optional, Tuple

VERIF = os.path.dirname(os.path.dirname(os.path.dirname(os.path.abspath(__file__))))
PY = "/venv/bin/python"
CMP = {ast.Lt: "<=", ast.LtE: "<", ast.Gt: ">=", ast.GtE: ">", ast.Eq: "!=", ast.NotEq: "==", ast.In: "not in", ast.NotIn: "in",
       ast.Is: "is not", ast.IsNot: "is"}
CMP_SRC = {ast.Lt: "<", ast.LtE: "<=", ast.Gt: ">", ast.GtE: ">=", ast.Eq: "==", ast.NotEq: "!=", ast.In: "in", ast.NotIn: "not in",
           ast.Is: "is", ast.IsNot: "is not"}


def anchor_files() -> List[str]:
    out = set()
    for line in open(os.path.join(VERIF, "properties.jsonl")):
        d = json.loads(line)
        for f in d.get("anchors", {}).get("files", []):
            if f.endswith(".py") and f.startswith("skepticoin/"):
                out.add(f)
    return sorted(out)


def sites(path: str, src: str) -> List[Dict[str, Any]]:
    """mutation sites as (line, col, end_line, end_col, replacement, kind) on the source text"""
    tree = ast.parse(src)
    lines = src.split("\n")
    out: List[Dict[str, Any]] = []

    def seg(n: ast.AST) -> str:
        return ast.get_source_segment(src, n) or ""

    def add(n: ast.AST, new: str, kind: str) -> None:
        if getattr(n, "end_lineno", None) is None:
            return
        out.append({"file": path, "line": n.lineno, "col": n.col_offset, "eline": n.end_lineno, "ecol": n.end_col_offset, "new": new,
                    "kind": kind, "old": seg(n)[:80]})

    skip_docstrings = set()
    for n in ast.walk(tree):
        if isinstance(n, (ast.FunctionDef, ast.ClassDef, ast.Module)) and n.body and isinstance(n.body[0], ast.Expr) \
                and isinstance(n.body[0].value, ast.Constant) and isinstance(n.body[0].value.value, str):
            skip_docstrings.add(id(n.body[0]))
    in_annotation = set()
    for n in ast.walk(tree):
        for fld in ("annotation", "returns"):
            a = getattr(n, fld, None)
            if isinstance(a, ast.AST):
                in_annotation |= {id(x) for x in ast.walk(a)}
    for n in ast.walk(tree):
        if id(n) in in_annotation:
            continue
        if isinstance(n, ast.Compare) and len(n.ops) == 1 and type(n.ops[0]) in CMP:
            l, r = seg(n.left), seg(n.comparators[0])
            if l and r:
                add(n, "%s %s %s" % (l, CMP[type(n.ops[0])], r), "compare")
        elif isinstance(n, ast.BoolOp) and len(n.values) == 2:
            a, b = seg(n.values[0]), seg(n.values[1])
            if a and b:
                add(n, "%s %s %s" % (a, "or" if isinstance(n.op, ast.And) else "and", b), "boolop")
        elif isinstance(n, ast.BinOp) and isinstance(n.op, (ast.Add, ast.Sub)) and not isinstance(n.left, ast.Constant):
            a, b = seg(n.left), seg(n.right)
            if a and b and not (isinstance(n.right, ast.Constant) and isinstance(n.right.value, (str, bytes))) \
                    and not isinstance(n.right, (ast.List, ast.Tuple, ast.JoinedStr)):
                add(n, "%s %s %s" % (a, "-" if isinstance(n.op, ast.Add) else "+", b), "arith")
        elif isinstance(n, ast.Constant) and isinstance(n.value, int) and not isinstance(n.value, bool) and 0 <= n.value < 10 ** 9:
            add(n, str(n.value + 1), "const+1")
            if n.value > 0:
                add(n, str(n.value - 1), "const-1")
        elif isinstance(n, ast.UnaryOp) and isinstance(n.op, ast.Not):
            a = seg(n.operand)
            if a:
                add(n, "(%s)" % a, "not-removed")
        elif isinstance(n, ast.Expr) and isinstance(n.value, ast.Call) and id(n) not in skip_docstrings:
            txt = seg(n)
            if "logger." in txt or txt.startswith("print("):
                continue
            add(n, "pass", "call-removed")
        elif isinstance(n, ast.Raise) and n.exc is not None:
            add(n, "pass", "raise-removed")
    del lines
    return out


def apply_site(src: str, s: Dict[str, Any]) -> str:
    lines = src.split("\n")
    if s["line"] == s["eline"]:
        ln = lines[s["line"] - 1]
        # col offsets are in utf-8 bytes
        b = ln.encode("utf-8")
        lines[s["line"] - 1] = (b[:s["col"]] + s["new"].encode("utf-8") + b[s["ecol"]:]).decode("utf-8")
    else:
        first = lines[s["line"] - 1].encode("utf-8")[:s["col"]].decode("utf-8")
        last = lines[s["eline"] - 1].encode("utf-8")[s["ecol"]:].decode("utf-8")
        lines[s["line"] - 1:s["eline"]] = [first + s["new"] + last]
    return "\n".join(lines)


def run_one(args: Tuple[str, Dict[str, Any]]) -> Dict[str, Any]:
    repo_root, s = args
    tmp = tempfile.mkdtemp(prefix="skm_")
    try:
        subprocess.run("cd %s && git archive HEAD | tar -x -C %s" % (repo_root, tmp), shell=True, check=True)
        p = os.path.join(tmp, s["file"])
        src = open(p).read()
        new = apply_site(src, s)
        try:
            ast.parse(new)
        except SyntaxError:
            return dict(s, status="invalid")
        if new == src:
            return dict(s, status="invalid")
        open(p, "w").write(new)
        cmd = "ip link set lo up; cd %s && %s -m pytest -x -q -p no:cacheprovider --timeout=120 2>&1 | tail -n 3" % (tmp, PY)
        try:
            r = subprocess.run(["unshare", "-rn", "sh", "-c", cmd], capture_output=True, text=True, timeout=600)
            out = r.stdout + r.stderr
        except subprocess.TimeoutExpired:
            return dict(s, status="killed", by="timeout")
        if " passed" not in out or " failed" in out or " error" in out:
            return dict(s, status="killed")
        # survivor: run the 20 quick checks
        fired: List[str] = []
        unknown: List[str] = []
        env = dict(os.environ, PYTHONPATH=VERIF)
        code = ("import sys, json\n"
                "from verif.selftest.runner import evaluate\n"
                "res = {}\n"
                "for i in range(1, 21):\n"
                "    p = 'C%02d' % i\n"
                "    r = evaluate(p, sys.argv[1])\n"
                "    res[p] = [[x[0] for x in r['violated']], [x[0] for x in r['unknown']]]\n"
                "print(json.dumps(res))\n")
        r2 = subprocess.run([PY, "-c", code, tmp], capture_output=True, text=True, timeout=900, env=env, cwd=VERIF)
        try:
            res = json.loads(r2.stdout.strip().splitlines()[-1])
        except Exception:   # noqa
            return dict(s, status="survived", verdict="checker-crash", detail=(r2.stderr or r2.stdout)[-300:])
        for pid, (v, u) in res.items():
            fired += ["%s:%s" % (pid, x) for x in v if not (pid in ("C01", "C03", "C08", "C09") and x == "R08.6" and v.count("R08.6") == 1)]
            unknown += ["%s:%s" % (pid, x) for x in u]
        verdict = "reported" if fired else ("analysis-error" if unknown else "silent")
        return dict(s, status="survived", verdict=verdict, fired=sorted(set(fired))[:12], unknown=sorted(set(unknown))[:6])
    finally:
        shutil.rmtree(tmp, ignore_errors=True)


def main() -> int:
    ap = argparse.ArgumentParser()
    ap.add_argument("--repo", default="/repo")
    ap.add_argument("--files")
    ap.add_argument("--limit", type=int, default=0)
    ap.add_argument("--jobs", type=int, default=14)
    ap.add_argument("--seed", type=int, default=1)
    ap.add_argument("--out", default=os.path.join(VERIF, "mutsweep", "result.json"))
    a = ap.parse_args()
    files = a.files.split(",") if a.files else anchor_files()
    allsites: List[Dict[str, Any]] = []
    for f in files:
        src = open(os.path.join(a.repo, f)).read()
        ss = sites(f, src)
        if len(ss) > 200:       # the checkpoint table: a sample of its constants is enough
            random.Random(a.seed).shuffle(ss)
            ss = ss[:40]
        allsites += ss
    random.Random(a.seed).shuffle(allsites)
    if a.limit:
        allsites = allsites[:a.limit]
    print("%d mutation sites in %d files" % (len(allsites), len(files)), flush=True)
    results = []
    with ProcessPoolExecutor(max_workers=a.jobs) as ex:
        for i, r in enumerate(ex.map(run_one, [(a.repo, s) for s in allsites])):
            results.append(r)
            if (i + 1) % 100 == 0:
                print("  %d done" % (i + 1), flush=True)
    os.makedirs(os.path.dirname(a.out), exist_ok=True)
    json.dump(results, open(a.out, "w"), indent=0)
    surv = [r for r in results if r["status"] == "survived"]
    print("%d mutants: %d invalid, %d killed by the test suite, %d survive it" % (
        len(results), len([r for r in results if r["status"] == "invalid"]), len([r for r in results if r["status"] == "killed"]), len(surv)))
    for v in ("reported", "analysis-error", "silent", "checker-crash"):
        print("  survivors %-15s %d" % (v, len([r for r in surv if r.get("verdict") == v])))
    return 0


if __name__ == "__main__":
    sys.exit(main())
