"""Regenerates /verif/MANIFEST.json from the table below (properties whose rule module exists are claimed)."""
from __future__ import annotations

import json
import os

ROOT = os.path.dirname(os.path.dirname(os.path.dirname(os.path.abspath(__file__))))

TRUST = ("Trusted: CPython's ast parser; the repository's type annotations where callee resolution relies on them; the alias lists read "
         "from Block.__getattr__; hash functions, ECDSA, SQLite and immutables.Map behave as documented. ")

META = {
    "C01": dict(
        technique="guard / path-condition matching over inlined event summaries; transitive mutation summaries; class-hierarchy scan",
        text="Decides, for all paths of full validation, that each spend check (existence in the parent's unspent set, signature over the "
             "blanked transaction under the spent output's key, no duplicate reference per transaction and per block, no null reference, "
             "no placeholder signature) is present with the right operands and rejecting polarity, cannot be bypassed or swallowed, that "
             "validation completes before the apply whose result is returned, that apply mirrors validate, and that the validators mutate "
             "nothing reachable from their arguments. A statement about code shape on every path, which no finite set of test inputs gives.",
        note=TRUST + "Not decided: ECDSA arithmetic, SHA-256 collision resistance, behaviour on concrete histories (nothing is executed)."),
    "C02": dict(
        technique="guard / formula matching over inlined event summaries (linear normal forms); float-arithmetic scan; shared C16 era partition",
        text="Decides the premises of the conservation induction on every accepting path: reward <= fees(parent's unspent set) + subsidy(height) "
             "over all reward outputs, fee = all inputs - all outputs, outputs <= inputs, every output and every total in (0, MAX], exactly one "
             "reward transaction first with one null input, height = parent + 1, integer-only arithmetic, apply removes spent / adds created "
             "outputs, and the subsidy schedule (C16). Operands, comparator direction and iteration domains are compared as normal forms, so "
             "an off-by-one, a wrong state or a dropped range check is a reported construct.",
        note=TRUST + "The induction from these premises to the cumulative bound is the paper argument in DESIGN.md; no sums are evaluated on concrete chains."),
    "C05": dict(
        technique="guard / formula matching (normalised integer expressions, folded constants); producer/validator call-identity agreement",
        text="Decides presence, operands, direction and reach of every header rule on the full-validation path (id < target, time bounds, "
             "parent known, stated = prescribed target from the block's own ancestors, retarget formula multiply-then-floor-divide by "
             "1,209,600 capped at 2^256-1 unsigned big-endian, height linkage, evidence recomputed from whole summary / own ancestors / full "
             "transaction list), and that block assembly calls the same functions with corresponding arguments.",
        note=TRUST + "Not decided: scrypt/blake2/SHA-256 outputs; the wrap-around loop of select_block_slice beyond its start offset."),
    "C16": dict(
        technique="constant folding + abstract evaluation over an era partition derived from the uses of `height`; documentation parsed as data",
        text="Decides the whole statement for every height 0..2^32-1 without enumerating heights: the subsidy function uses its argument only "
             "through `height // C` / comparisons (checked), which cuts the axis into ~4,091 cells on which it is constant; each cell is "
             "evaluated by the checker's own integer evaluator: value = 10 coin // 2^era, non-increasing, zero from era 30 on, "
             "sum = 2,099,999,986,350,000 = MAX_SASHIMI = the validator's limit = docs/params.md.",
        note=TRUST + "The evaluator handles assignments, if/return and integer operators only; any other construct in get_block_subsidy gives ANALYSIS-ERROR, not a verdict."),
}

NOT_YET = "not claimed yet: rule module not implemented in this revision (see DESIGN.md section 5 for the planned rules)"


def main() -> None:
    props = [json.loads(l)["id"] for l in open(os.path.join(ROOT, "properties.jsonl")) if l.strip()]
    checks = []
    na = []
    for p in props:
        have = os.path.isfile(os.path.join(ROOT, "verif", "rules", p.lower() + ".py")) and p in META
        if not have:
            na.append({"property_id": p, "reason": NA.get(p, NOT_YET)})
            continue
        m = META[p]
        checks.append({
            "property_id": p,
            "quick_cmd": "/venv/bin/python -m verif.check %s --tier quick" % p,
            "thorough_cmd": "/venv/bin/python -m verif.check %s --tier thorough" % p,
            "evidence_file": "evidence/%s.json" % p,
            "replay_cmd_template": "/venv/bin/python -m verif.check --replay {path}",
            "engine": "skv-static",
            "level_claimed": {"category": "other", "text": m["text"], "design_ref": "DESIGN.md section 5, %s" % p},
            "level_note": m["note"],
            "technique": m["technique"],
        })
    man = {
        "version": 1,
        "setup_cmd": "/venv/bin/python -m compileall -q verif",
        "hooks": {
            "guard": "SKEPTICOIN_VERIF",
            "enable": "none needed: static analysis reads /repo's sources and adds no instrumentation (no hook commits)",
            "baseline_off_cmd": "cd /repo && /venv/bin/python -m pytest -ra -q -p no:cacheprovider --timeout=900 --continue-on-collection-errors",
            "source_commits": [],
            "add_only": True,
        },
        "engines": [{
            "name": "skv-static",
            "path": "verif/",
            "serves_properties": [c["property_id"] for c in checks],
            "kind_free_text": "repository-specific static analysis on stdlib ast: loader + constant folder, light annotation-driven types, "
                              "expression normaliser, syntax-directed event summaries with inlining and path-condition provenance, "
                              "structured flow/typestate runner with exceptional edges, codec and SQL schema extractors",
        }],
        "checks": checks,
        "notes": "Every check parses /repo's current working tree on each run and never imports or executes repository code. Exit 0 holds, "
                 "exit 1 VIOLATION (with replay file), exit 2 ANALYSIS-ERROR (verdict unknown / fail-closed instance floor / failed self-test). "
                 "Genuine defects repaired by fix: commits and the one recorded finding are in known_findings.json.",
        "not_applicable": na,
    }
    with open(os.path.join(ROOT, "MANIFEST.json"), "w") as f:
        json.dump(man, f, indent=1)
    print("MANIFEST: %d checks, %d not applicable" % (len(checks), len(na)))


NA: dict = {}

if __name__ == "__main__":
    main()
