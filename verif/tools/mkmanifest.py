"""Regenerates /verif/MANIFEST.json from the table below (properties whose rule module exists are claimed)."""
from __future__ import annotations

import json
import os

ROOT = os.path.dirname(os.path.dirname(os.path.dirname(os.path.abspath(__file__))))

TRUST = ("Trusted: CPython's ast parser; the repository's type annotations where callee resolution relies on them; the alias lists read "
         "from Block.__getattr__; hash functions, ECDSA, SQLite and immutables.Map behave as documented. ")

META = {
    "C01": dict(
        technique="guard / path-condition matching over inlined event summaries; transitive mutation summaries; class-hierarchy scan",
        text="Decides, for all paths of full validation, that each spend check (existence in the parent's unspent set, signature over the "
             "blanked transaction under the spent output's key, no duplicate reference per transaction and per block, no null reference, "
             "no placeholder signature) is present with the right operands and rejecting polarity, cannot be bypassed or swallowed, that "
             "validation completes before the apply whose result is returned, that apply mirrors validate, and that the validators mutate "
             "nothing reachable from their arguments. A statement about code shape on every path, which no finite set of test inputs gives.",
        note=TRUST + "Not decided: ECDSA arithmetic, SHA-256 collision resistance, behaviour on concrete histories (nothing is executed)."),
    "C02": dict(
        technique="guard / formula matching over inlined event summaries (linear normal forms); float-arithmetic scan; shared C16 era partition",
        text="Decides the premises of the conservation induction on every accepting path: reward <= fees(parent's unspent set) + subsidy(height) "
             "over all reward outputs, fee = all inputs - all outputs, outputs <= inputs, every output and every total in (0, MAX], exactly one "
             "reward transaction first with one null input, height = parent + 1, integer-only arithmetic, apply removes spent / adds created "
             "outputs, and the subsidy schedule (C16). Operands, comparator direction and iteration domains are compared as normal forms, so "
             "an off-by-one, a wrong state or a dropped range check is a reported construct.",
        note=TRUST + "The induction from these premises to the cumulative bound is the paper argument in DESIGN.md; no sums are evaluated on concrete chains."),
    "C05": dict(
        technique="guard / formula matching (normalised integer expressions, folded constants); producer/validator call-identity agreement",
        text="Decides presence, operands, direction and reach of every header rule on the full-validation path (id < target, time bounds, "
             "parent known, stated = prescribed target from the block's own ancestors, retarget formula multiply-then-floor-divide by "
             "1,209,600 capped at 2^256-1 unsigned big-endian, height linkage, evidence recomputed from whole summary / own ancestors / full "
             "transaction list), and that block assembly calls the same functions with corresponding arguments.",
        note=TRUST + "Not decided: scrypt/blake2/SHA-256 outputs; the wrap-around loop of select_block_slice beyond its start offset."),
    "C16": dict(
        technique="constant folding + abstract evaluation over an era partition derived from the uses of `height`; documentation parsed as data",
        text="Decides the whole statement for every height 0..2^32-1 without enumerating heights: the subsidy function uses its argument only "
             "through `height // C` / comparisons (checked), which cuts the axis into ~4,091 cells on which it is constant; each cell is "
             "evaluated by the checker's own integer evaluator: value = 10 coin // 2^era, non-increasing, zero from era 30 on, "
             "sum = 2,099,999,986,350,000 = MAX_SASHIMI = the validator's limit = docs/params.md.",
        note=TRUST + "The evaluator handles assignments, if/return and integer operators only; any other construct in get_block_subsidy gives ANALYSIS-ERROR, not a verdict."),
    "C06": dict(
        technique="codec extraction (reader/writer field sequences) + commitment-coverage table; raw-read who-may-call scan; guard matching",
        text="Claims one necessary clause of the property, not the per-bit behaviour: every leaf of a block's wire format is covered by a "
             "commitment mechanism (summary fields = scrypt pre-image; evidence compared field-complete by __eq__; transaction list an "
             "operand of the blake2 evidence hash and of the merkle root; version bytes and type tags strictly checked) and every decoder "
             "read goes through the truncation-checked safe_read. Breaking any of these makes some bit of a valid block malleable.",
        note=TRUST + "NOT decided: the actual single-bit flips and truncations of real blocks (a runtime quantification), hash preimage / collision resistance."),
    "C07": dict(
        technique="codec extraction and reader/writer mirror comparison; tag-table bijection; id-provenance (byte-span) rule; canonical-VLQ guard rule",
        text="Decides for all 26 Serializable classes that reader and writer are mirror images field by field (primitive, width, byte order, "
             "attribute flow through the constructor), every primitive is injective, dispatch tables are bijections onto the concrete "
             "subclasses with unknown tags raising, list helpers mirror each other, constructor ranges equal codec ranges, every cached id is "
             "sha256d of exactly the consumed span (transaction) / header span (block), the only id suppliers are provenance-checked, and the "
             "variable-length integer decoder re-encodes and compares (genuine defect D1, repaired by a fix: commit).",
        note=TRUST + "Nothing is encoded or decoded. Lenient version / reserved bytes are accepted only at 4 listed wire-message sites (not consensus objects)."),
    "C08": dict(
        technique="SQL schema reader + event summaries of writer tuples and reader reconstruction, compared column by column; key-multiplicity rule",
        text="Decides that every leaf field of a block is written to exactly one column and read back from that column into the same "
             "constructor parameter (4 tables, INSERT arity, NULL<->zero transforms paired, list positions by enumerate()/sorted), that stored "
             "ids are the canonical ids, blocks come back ordered by height and are re-added from the empty state, one BEGIN..COMMIT per "
             "flush under the store's lock, and that the schema's keys can represent forks sharing a transaction — where the tree has "
             "genuine defect D2 (known finding).",
        note=TRUST + "Assumption A1 (in evidence): transaction_locator is read without ORDER BY; SQLite's scan order is not decided statically."),
    "C17": dict(
        technique="guard matching; duplication-idiom scan with positive control; sibling skeleton agreement of the two builders",
        text="Claims only the structural clauses: the header commitment is checked against the root over the whole ordered id list on every "
             "accepting path; no hash input concatenates an element with itself and no level is padded by repeating an element (the "
             "CVE-2012-2459 construction); root builder and proof-tree builder share the recursion skeleton and pair order.",
        note=TRUST + "NOT decided: that the root changes under every list edit, and that every inclusion proof reproduces the root — both are "
                     "properties of hash values (deciding them needs evaluation or a solver, a different technique family)."),
    "C18": dict(
        technique="path-condition matching of the checkpoint guard; folded table / parameters / extracted wire signature compared with recorded network data",
        text="Decides the checkpoint guard's shape and reach (reject iff height <= horizon, height checkpointed and id != checkpoint; validation "
             "skipped only under the horizon, after the comparison; horizon = highest checkpoint), and that the checkpoint table (all 327 "
             "recorded entries), scrypt/blake2/sha256d parameters, the wire format of the 14 consensus classes incl. the VLQ encoder, and the "
             "genesis literal have not drifted from /verif/reference (recorded network data, the oracle the property names).",
        note=TRUST + "NOT decided: that recorded real blocks pass scrypt-based validation (needs running scrypt = execution)."),
    "C03": dict(
        technique="typed who-may-write (immutability); def-use source sets over normalised constructor arguments (dependence rule); sibling formula agreement",
        text="Decides that chain-state snapshots are never written after construction anywhere in the repository, that each per-block view "
             "built by add_block_no_validation depends only on (the parent's view, the block) and equals the specified formula keyed by the "
             "block's parent id (never the current head, tips or arrival order), that the balance view is a cached replay from genesis with "
             "the pre-block unspent set, and that the unspent-set and balance updaters agree on domains, reward test and references.",
        note=TRUST + "By induction over the chain these premises make each view a function of the chain; no tree is replayed. immutables.Map persistence is trusted."),
    "C04": dict(
        technique="decision-table extraction: normalised conditional expressions of the returned state vs the specification's tables",
        text="Decides that the head update is exactly: new block if there is no head or it extends the head, else new block iff its work is "
             "STRICTLY greater than the head's, else unchanged; work = height; tips' = tips - parent + new; index(new) = index(parent) + "
             "{height: new}; readers index by the head id. These are the premises of the inductive argument in DESIGN.md for every arrival order.",
        note=TRUST + "No block tree is enumerated; the induction from the tables to 'first-seen block of greatest work' is on paper."),
    "C09": dict(
        technique="typestate automaton over the structured flow graph with exceptional edges at message-dependent may-raise calls",
        text="Decides, over all paths of the relay handler including exceptional ones, that every effect is behind duplicate test, orphan drop "
             "and structural validation; that serving-as-validated, flushing and relaying happen only after validate_block_in_coinstate(block, "
             "prior state) completed (non-bulk); that no exit leaves an unvalidated block in the store's write buffer and adopted blocks are "
             "flushed; one relay site under (new head, not a response). Found genuine defect D3 (buffer-before-apply), repaired by a fix: commit.",
        note=TRUST + "Each delivery is one run of the handler from a state re-established by the previous run; sequences of deliveries are not executed."),
    "C10": dict(
        technique="shared relay typestate (C09); normalised formula matching of the inventory protocol",
        text="PARTLY claimed. Decides the local clauses: a block is relayed only when new and newly head, a transaction only when new and "
             "admitted; the inventory answer (start = height+1, on-active-chain test, empty when nothing newer, ids start..min(start+500, "
             "head+1)), inventory consumption (size limit, request-once flags, immediate next batch), locator heights and the active-fetch "
             "predicate are the stated formulas.",
        note=TRUST + "NOT decided: convergence of several nodes under every interleaving of deliveries and timer steps, completeness of the "
                     "fetched chain at quiescence — these quantify over schedules and need a model checker or simulator (a different technique family)."),
    "C11": dict(
        technique="syntactic premises P1–P7 of a chunk-independence argument, checked on the parser's event table (def-use of the chunk, guard/consume pairing, monotone guards)",
        text="Decides the premises from which fragmentation-independence follows for every byte stream and every cut: the chunk is only "
             "appended; every decision reads parser state only; each stage consumes exactly the prefix its >= guard covers; length tests are "
             "monotone; after a frame both flags are reset and parsing re-enters; stages run magic -> length -> body; wrong magic and "
             "over-limit length are refused at their stage. The implication premises => property is the proof sketch in DESIGN.md.",
        note=TRUST + "The proof is on paper; the checker decides its premises. No stream is parsed."),
    "C12": dict(
        technique="producer/validator call-identity agreement; exact-guard matching; ordering and data-flow obligations on the found-block handler (heap-aware summaries)",
        text="Decides that the candidate's fields come from the functions the validator recomputes them with (same argument roles), reward = "
             "subsidy + fees exactly and the validator's comparators are strict (equality accepted), time = max(now, parent+1) from the same "
             "state, and in the found-block handler: add_block (validating) first, the state handed to the network layer IS its result, then "
             "broadcast, save, flush, all unconditional. Found genuine defect D4 (publish-before-adopt), repaired by a fix: commit.",
        note=TRUST + "That assembly succeeds on concrete pools rests on C13's invariant; no block is mined."),
    "C13": dict(
        technique="ordering obligations on admission; repository-wide typed who-may-write; eviction-after-every-store rule",
        text="Decides that the pool invariant is inductive over the pool's only writers: the single append happens under the lock after the "
             "structural, in-state (head id and state of the same served coinstate) and whole-pool duplicate validators completed, with no "
             "handler falling through; every store to the served state is followed under the lock by filtering the pool with the in-state "
             "validator; no other function in the repository writes pool or served state; relay only when admitted.",
        note=TRUST + "Thread interleavings beyond 'both writers hold self.lock' are not analysed."),
    "C14": dict(
        technique="failure-atomicity typestate with exceptional edges; provenance and linear normal forms of inputs / amounts; signing-loop agreement with the validator",
        text="Decides that no exceptional exit of the spend builder (explicit or from any may-raise call such as signing) follows an un-undone "
             "change of the wallet's used-outputs record; inputs are references owned by wallet keys at the head and not used before; return "
             "only when collected >= amount + fee, first output = amount to recipient, change iff non-zero of exactly collected-amount-fee; one "
             "signature per input with the owner's key over the message the validator verifies. Found genuine defect D5, repaired by a fix: commit.",
        note=TRUST + "Concrete output distributions are not enumerated; per-key balances list exactly the unspent outputs (C03)."),
    "C15": dict(
        technique="dump/load mirror tables; hand-out/save typestate at every call site; atomic-replace rule + who-may-write of the final path; partition transfer patterns",
        text="Decides that load inverts dump key by key, a hand-out pops the key and annotates it (re-use only when none is unused), at all 4 "
             "call sites save_wallet of the same wallet follows before the key can leave the process or the function returns, wallet.json is "
             "only ever the target of os.replace of a closed side file, every writer of the three key collections is a partition-preserving "
             "transfer, and the balance sums the head's per-key balance over all keys.",
        note=TRUST + "os.replace atomicity is trusted; crashes are not injected (the rule is the static form of 'at every instant')."),
    "C19": dict(
        technique="typed who-may-write; inductive disjointness facts per writer over its flow graph (havoc at calls reaching other writers); formula matching; atomic-replace rule",
        text="Decides that only 6 analysed functions write the two peer maps and each preserves keys(connected) ∩ keys(disconnected) = ∅ for the "
             "key it writes (the condition whose violation stops the network loop); back-off = min(10·2^k, 1800) with give-up beyond the "
             "configured count, attempt stamped before connecting, k incremented only on outgoing disconnect without greeting and reset on "
             "greeting, fields carried through connect/disconnect; self-connection recorded, dropped, skipped; peers file atomically replaced, "
             "<= 100, newest first.",
        note=TRUST + "Sockets and clock progressions are not modelled."),
    "C20": dict(
        technique="exception-escape analysis (may-raise summaries vs enclosing catch-all); who-may-call closure; dispatch exhaustiveness; shared typestate rules",
        text="Decides that every peer-driven call of the selector-event handler (recv, receive-data, can-send) and everything else in it that may "
             "raise is inside a non-re-raising `except Exception`, whose handlers disconnect only the offending peer through a disconnect that "
             "cannot raise; the 14 message-driven functions are reachable only through it; dispatch covers all 7 message classes, enforces "
             "greeting-first and raises on unknown types; state changes go through validated entry points; decoder loops are bounded by the frame.",
        note=TRUST + "CPU time of decoding is a runtime quantity (noted, not armed); accept()/manager steps run outside the catch-all but process no peer payload."),
}

NOT_YET = "not claimed yet: rule module not implemented in this revision (see DESIGN.md section 5 for the planned rules)"


def main() -> None:
    props = [json.loads(l)["id"] for l in open(os.path.join(ROOT, "properties.jsonl")) if l.strip()]
    checks = []
    na = []
    for p in props:
        have = os.path.isfile(os.path.join(ROOT, "verif", "rules", p.lower() + ".py")) and p in META
        if not have:
            na.append({"property_id": p, "reason": NA.get(p, NOT_YET)})
            continue
        m = META[p]
        checks.append({
            "property_id": p,
            "quick_cmd": "/venv/bin/python -m verif.check %s --tier quick" % p,
            "thorough_cmd": "/venv/bin/python -m verif.check %s --tier thorough" % p,
            "evidence_file": "evidence/%s.json" % p,
            "replay_cmd_template": "/venv/bin/python -m verif.check --replay {path}",
            "engine": "skv-static",
            "level_claimed": {"category": "other", "text": m["text"], "design_ref": "DESIGN.md section 5, %s" % p},
            "level_note": m["note"],
            "technique": m["technique"],
        })
    man = {
        "version": 1,
        "setup_cmd": "/venv/bin/python -m compileall -q verif",
        "hooks": {
            "guard": "SKEPTICOIN_VERIF",
            "enable": "none needed: static analysis reads /repo's sources and adds no instrumentation (no hook commits)",
            "baseline_off_cmd": "cd /repo && /venv/bin/python -m pytest -ra -q -p no:cacheprovider --timeout=900 --continue-on-collection-errors",
            "source_commits": [],
            "add_only": True,
        },
        "engines": [{
            "name": "skv-static",
            "path": "verif/",
            "serves_properties": [c["property_id"] for c in checks],
            "kind_free_text": "repository-specific static analysis on stdlib ast: loader + constant folder, light annotation-driven types, "
                              "expression normaliser, syntax-directed event summaries with inlining and path-condition provenance, "
                              "structured flow/typestate runner with exceptional edges, codec and SQL schema extractors",
        }],
        "checks": checks,
        "notes": "Every check parses /repo's current working tree on each run and never imports or executes repository code. Exit 0 holds, "
                 "exit 1 VIOLATION (with replay file), exit 2 ANALYSIS-ERROR (verdict unknown / fail-closed instance floor / failed self-test). "
                 "Genuine defects repaired by fix: commits and the one recorded finding are in known_findings.json.",
        "not_applicable": na,
    }
    with open(os.path.join(ROOT, "MANIFEST.json"), "w") as f:
        json.dump(man, f, indent=1)
    print("MANIFEST: %d checks, %d not applicable" % (len(checks), len(na)))


NA: dict = {}

if __name__ == "__main__":
    main()
