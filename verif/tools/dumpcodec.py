import sys
from verif.engine.repo import Repo
from verif.engine.codec import Extractor, show_prim
repo = Repo(sys.argv[1] if len(sys.argv) > 1 else "/repo")
ex = Extractor(repo)
for q, c in ex.codecs.items():
    print("==", q.replace("skepticoin.", ""), "ctor", c.ctor, "consts", c.ctor_consts)
    print("   W:", None if c.writer is None else [show_prim(p) for p in c.writer])
    print("   R:", None if c.reader is None else [show_prim(p) + ("->" + str(a)) for p, a in zip(c.reader, c.reader_args)])
    if c.dispatch: print("   D:", c.dispatch.width, [(t.hex(), s.split('.')[-1]) for t, s in c.dispatch.table], c.dispatch.fallthrough_raises)
    if c.span: print("   span:", c.span)
    if c.raw_reads: print("   raw reads:", c.raw_reads)
    if c.problems: print("   PROBLEMS:", c.problems)
