"""Debug: print the event table of a function.  python -m verif.tools.dump <qualname> [depth]"""
import sys
from verif.engine.repo import Repo
from verif.engine.walker import Walker

def main() -> None:
    repo = Repo(sys.argv[3] if len(sys.argv) > 3 else "/repo")
    q = sys.argv[1]
    if not q.startswith("skepticoin."):
        q = "skepticoin." + q
    d = int(sys.argv[2]) if len(sys.argv) > 2 else 3
    s = Walker(repo, d).summary(q)
    kinds = sys.argv[4].split(",") if len(sys.argv) > 4 else ["raise", "assert"]
    for e in s.events:
        if e.kind in kinds or kinds == ["all"]:
            print("%3d %s%s  @%s:%d" % (e.seq, "  " * len(e.chain), e.describe(), e.func.split(".")[-1], e.line))
    if s.unknown:
        print("UNKNOWN:", s.unknown)

if __name__ == "__main__":
    main()
