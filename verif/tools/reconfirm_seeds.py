"""Re-confirm every kept seed against /repo's current HEAD (after a `fix:` commit moved the base): the demonstration still passes on
the clean tree and fails with the change applied. Scratch worktrees only; /repo itself is never modified.

usage: python -m verif.tools.reconfirm_seeds [seed ids...]"""
from __future__ import annotations

import json
import os
import shutil
import subprocess
import sys
import tempfile
from concurrent.futures import ThreadPoolExecutor

VERIF = os.path.dirname(os.path.dirname(os.path.dirname(os.path.abspath(__file__))))
PY = "/venv/bin/python"


def sh(cmd, cwd, timeout=1500):  # type: ignore
    try:
        r = subprocess.run(cmd, cwd=cwd, capture_output=True, text=True, timeout=timeout)
        return r.returncode, (r.stdout + r.stderr)
    except subprocess.TimeoutExpired:
        return 124, "timeout"


def one(sid: str):  # type: ignore
    src = os.path.join(VERIF, "seeded", sid)
    wt = tempfile.mkdtemp(prefix="vr_")
    os.rmdir(wt)
    rc, out = sh(["git", "-C", "/repo", "worktree", "add", "-q", "--detach", wt, "HEAD"], "/repo")
    if rc:
        return sid, "worktree failed", out[-200:]
    try:
        os.makedirs(os.path.join(wt, "_seeded", "x"))
        for h in os.listdir(src):
            p = os.path.join(src, h)
            if os.path.isfile(p) and h not in ("patch.diff", "meta.json"):
                shutil.copy(p, os.path.join(wt, "_seeded", "x", h))
        shared = os.path.join(src, "shared")
        if os.path.isdir(shared):
            for h in os.listdir(shared):
                shutil.copy(os.path.join(shared, h), os.path.join(wt, "_seeded", h))
        rc_clean, out_clean = sh([PY, "_seeded/x/demo.py"], wt)
        rc, out = sh(["git", "apply", os.path.join(src, "patch.diff")], wt)
        if rc:
            return sid, "patch does not apply", out[-300:]
        rc_demo, out_demo = sh([PY, "_seeded/x/demo.py"], wt)
        ok = rc_clean == 0 and rc_demo != 0
        return sid, "ok" if ok else "NOT CONFIRMED (clean %s, changed %s)" % (rc_clean, rc_demo), (out_clean[-400:] if rc_clean else out_demo[-400:]) if not ok else ""
    finally:
        sh(["git", "-C", "/repo", "worktree", "remove", "--force", wt], "/repo")
        shutil.rmtree(wt, ignore_errors=True)


def main() -> int:
    ids = sys.argv[1:] or sorted(os.listdir(os.path.join(VERIF, "seeded")))
    ids = [i for i in ids if os.path.isfile(os.path.join(VERIF, "seeded", i, "patch.diff"))]
    bad = 0
    with ThreadPoolExecutor(max_workers=12) as ex:
        for sid, verdict, detail in ex.map(one, ids):
            if verdict != "ok":
                bad += 1
                print("%-8s %s\n   %s" % (sid, verdict, detail.replace("\n", "\n   ")))
    head = subprocess.run(["git", "-C", "/repo", "rev-parse", "--short", "HEAD"], capture_output=True, text=True).stdout.strip()
    print("%d seeds re-confirmed against %s, %d not" % (len(ids) - bad, head, bad))
    return 1 if bad else 0


if __name__ == "__main__":
    sys.exit(main())
