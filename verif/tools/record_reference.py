"""One-off: record the network reference data (checkpoint table, wire format signature, genesis digest) from the pinned tree.
The files it writes are committed; checks only read them."""
import hashlib, json, os, sys
from verif.engine.repo import Repo
from verif.engine.report import Check, VERIF_ROOT
from verif.rules.c18 import wire_signature

repo = Repo(sys.argv[1] if len(sys.argv) > 1 else "/repo")
ck = Check("C18", repo, "quick")
ref = os.path.join(VERIF_ROOT, "reference")
os.makedirs(ref, exist_ok=True)
table = repo.const("skepticoin.cheating.KNOWN_HASHES")
json.dump({str(k): v for k, v in sorted(table.items())}, open(os.path.join(ref, "known_hashes.json"), "w"), indent=0)
from verif.rules.c18 import message_classes
json.dump({"classes": json.loads(json.dumps(wire_signature(ck))), "messages": json.loads(json.dumps(wire_signature(ck, message_classes(ck))))},
          open(os.path.join(ref, "wire_format.json"), "w"), indent=1, sort_keys=True)
data = repo.const("skepticoin.genesis.genesis_block_data")
open(os.path.join(ref, "genesis.sha256"), "w").write(hashlib.sha256(data).hexdigest() + "  genesis_block_data (%d bytes)\n" % len(data))
json.dump(sorted(repo.functions), open(os.path.join(ref, "api_functions.json"), "w"), indent=0)
from verif.engine.walker import exc_class
rc = {}
for q, fi in sorted(repo.functions.items()):
    if fi.module.name in ("skepticoin.consensus", "skepticoin.serialization", "skepticoin.datatypes", "skepticoin.signing", "skepticoin.networking.messages"):
        summ = ck.walker.summary(q, 0)
        cl = sorted({exc_class(e) for e in summ.raises() if not e.chain})
        if cl:
            rc[q] = cl
from verif.engine.walker import exc_ancestors
hier = {q: sorted(exc_ancestors(repo, q)) for q, ci in sorted(repo.classes.items()) if "Exception" in exc_ancestors(repo, q) or "BaseException" in exc_ancestors(repo, q)}
json.dump({"raises": rc, "ancestors": hier}, open(os.path.join(ref, "raise_classes.json"), "w"), indent=0, sort_keys=True)
from verif.rules.common import is_gate, rejection_sites
rej = {}
for q, fi in sorted(repo.functions.items()):
    if is_gate(fi):
        rej[q] = sorted({a.lstrip("?") for a in rejection_sites(ck, q)})
json.dump(rej, open(os.path.join(ref, "rejections.json"), "w"), indent=0, sort_keys=True)
glob_names = sorted("%s.%s" % (m.name, n) for m in repo.modules.values() for n in m.assign_nodes)
json.dump(glob_names, open(os.path.join(ref, "api_globals.json"), "w"), indent=0)
from verif.rules.c20 import partial_operations, step_reachable
tot, st = {}, {}
for q in step_reachable(ck):
    for kind, line, text in partial_operations(repo.raw_function(repo.functions[q])):
        tot[kind] = tot.get(kind, 0) + 1
        st.setdefault(kind, []).append([q, line, text])
json.dump({"totals": tot, "sites": st}, open(os.path.join(ref, "step_partials.json"), "w"), indent=1, sort_keys=True)
from verif.selftest.runner import tree_digest
open(os.path.join(ref, "tree.sha256"), "w").write(tree_digest(repo.root) + "  skepticoin/**/*.py of the tree the corpora were confirmed on\n")
print(len(table), "checkpoints; genesis", len(data), "bytes;", len(repo.functions), "functions")
