"""Confirm a sub-agent's seeded change in a fresh scratch worktree and, if it holds up, keep it under /verif/seeded/<id>/.

usage: python -m verif.tools.ingest_seed <dir with patch.diff, demo.py, notes.md> <seed id> <property id>

Confirms: (1) the patch applies to /repo's HEAD, (2) the existing suite still passes with it, (3) demo.py fails with it,
(4) demo.py passes without it. Then runs every check against a scratch copy with the patch and records which rules fire.
The scratch worktree is removed afterwards; /repo itself is never modified.
"""
from __future__ import annotations

import json
import os
import shutil
import subprocess
import sys
import tempfile

VERIF = os.path.dirname(os.path.dirname(os.path.dirname(os.path.abspath(__file__))))
PY = "/venv/bin/python"


def sh(cmd, cwd, timeout=1200):  # type: ignore
    r = subprocess.run(cmd, cwd=cwd, capture_output=True, text=True, timeout=timeout)
    return r.returncode, (r.stdout + r.stderr)


def main() -> int:
    src, sid, prop = os.path.abspath(sys.argv[1]), sys.argv[2], sys.argv[3].upper()
    patch = os.path.join(src, "patch.diff")
    demo = os.path.join(src, "demo.py")
    if not (os.path.isfile(patch) and os.path.isfile(demo)):
        print("missing patch.diff / demo.py in", src)
        return 2
    wt = tempfile.mkdtemp(prefix="vw_")
    os.rmdir(wt)
    rc, out = sh(["git", "-C", "/repo", "worktree", "add", "-q", "--detach", wt, "HEAD"], "/repo")
    if rc:
        print("worktree add failed", out)
        return 2
    meta = {"id": sid, "property": prop, "source": "independent sub-agent given only the property text and a scratch worktree"}
    try:
        os.makedirs(os.path.join(wt, "_seeded", "x"))
        shutil.copy(demo, os.path.join(wt, "_seeded", "x", "demo.py"))
        helpers = [f for f in os.listdir(os.path.dirname(src)) if f.endswith(".py")]
        for h in helpers:      # shared harness files the agent put next to its numbered directories
            shutil.copy(os.path.join(os.path.dirname(src), h), os.path.join(wt, "_seeded", h))
        for h in os.listdir(src):
            if h not in ("demo.py", "patch.diff", "notes.md") and os.path.isfile(os.path.join(src, h)):
                shutil.copy(os.path.join(src, h), os.path.join(wt, "_seeded", "x", h))
        rc_clean, out_clean = sh([PY, "_seeded/x/demo.py"], wt)
        rc, out = sh(["git", "apply", patch], wt)
        if rc:
            print("patch does not apply:", out)
            return 2
        for attempt in range(4):
            # the two integration tests bind fixed ports; they collide when several worktrees run the suite at once, so retry
            # a private network namespace keeps the fixed ports of the integration tests apart when several suites run at once
            cmd = PY + " -m pytest -q -p no:cacheprovider --timeout=900 -q"
            rc_suite, out_suite = sh(["unshare", "-rn", "sh", "-c", "ip link set lo up; " + cmd], wt)
            if "unshare" in out_suite and rc_suite != 0 and "passed" not in out_suite:
                rc_suite, out_suite = sh(cmd.split(), wt)
            if rc_suite == 0 or "Address already in use" not in out_suite and "test_integration" not in out_suite:
                break
            import time
            time.sleep(5 + 7 * attempt)
        tail = [l for l in out_suite.strip().splitlines() if l.strip()][-1:]
        rc_demo, out_demo = sh([PY, "_seeded/x/demo.py"], wt)
        meta["confirmed"] = {
            "suite_with_change": "pass" if rc_suite == 0 else "FAIL",
            "suite_tail": tail,
            "demo_with_change_exit": rc_demo,
            "demo_without_change_exit": rc_clean,
            "commands": ["git apply patch.diff", PY + " -m pytest -q -p no:cacheprovider --timeout=900", PY + " demo.py (with / without the change)"],
        }
        ok = rc_suite == 0 and rc_demo != 0 and rc_clean == 0
        print("suite:", meta["confirmed"]["suite_with_change"], tail, "| demo with change exit", rc_demo, "| without", rc_clean)
        if not ok:
            print("NOT CONFIRMED; demo output (changed tree):\n", out_demo[-1500:], "\n(clean tree):\n", out_clean[-800:])
            return 1
    finally:
        sh(["git", "-C", "/repo", "worktree", "remove", "--force", wt], "/repo")
        shutil.rmtree(wt, ignore_errors=True)
    # which checks fire
    rc, out = sh([PY, "-m", "verif.tools.tryseed", patch], VERIF)
    fired = [l for l in out.splitlines() if " VIOLATED [" in l]
    meta["checks_fired"] = fired
    meta["caught"] = bool(fired)
    meta["caught_by_property_check"] = any(l.startswith(prop + " ") for l in fired)
    notes = os.path.join(src, "notes.md")
    meta["needs_to_manifest"] = "see notes.md"
    if os.path.isfile(notes):
        txt = open(notes, errors="replace").read()
        import re
        m = re.search(r"(?is)(what is needed[^\n]*\n.*?)(\n#|\n\*\*|\Z)", txt)
        meta["needs_to_manifest"] = (m.group(1) if m else txt)[:900].strip()
    dst = os.path.join(VERIF, "seeded", sid)
    os.makedirs(dst, exist_ok=True)
    shutil.copy(patch, os.path.join(dst, "patch.diff"))
    shutil.copy(demo, os.path.join(dst, "demo.py"))
    if os.path.isfile(notes):
        shutil.copy(notes, os.path.join(dst, "notes.md"))
    for h in [f for f in os.listdir(os.path.dirname(src)) if f.endswith(".py")]:
        os.makedirs(os.path.join(dst, "shared"), exist_ok=True)
        shutil.copy(os.path.join(os.path.dirname(src), h), os.path.join(dst, "shared", h))
    for h in os.listdir(src):
        if h not in ("demo.py", "patch.diff", "notes.md") and os.path.isfile(os.path.join(src, h)):
            shutil.copy(os.path.join(src, h), os.path.join(dst, h))
    meta["layout"] = "run from a worktree root as _seeded/x/demo.py; files under shared/ go to _seeded/"
    with open(os.path.join(dst, "meta.json"), "w") as f:
        json.dump(meta, f, indent=1)
    print("kept as", dst)
    print("\n".join(fired) if fired else "NO CHECK FIRED")
    return 0


if __name__ == "__main__":
    sys.exit(main())
