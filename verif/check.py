"""Driver:  /venv/bin/python -m verif.check <ID> [--tier quick|thorough] [--repo /repo] | --replay <file>

exit 0: every obligation holds (or is a listed known finding)
exit 1: VIOLATION property=<id> replay=<path>
exit 2: ANALYSIS-ERROR (verdict unknown, fewer rule instances than confirmed, failed control or self-test, internal error)
"""
from __future__ import annotations

import argparse
import importlib
import json
import os
import sys
import traceback

from .engine.repo import AnalysisError, Repo
from .engine.report import VERIF_ROOT, Check


def run_property(prop: str, tier: str, repo_root: str, evidence_dir: str, known_path: str, selftest: bool = True) -> int:
    seed = int(os.environ.get("VERIF_SEED", "0") or 0)
    try:
        repo = Repo(repo_root)
    except AnalysisError as e:
        print("ANALYSIS-ERROR property=%s rule=load %s" % (prop, e))
        return 2
    ck = Check(prop, repo, tier, seed)
    for f in getattr(repo, "canon_failures", []):
        ck.note("load-time canonicalisation skipped (%s): refactorings it would have absorbed may be reported" % f)
    canon = {k: getattr(repo, k) for k in ("decorators_expanded", "memo_attributes", "helper_objects_expanded", "context_managers_expanded", "generators_rewritten") if getattr(repo, k, None)}
    if canon:
        ck.stats["load-time rewrites"] = {k: (dict(v) if isinstance(v, dict) else v) for k, v in canon.items()}
    try:
        mod = importlib.import_module("verif.rules.%s" % prop.lower())
    except ImportError:
        print("ANALYSIS-ERROR property=%s rule=load no rule module" % prop)
        return 2
    try:
        mod.check(ck)
        from .rules import shared
        shared.run(ck)
        if tier == "thorough" and selftest:
            from .selftest import runner
            runner.run_for_property(ck, repo_root)
    except AnalysisError as e:
        ck.unknown("engine", "analysis", str(e))
    except Exception:
        sys.stderr.write(traceback.format_exc())
        ck.unknown("engine", "internal", traceback.format_exc().strip().splitlines()[-1])
    return ck.finish(evidence_dir, known_path)


def main() -> int:
    ap = argparse.ArgumentParser()
    ap.add_argument("prop", nargs="?")
    ap.add_argument("--tier", default=os.environ.get("VERIF_TIER") or "quick", choices=["quick", "thorough"])
    ap.add_argument("--repo", default=os.environ.get("VERIF_REPO", "/repo"))
    ap.add_argument("--replay")
    ap.add_argument("--evidence-dir", default=os.path.join(VERIF_ROOT, "evidence"))
    ap.add_argument("--known", default=os.path.join(VERIF_ROOT, "known_findings.json"))
    ap.add_argument("--no-selftest", action="store_true")
    a = ap.parse_args()
    if a.replay:
        with open(a.replay) as f:
            rp = json.load(f)
        prop = rp["property"]
        ob = rp["obligation"]
        print("replaying %s [%s] %s" % (prop, ob["rule"], ob["construct"]))
        tmp_ev = os.path.join(a.evidence_dir, "replay", "rerun")
        code = run_property(prop, "quick", a.repo, tmp_ev, a.known, selftest=False)
        try:
            with open(os.path.join(tmp_ev, "%s.json" % prop)) as f:
                ev = json.load(f)
            still = [s for s in ev["coverage"]["samples"]
                     if s["rule"] == ob["rule"] and s["construct"] == ob["construct"] and s["status"] == "VIOLATED"]
        except Exception:
            still = []
        if still:
            print("REPRODUCED: %s" % still[0]["detail"])
            return 1
        print("not reproduced on the current tree (exit of full run: %d)" % code)
        return 0 if code == 0 else code
    if not a.prop:
        ap.error("property id required")
    return run_property(a.prop.upper(), a.tier, a.repo, a.evidence_dir, a.known, selftest=not a.no_selftest)


if __name__ == "__main__":
    try:
        sys.exit(main())
    except SystemExit:
        raise
    except BaseException:
        sys.stderr.write(traceback.format_exc())
        print("ANALYSIS-ERROR rule=driver internal error")
        sys.exit(2)
