"""C02 — No inflation: value is conserved and issuance follows the subsidy schedule."""
from __future__ import annotations

import ast
from typing import List, Optional, Tuple

from ..engine.match import Spec, require_call, require_guard, require_return
from ..engine.repo import AnalysisError
from ..engine.report import Check
from ..engine.terms import show
from .common import CONS, HORIZON_CTX, rule_split_agreement, rule_uto_apply, short

MAX_DOC = 2_099_999_986_350_000   # the documented maximum, from the property statement
U_PARENT = "cs.unspent_transaction_outs_by_hash[block.header.summary.previous_block_hash]"


def r02_1(ck: Check) -> None:
    summ = ck.summ(CONS + "validate_block_in_coinstate")
    sp = Spec(summ, ("block", "cs"))
    require_guard(ck, "R02.1", summ, sp,
                  "sum(o.value for o in block.transactions[0].outputs) > get_block_fees(block.transactions[1:], %s) + get_block_subsidy(block.height)" % U_PARENT,
                  "reward outputs may not exceed subsidy(height) + fees of the other transactions, fees taken against the PARENT's unspent set",
                  context=[HORIZON_CTX])


def r02_2(ck: Check) -> None:
    s = ck.summ(CONS + "get_transaction_fee", 0)
    require_return(ck, "R02.2", s, Spec(s, ("tx", "U")),
                   "sum(U[i.output_reference].value for i in tx.inputs) - sum(o.value for o in tx.outputs)",
                   "fee = all inputs minus all outputs")
    s = ck.summ(CONS + "get_block_fees", 0)
    require_return(ck, "R02.2", s, Spec(s, ("txs", "U")), "sum(get_transaction_fee(t, U) for t in txs)",
                   "block fees = sum over exactly the given transactions, same unspent set")


def r02_3(ck: Check) -> None:
    summ = ck.summ(CONS + "validate_block_in_coinstate")
    sp = Spec(summ, ("block", "cs"), forall=[("t", "block.transactions[1:]")])
    require_guard(ck, "R02.3", summ, sp,
                  "sum(o.value for o in t.outputs) > sum(%s[i.output_reference].value for i in t.inputs)" % U_PARENT,
                  "an ordinary transaction may not create more value than it spends", context=[HORIZON_CTX])
    # the same bound for a transaction admitted on its own (pool / wallet path)
    s2 = ck.summ(CONS + "validate_non_coinbase_transaction_in_coinstate")
    sp2 = Spec(s2, ("tx", "at_hash", "cs"))
    require_guard(ck, "R02.3", s2, sp2,
                  "sum(o.value for o in tx.outputs) > sum(cs.unspent_transaction_outs_by_hash[at_hash][i.output_reference].value for i in tx.inputs)",
                  "outputs <= inputs when validated at a given state")


def r02_4(ck: Check) -> None:
    s = ck.summ(CONS + "validate_sashimi_range", 0)
    sp = Spec(s, ("v",))
    require_guard(ck, "R02.4", s, sp, "v <= 0", "zero and negative amounts rejected")
    require_guard(ck, "R02.4", s, sp, "v > %d" % MAX_DOC, "amounts above the documented maximum supply rejected")
    from .c12 import exact_guard
    exact_guard(ck, "R02.4", s, sp, "v <= 0 or v > %d" % MAX_DOC, "amounts in (0, maximum] — including the maximum itself — are accepted")
    summ = ck.summ(CONS + "validate_block_by_itself")
    spo = Spec(summ, ("block", "now"), forall=[("t", "block.transactions[1:]"), ("o", "t.outputs")])
    require_guard(ck, "R02.4", summ, spo, "o.value <= 0", "every output of every ordinary transaction > 0")
    require_guard(ck, "R02.4", summ, spo, "o.value > %d" % MAX_DOC, "every output of every ordinary transaction <= maximum")
    spt = Spec(summ, ("block", "now"), forall=[("t", "block.transactions[1:]")])
    require_guard(ck, "R02.4", summ, spt, "sum(o.value for o in t.outputs) <= 0", "output total > 0")
    require_guard(ck, "R02.4", summ, spt, "sum(o.value for o in t.outputs) > %d" % MAX_DOC, "output total <= maximum (no overflow past the supply)")
    # pool / wallet path: the same checks on a single transaction
    s1 = ck.summ(CONS + "validate_non_coinbase_transaction_by_itself")
    sp1 = Spec(s1, ("tx",), forall=[("o", "tx.outputs")])
    require_guard(ck, "R02.4", s1, sp1, "o.value > %d" % MAX_DOC, "per-output bound on the single-transaction path")
    require_guard(ck, "R02.4", s1, sp1, "o.value <= 0", "per-output positivity on the single-transaction path")


def r02_5(ck: Check) -> None:
    summ = ck.summ(CONS + "validate_block_by_itself")
    sp = Spec(summ, ("block", "now"))
    require_guard(ck, "R02.5", summ, sp, "len(block.transactions) == 0", "a block without transactions is rejected")
    require_guard(ck, "R02.5", summ, sp, "len(block.transactions[0].inputs) != 1", "the reward transaction has exactly one input")
    require_guard(ck, "R02.5", summ, sp, "not block.transactions[0].inputs[0].output_reference.references_thin_air()",
                  "the reward's single input is the null reference")
    require_guard(ck, "R02.5", summ, sp, "not isinstance(block.transactions[0].inputs[0].signature, CoinbaseData)",
                  "the reward's input carries CoinbaseData")
    s = ck.summ("skepticoin.datatypes.OutputReference.references_thin_air", 0)
    require_return(ck, "R02.5", s, Spec(s, ("self",)), "self.hash == b'\\x00' * 32 and self.index == 0", "null reference = 32 zero bytes, index 0")
    s = ck.summ(CONS + "construct_reference_to_thin_air", 0)
    require_return(ck, "R02.5", s, Spec(s, ()), "OutputReference(b'\\x00' * 32, 0)", "the constructed null reference is what references_thin_air recognises")


def r02_6(ck: Check) -> None:
    summ = ck.summ(CONS + "validate_block_in_coinstate")
    sp = Spec(summ, ("block", "cs"))
    require_guard(ck, "R02.6", summ, sp,
                  "block.height != cs.block_by_hash[block.header.summary.previous_block_hash].height + 1",
                  "the height that selects the subsidy is the parent's height plus one", context=[HORIZON_CTX])


FLOAT_FILES = ("skepticoin.consensus", "skepticoin.balances", "skepticoin.pow", "skepticoin.params", "skepticoin.merkletree")


def float_uses(tree: ast.AST) -> List[Tuple[int, str]]:
    out = []
    for n in ast.walk(tree):
        if isinstance(n, ast.BinOp) and isinstance(n.op, ast.Div):
            out.append((n.lineno, "true division `/`"))
        elif isinstance(n, ast.AugAssign) and isinstance(n.op, ast.Div):
            out.append((n.lineno, "true division `/=`"))
        elif isinstance(n, ast.Call) and isinstance(n.func, ast.Name) and n.func.id in ("float", "round", "Decimal"):
            out.append((n.lineno, "%s()" % n.func.id))
        elif isinstance(n, ast.Attribute) and isinstance(n.value, ast.Name) and n.value.id == "math":
            out.append((n.lineno, "math.%s" % n.attr))
        elif isinstance(n, ast.Constant) and isinstance(n.value, float):
            out.append((n.lineno, "float literal %r" % n.value))
    return out


def _float_in(t) -> Optional[str]:   # type: ignore
    """a float-valued operation inside a term (int(...) makes an integer again; message formatting is not arithmetic)"""
    if not isinstance(t, tuple) or not t:
        return None
    if t[0] == "c":
        return ("float literal %r" % t[1]) if isinstance(t[1], float) else None
    if t[0] == "op" and t[1] == "div":
        return "true division `/`"
    if t[0] == "call" and len(t) == 4:
        f = t[1]
        if f in (("g", "builtin:int"), ("g", "builtin:fmt"), ("g", "builtin:fstr"), ("g", "builtin:str"), ("g", "builtin:repr"), ("g", "builtin:len")):
            return None
        if f[0] == "g" and (f[1] in ("builtin:float", "builtin:round") or f[1].startswith("ext:math.") or f[1].startswith("ext:decimal.")
                            or f[1] in ("ext:time.time", "ext:time.perf_counter", "ext:time.monotonic")):
            return "%s()" % f[1].split(":")[-1]
    for x in t:
        r = _float_in(x)
        if r is not None:
            return r
    return None


def r02_7(ck: Check) -> None:
    """no float-valued operation flows into what the consensus code decides, returns or stores: the conditions of its events, its return
    values, stored values and the arguments it hands to other code (logging and printing excluded - timing a validator is not arithmetic)"""
    for probe, want in ((("op", "div", ("v", "a"), ("c", 2)), True), (("call", ("g", "builtin:int"), (("op", "div", ("v", "a"), ("c", 2)),), ()), False),
                        (("c", 0.5), True), (("lin", ((("v", "a"), 1),), 3), False)):
        if bool(_float_in(probe)) != want:
            ck.unknown("R02.7", "positive control", "the float-flow scan misjudged its embedded control terms")
            return
    LOGGING = ("debug", "info", "warning", "error", "exception", "critical", "log")
    for mn in FLOAT_FILES:
        m = ck.repo.module(mn)
        found = []
        n_fn = 0
        for q, fi in sorted(ck.repo.functions.items()):
            if fi.module is not m or ck.walker.transparent(q):
                continue            # helpers added later are looked at where recorded code uses them; unused ones decide nothing
            n_fn += 1
            s = ck.summ(q, 0)
            for e in s.events:
                if e.chain:
                    continue
                terms = [c.term for c in e.pc]
                if e.kind == "return":
                    terms.append(e.term)
                elif e.kind == "store" and e.value is not None:
                    root = e.term
                    while root[0] in ("s", "a", "sl"):
                        root = root[1]
                    if root[0] in ("g", "dict", "list", "call"):
                        continue        # module-level statistics (timing totals, counters): not part of any decision or result
                    terms.append(e.value)
                elif e.kind == "call" and e.parts is not None:
                    f = e.parts[0]
                    if (f[0] == "a" and f[2] in LOGGING) or f == ("g", "builtin:print") or (f[0] == "g" and f[1].split(".")[-1] in ("perf_counter", "time", "monotonic")):
                        continue
                    if f[0] == "g" and f[1] in ("builtin:fmt", "builtin:fstr", "builtin:str", "builtin:repr"):
                        continue
                    terms.extend(e.term[2] if e.term[0] == "call" else [])
                for t in terms:
                    r = _float_in(t)
                    if r is not None:
                        found.append((e.line, "%s in %s" % (r, short(q))))
                        break
        # module-level constants that consensus code reads
        for name, node in m.assign_nodes.items():
            try:
                v = ck.repo.const("%s.%s" % (mn, name))
            except Exception:
                continue
            if isinstance(v, float):
                found.append((getattr(node, "lineno", 0), "module constant %s is a float" % name))
        construct = "%s: integer-only arithmetic in what is decided, returned, stored or passed on" % short(mn)
        if not found:
            ck.ok("R02.7", construct, "%d functions: no true division / float / round / math / clock value outside logging" % n_fn, m.path)
        else:
            for ln, what in found[:4]:
                ck.violated("R02.7", "%s: %s" % (short(mn), what), "consensus arithmetic must be integer-exact (sums cannot wrap or round); found %s" % what,
                            "%s:%d" % (m.path, ln))


def check(ck: Check) -> None:
    ck.explanations.append(
        "C02: premises of the induction 'total(child) <= total(parent) + subsidy(height)': reward bound, fee formula, outputs<=inputs, "
        "value ranges, single first reward with null input, height linkage, integer-only arithmetic — each matched as guard/formula on every "
        "accepting path. The induction itself is the paper argument in DESIGN.md.")
    ck.run("R02.1", "reward <= fees(parent state) + subsidy(height)", lambda: r02_1(ck))
    ck.run("R02.2", "fee arithmetic", lambda: r02_2(ck))
    ck.run("R02.3", "outputs <= inputs", lambda: r02_3(ck))
    ck.run("R02.4", "value range (0, MAX] per output and per total", lambda: r02_4(ck))
    ck.run("R02.5", "exactly one reward transaction, first, one null input", lambda: r02_5(ck))
    ck.run("R02.6", "height linkage", lambda: r02_6(ck))
    ck.run("R02.7", "integer-only consensus arithmetic", lambda: r02_7(ck))
    from .c18 import r18_7
    ck.run("R18.7", "full validation applies above the recorded checkpoint horizon, which has not moved", lambda: r18_7(ck))
    ck.run("R01.8", "reward/rest split agreement", lambda: rule_split_agreement(ck, "R01.8"))
    ck.run("R01.10", "apply removes spent and adds created outputs", lambda: rule_uto_apply(ck, "R01.10"))
    from .c16 import r16_schedule
    ck.run("R16", "subsidy schedule (shared with C16)", lambda: r16_schedule(ck))
    from .c03 import r03_2
    ck.run("R03.2", "the unspent set of a block is built from its PARENT's set (fork-safe conservation)", lambda: r03_2(ck))
    ck.assume("no output is removed twice and every removed output existed: C01 (R01.3, R01.7)")
