"""C01 — No unauthorised or double spending in any fully validated block."""
from __future__ import annotations

import ast
from typing import Any, List

from ..engine.match import Spec, find_calls, require_call, require_guard, require_return, residual
from ..engine.repo import AnalysisError, func_body
from ..engine.report import Check
from ..engine.terms import C, show
from ..engine.walker import after_completion
from .common import CONS, HORIZON_CTX, require_seen_set, rule_effect_free, rule_split_agreement, rule_uto_apply, short

SIG = "skepticoin.signing."
DT = "skepticoin.datatypes."


def r01_1(ck: Check) -> None:
    q = "skepticoin.coinstate.CoinState.add_block"
    summ = ck.summ(q)
    sp = Spec(summ, ("self", "block", "now"))
    e1 = require_call(ck, "R01.1", summ, sp, CONS + "validate_block_by_itself", ["block", None], "structural validation of the candidate block")
    e2 = require_call(ck, "R01.1", summ, sp, CONS + "validate_block_in_coinstate", ["block", "self"],
                      "in-state validation of the candidate block against the receiver state")
    applies = [e for e in summ.events if e.kind == "call" and not e.chain and "skepticoin.coinstate.CoinState.add_block_no_validation" in e.targets]
    want = sp.term("self.add_block_no_validation(block)")
    rets = summ.returns()
    construct = "CoinState.add_block returns self.add_block_no_validation(block) after both validators"
    if len(rets) == 1 and rets[0].term == want and not residual(rets[0], ()) and len(applies) == 1:
        if e1 is not None and e2 is not None and not (e1.seq < applies[0].seq and e2.seq < applies[0].seq):
            ck.violated("R01.1", construct, "the block is applied before validation has completed", applies[0].loc)
        else:
            ck.ok("R01.1", construct, "validate-then-apply on the same block and receiver", rets[0].loc)
    else:
        ck.violated("R01.1", construct, "the value returned must be the receiver state extended by exactly the validated block; returns: %s"
                    % "; ".join(show(r.term) for r in rets), summ.fi.loc)


def r01_2(ck: Check) -> None:
    summ = ck.summ(CONS + "validate_block_in_coinstate")
    sp = Spec(summ, ("block", "cs"), forall=[("t", "block.transactions[1:]")])
    require_call(ck, "R01.2", summ, sp, CONS + "validate_non_coinbase_transaction_in_coinstate",
                 ["t", "block.header.summary.previous_block_hash", "cs"],
                 "every non-reward transaction is checked against the PARENT's unspent set (so same-block outputs are not spendable)",
                 context=[HORIZON_CTX])


def r01_3_4(ck: Check) -> None:
    summ = ck.summ(CONS + "validate_non_coinbase_transaction_in_coinstate")
    sp = Spec(summ, ("tx", "at_hash", "cs"), forall=[("i", "tx.inputs")])
    require_guard(ck, "R01.3", summ, sp, "i.output_reference not in cs.unspent_transaction_outs_by_hash[at_hash]",
                  "a spend of a missing / already spent output is rejected")
    require_call(ck, "R01.4", summ, sp, CONS + "validate_signature_for_spend",
                 ["i", "cs.unspent_transaction_outs_by_hash[at_hash][i.output_reference]", "tx"],
                 "signature check for every input against the spent output, over the whole transaction")
    require_guard(ck, "R01.4", summ, sp,
                  "not i.signature.validate(cs.unspent_transaction_outs_by_hash[at_hash][i.output_reference].public_key, "
                  "tx.signable_equivalent().serialize())",
                  "spend rejected unless the signature verifies under the spent output's key over the blanked transaction")


def r01_5(ck: Check) -> None:
    s1 = ck.summ(DT + "Transaction.signable_equivalent", 0)
    require_return(ck, "R01.5", s1, Spec(s1, ("self",)),
                   "Transaction(inputs=[e.signable_equivalent() for e in self.inputs], outputs=self.outputs)",
                   "the signed message covers every input reference and every output")
    s2 = ck.summ(DT + "Input.signable_equivalent", 0)
    require_return(ck, "R01.5", s2, Spec(s2, ("self",)), "Input(output_reference=self.output_reference, signature=SignableEquivalent())",
                   "blanking keeps the reference and replaces only the signature")
    # the blanked placeholder serialises to a constant (no hidden field)
    q = SIG + "SignableEquivalent.stream_serialize"
    s3 = ck.summ(q, 0)
    writes = [e for e in s3.events if e.kind == "call" and e.parts[0][0] == "a" and e.parts[0][2] == "write"]
    if len(writes) == 1 and writes[0].term[2] and writes[0].term[2][0][0] == "c":
        ck.ok("R01.5", "SignableEquivalent serialises to the constant %s" % show(writes[0].term[2][0]), "placeholder carries no data", writes[0].loc)
    else:
        ck.violated("R01.5", "SignableEquivalent serialises to a constant", "the placeholder must serialise to a single constant tag", s3.fi.loc)


def _validate_overrides(ck: Check, name: str) -> List[str]:
    base = SIG + "Signature"
    ck.repo.cls(base)
    out = []
    for c in [base] + ck.repo.subclasses(base):
        if name in ck.repo.classes[c].methods:
            out.append(c)
    return out


def r01_6(ck: Check) -> None:
    ov = _validate_overrides(ck, "validate")
    want = [SIG + "Signature", SIG + "SECP256k1Signature"]
    construct = "validate() overrides in the Signature hierarchy = {Signature (abstract), SECP256k1Signature}"
    if sorted(ov) == sorted(want):
        ck.ok("R01.6", construct, "only a real signature class can answer 'valid'", ck.repo.cls(want[0]).module.path)
    else:
        extra = [short(c) for c in ov if c not in want]
        ck.violated("R01.6", construct, "unexpected validate() implementations: %s (a placeholder class that validates breaks authorisation)"
                    % (extra or [short(c) for c in want if c not in ov]), "")
    # abstract base raises
    sb = ck.summ(SIG + "Signature.validate", 0)
    if sb.returns() or not sb.raises():
        ck.violated("R01.6", "Signature.validate raises NotImplementedError", "the abstract base must not return a verdict", sb.fi.loc)
    else:
        ck.ok("R01.6", "Signature.validate raises NotImplementedError", "", sb.fi.loc)
    # SECP256k1Signature.validate
    s = ck.summ(SIG + "SECP256k1Signature.validate", 0)
    sp = Spec(s, ("self", "pk", "msg"))
    rows = {(show(r.cond), show(r.term)) for r in s.returns()}
    want_rows = {(show(sp.term("not isinstance(pk, SECP256k1PublicKey)")), "False"),
                 (show(sp.term("isinstance(pk, SECP256k1PublicKey)")), show(sp.term("pk.validate(self, msg)")))}
    construct = "SECP256k1Signature.validate = False unless key is SECP256k1PublicKey, else key.validate(self, message)"
    if rows == want_rows:
        ck.ok("R01.6", construct, "delegates to the key with the same message", s.fi.loc)
    else:
        ck.violated("R01.6", construct, "return table is %s" % sorted(rows), s.fi.loc)
    # SECP256k1PublicKey.validate
    s = ck.summ(SIG + "SECP256k1PublicKey.validate", 0)
    sp = Spec(s, ("self", "sig", "msg"))
    construct = "SECP256k1PublicKey.validate: True only after vk.verify(sig.signature, message) completed, vk from self.public_key on secp256k1"
    guard = sp.term("isinstance(sig, SECP256k1Signature)")
    bad = _verdict_only_after_verify(ck, s, {"pk": sp.term("self.public_key"), "sig": sp.term("sig.signature"), "msg": sp.term("msg")}, guard, 0)
    if bad:
        ck.violated("R01.6", construct, "; ".join(sorted(set(bad))), s.fi.loc)
    else:
        ck.ok("R01.6", construct, "", s.fi.loc)


def _verdict_only_after_verify(ck: Check, s: Any, roles: Any, guard: Any, depth: int) -> List[str]:
    """every way the function answers True passes a completed `VerifyingKey.from_string(pk, curve=SECP256k1).verify(sig, msg)`;
    a verdict handed on from a function added later (e.g. a memoised or shared verification routine) is followed into that function"""
    from ..engine.terms import subterms as _sub
    vk = ("call", ("g", "ext:ecdsa.VerifyingKey.from_string"), (roles["pk"],), (("curve", ("g", "ext:ecdsa.SECP256k1")),))
    verify = ("call", ("a", vk, "verify"), (roles["sig"], roles["msg"]), ())
    verifies = [e for e in s.events if e.kind == "call" and e.term == verify]
    bad: List[str] = []
    n_true = 0

    def arms(t: Any) -> List[Any]:
        return arms(t[2]) + arms(t[3]) if t[0] == "ife" and len(t) == 4 else [t]
    for r in s.returns():
        for t in arms(r.term):
            if t == C(False):
                continue
            if t == C(True):
                n_true += 1
                if any(c.prov == "handler" for c in r.pc):
                    bad.append("returns True from an exception handler")
                    continue
                if not [e for e in verifies if after_completion(e, r)]:
                    bad.append("a `return True` is not preceded by the verification call in the same try block (or its else-block)")
                if guard is not None and not any(c.term == guard for c in r.pc):
                    bad.append("`return True` is reachable for a non-SECP256k1Signature object")
                continue
            q = t[1][1] if t[0] == "call" and t[1][0] == "g" else None
            fi = ck.repo.functions.get(q) if q else None
            if fi is None or depth >= 3 or (ck.walker.api is not None and q in ck.walker.api) or t[3] or len(t[2]) != len(fi.params):
                bad.append("returns %s" % show(t)[:120])
                continue
            if guard is not None and not any(c.term == guard for c in r.pc):
                bad.append("a verdict is reachable for a non-SECP256k1Signature object")
            # which parameter of the callee plays which role
            sub: Any = {}
            for role, term in roles.items():
                pos = [i for i, a in enumerate(t[2]) if a == term]
                if len(pos) != 1:
                    bad.append("%s is handed %s: the %s is not passed on as it is" % (short(q), [show(a)[:40] for a in t[2]], role))
                    break
                sub[role] = ("v", fi.params[pos[0]])
            else:
                n_true += 1
                bad.extend(_verdict_only_after_verify(ck, ck.summ(q, 0), sub, None, depth + 1))
    if n_true == 0:
        bad.append("never returns True")
    return bad


def r01_7(ck: Check) -> None:
    summ = ck.summ(CONS + "validate_block_by_itself")
    spt = Spec(summ, ("block", "now"), forall=[("t", "block.transactions[1:]")])
    require_call(ck, "R01.7", summ, spt, CONS + "validate_non_coinbase_transaction_by_itself", ["t"],
                 "structural check of every non-reward transaction")
    sp0 = Spec(summ, ("block", "now"))
    require_call(ck, "R01.7", summ, sp0, CONS + "validate_no_duplicate_output_references_in_transactions", ["block.transactions[1:]"],
                 "no output reference is used twice inside one block")
    spi = Spec(summ, ("block", "now"), forall=[("t", "block.transactions[1:]"), ("i", "t.inputs")])
    require_seen_set(ck, "R01.7", summ, spi, "i.output_reference", "one seen-set spans all inputs of all non-reward transactions of the block")
    # per transaction
    st = ck.summ(CONS + "validate_non_coinbase_transaction_by_itself")
    spx = Spec(st, ("tx",), forall=[("i", "tx.inputs")])
    require_seen_set(ck, "R01.7", st, spx, "i.output_reference", "no reference twice inside one transaction")
    require_guard(ck, "R01.7", summ, spi, "i.output_reference.references_thin_air()", "reward-style null reference rejected in ordinary transactions")
    require_guard(ck, "R01.7", summ, spi, "i.signature.is_not_signature()", "placeholder objects where a signature belongs are rejected")
    # is_not_signature: False only for the real signature class
    for c in _validate_overrides(ck, "is_not_signature"):
        s = ck.summ(c + ".is_not_signature", 0)
        vals = {show(r.term) for r in s.returns()}
        construct = "%s.is_not_signature() returns %s" % (short(c), "False" if c.endswith("SECP256k1Signature") else "True")
        want = {"False"} if c.endswith("SECP256k1Signature") else {"True"}
        if vals == want:
            ck.ok("R01.7", construct, "", s.fi.loc)
        else:
            ck.violated("R01.7", construct, "only the real signature class may claim to be a signature; returns %s" % sorted(vals), s.fi.loc)
    if SIG + "SECP256k1Signature" not in _validate_overrides(ck, "is_not_signature"):
        ck.violated("R01.7", "SECP256k1Signature overrides is_not_signature", "real signatures would be rejected / base default changed", "")


def r01_11(ck: Check) -> None:
    s = ck.summ(DT + "OutputReference.__eq__", 0)
    sp = Spec(s, ("self", "other"))
    want = sp.term("self.hash == other.hash and self.index == other.index")
    rets = [r for r in s.returns()]
    construct = "OutputReference.__eq__ compares exactly (hash, index)"
    if len(rets) == 1 and rets[0].term == want:
        ck.ok("R01.11", construct, "duplicate detection and the unspent map key on both fields", rets[0].loc)
    else:
        ck.violated("R01.11", construct, "equality of output references must compare both serialized fields; returns %s"
                    % "; ".join(show(r.term) for r in rets), s.fi.loc)
    h = ck.summ(DT + "OutputReference.__hash__", 0)
    from ..engine.terms import subterms
    rets = h.returns()
    attrs = set()
    for r in rets:
        for t in subterms(r.term):
            if t[0] == "a" and t[1] == ("v", h.fi.params[0]):
                attrs.add(t[2])
    construct = "OutputReference.__hash__ is a function of a non-empty subset of (hash, index)"
    if rets and attrs and attrs <= {"hash", "index"}:
        ck.ok("R01.11", construct, "", h.fi.loc)
    else:
        ck.violated("R01.11", construct, "hash depends on %s" % sorted(attrs), h.fi.loc)


def check(ck: Check) -> None:
    ck.explanations.append(
        "C01: every spend check lies on every accepting path of full validation with the right operands and polarity "
        "(guard / path-condition matching over inlined event summaries), validate-before-apply, apply mirrors validate, "
        "validators are effect-free (transitive mutation summaries).")
    ck.run("R01.1", "CoinState.add_block: both validators complete before, and on the same block as, the apply whose result is returned", lambda: r01_1(ck))
    ck.run("R01.2", "per-transaction in-state check covers transactions[1:] against the parent id", lambda: r01_2(ck))
    ck.run("R01.3/4", "existence and signature guard for every input", lambda: r01_3_4(ck))
    ck.run("R01.5", "signable equivalent covers all references and all outputs", lambda: r01_5(ck))
    ck.run("R01.6", "only a real ECDSA verification can answer valid", lambda: r01_6(ck))
    ck.run("R01.7", "structural spend checks of the block", lambda: r01_7(ck))
    ck.run("R01.8", "reward/rest split agreement [0] / [1:]", lambda: rule_split_agreement(ck, "R01.8"))
    ck.run("R01.9", "validators mutate nothing reachable from their arguments", lambda: rule_effect_free(
        ck, "R01.9", [CONS + "validate_block_by_itself", CONS + "validate_block_in_coinstate"], "a rejected block leaves the prior state untouched"))
    ck.run("R01.10", "apply mirrors validate", lambda: rule_uto_apply(ck, "R01.10"))
    from .c03 import r03_1
    ck.run("R03.1", "the prior chain state is a persistent value nobody writes", lambda: r03_1(ck))
    from .c09 import r09_flow
    ck.run("R09.flow", "relayed blocks: rejected ones (also by an error while validating) leave state and store as they were", lambda: r09_flow(ck))
    ck.run("R01.11", "key semantics of an output reference", lambda: r01_11(ck))
    from .c18 import r18_7
    ck.run("R18.7", "full validation applies above the recorded checkpoint horizon, which has not moved", lambda: r18_7(ck))
    from .common import rule_eq
    ck.run("R01.12", "value semantics of what the unspent map stores and the duplicate checks compare", lambda: (
        rule_eq(ck, "R01.12", "skepticoin.datatypes.Output", ["value", "public_key"], "the spent output's key and value are what the checks read"),
        rule_eq(ck, "R01.12", "skepticoin.signing.SECP256k1PublicKey", ["public_key"], "keys compare by content")))
    ck.assume("ECDSA (ecdsa library) and SHA-256 behave as specified; immutables.Map is persistent")
