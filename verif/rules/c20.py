"""C20 — Malformed input from a peer is contained to that connection."""
from __future__ import annotations

import ast
from typing import Any, Dict, List, Optional, Set, Tuple

from ..engine.codec import Codec
from ..engine.effects import typed_writes
from ..engine.flow import MayRaise
from ..engine.match import Spec, loop_doms, require_guard, residual
from ..engine.repo import AnalysisError, dotted
from ..engine.report import Check
from ..engine.terms import C, Term, conjuncts, mk_not, show
from ..engine.walker import Event, swallowed_by
from .c07 import extractor
from .common import short

LPQ = "skepticoin.networking.local_peer.LocalPeer."
CRP = "skepticoin.networking.remote_peer.ConnectedRemotePeer."
MRQ = "skepticoin.networking.remote_peer.MessageReceiver."
MSG = "skepticoin.networking.messages."


def r20_1(ck: Check) -> None:
    mr = MayRaise(ck.walker)
    q = LPQ + "handle_remote_peer_selector_event"
    s = ck.summ(q, 0)
    sp = Spec(s, ("self", "key", "mask"))
    where = s.fi.loc
    peer_driven = {CRP + "handle_receive_data", CRP + "handle_can_send"}
    seen: Set[str] = set()
    bad = []
    for e in s.events:
        if e.kind != "call" or e.chain:
            continue
        is_recv = e.parts[0][0] == "a" and e.parts[0][2] == "recv"
        if peer_driven & set(e.targets) or is_recv:
            seen.update(peer_driven & set(e.targets))
            if is_recv:
                seen.add("recv")
            if swallowed_by(ck.repo, e, "Exception") is None:
                bad.append("%s is not inside a try with a non-re-raising `except Exception`" % show(e.term)[:60])
        else:
            r, why = mr.event(e)
            if r and swallowed_by(ck.repo, e, "Exception") is None:
                bad.append("%s may raise (%s) outside the catch-all" % (show(e.term)[:60], why[:80]))
    for e in s.raises():
        if swallowed_by(ck.repo, e) is None:
            bad.append("explicit raise at line %d escapes" % e.line)
    missing = ({"recv"} | peer_driven) - seen
    construct = "handle_remote_peer_selector_event: recv / handle_receive_data / handle_can_send run inside try ... except Exception (no re-raise); nothing else can raise"
    if missing:
        ck.violated("R20.1", construct, "peer-driven calls not found: %s" % sorted(short(m) for m in missing), where)
    elif bad:
        ck.violated("R20.1", construct, "; ".join(bad[:4]) + " — an exception caused by one peer's input would end the node's event loop", where)
    else:
        ck.ok("R20.1", construct, "exception-escape set of the function is empty", where)
    # handlers end in self.disconnect(remote_peer, ·)
    dis = [e for e in s.events if e.kind == "call" and LPQ + "disconnect" in e.targets and any(c.prov == "handler" for c in e.pc)]
    ntry = 0
    for n in ast.walk(s.fi.node):
        if isinstance(n, ast.Try):
            ntry += 1
            for h in n.handlers:
                # the handler (or a helper it calls, expanded in place) disconnects the peer the event belongs to
                calls_dis = any(any(c.prov == "handler" and c.line == h.lineno for c in e.pc) for e in dis)
                if not calls_dis:
                    ck.violated("R20.1", "every handler of the catch-all disconnects the offending peer", "a handler swallows the error without closing the connection",
                                "%s:%d" % (s.fi.module.path, h.lineno))
    if ntry == 1 and len(dis) >= 2:
        ck.ok("R20.1", "every handler of the catch-all disconnects the offending peer", "", where)
    d = ck.summ(LPQ + "disconnect", 0)
    r, why = mr.func(LPQ + "disconnect")
    if not r:
        ck.ok("R20.1", "LocalPeer.disconnect cannot raise (its effects are wrapped in try / except Exception)", "", d.fi.loc)
    else:
        ck.violated("R20.1", "LocalPeer.disconnect cannot raise (its effects are wrapped in try / except Exception)", why, d.fi.loc)
    hp = [e for e in d.events if e.kind == "call" and "skepticoin.networking.manager.NetworkManager.handle_peer_disconnected" in e.targets]
    if len(hp) == 1 and hp[0].term[2] == (("v", d.fi.params[1]),):
        ck.ok("R20.1", "LocalPeer.disconnect unregisters, closes and reports exactly the given peer", "other connections are untouched", hp[0].loc)
    else:
        ck.violated("R20.1", "LocalPeer.disconnect unregisters, closes and reports exactly the given peer", "%s" % [e.describe()[:100] for e in hp], d.fi.loc)
    # ... and does unregister and close it: a socket that stays registered after its connection was given up is reported by the selector
    # for ever (a busy event loop), one that stays open leaks a descriptor per misbehaving peer until accept() fails outside every handler
    peer_sock = ("a", ("v", d.fi.params[1]), "sock")
    for meth, recv in (("unregister", None), ("close", peer_sock)):
        calls_ = [e for e in d.events if e.kind == "call" and e.parts and e.parts[0][0] == "a" and e.parts[0][2] == meth and not e.chain
                  and ((recv is not None and e.parts[0][1] == recv) or (recv is None and e.term[2] == (peer_sock,)))]
        construct = "LocalPeer.disconnect: the peer's socket is %s" % ("unregistered from the selector" if meth == "unregister" else "closed")
        if calls_ and not residual(calls_[0], ()):
            ck.ok("R20.1", construct, "", calls_[0].loc)
        else:
            ck.violated("R20.1", construct, "no unconditional %s of remote_peer.sock — the connection of a misbehaving peer is given up in the books "
                        "but its socket stays %s" % (meth, "registered: the selector keeps reporting it" if meth == "unregister" else "open"), d.fi.loc)
    # the book-keeping is reached: between the start of disconnect and handle_peer_disconnected only the recorded steps (unregister, close)
    # may fail under the same swallowing handler - whatever else fails there is swallowed TOGETHER WITH the book-keeping, and the peer
    # stays filed as connected although its socket is gone (the next send to it raises in a manager step: R20.15's territory)
    if len(hp) == 1:
        before = [e for e in d.events if e.kind == "call" and not e.chain and e.seq < hp[0].seq and e.tries and set(e.tries) & set(hp[0].tries)]
        allowed = {"unregister", "close"}
        extra = []
        for e in before:
            nm_ = e.parts[0][2] if e.parts and e.parts[0][0] == "a" else None
            if nm_ in allowed:
                continue
            r2, why2 = mr.event(e)
            if r2:
                extra.append((e, why2))
        construct = "LocalPeer.disconnect: nothing that can fail stands between entry and the book-keeping, except unregister and close"
        if extra:
            for e, why2 in extra[:2]:
                ck.violated("R20.1", construct, "%s may raise (%s): the failure is swallowed together with close() and handle_peer_disconnected — the "
                            "connection stays filed as connected with a dead socket" % (show(e.term)[:80], why2[:80]), e.loc)
        else:
            ck.ok("R20.1", construct, "", hp[0].loc)


ALLOWED_CALLERS = {
    CRP + "handle_receive_data": {LPQ + "handle_remote_peer_selector_event"},
    CRP + "handle_can_send": {LPQ + "handle_remote_peer_selector_event", CRP + "handle_can_send"},
    MRQ + "receive": {CRP + "handle_receive_data", MRQ + "receive"},
    MRQ + "handle_message_data": {MRQ + "receive"},
    CRP + "handle_message_received": {MRQ + "handle_message_data"},
    CRP + "handle_hello_message_received": {CRP + "handle_message_received"},
    CRP + "handle_get_blocks_message_received": {CRP + "handle_message_received"},
    CRP + "handle_inventory_message_received": {CRP + "handle_message_received"},
    CRP + "handle_get_data_message_received": {CRP + "handle_message_received"},
    CRP + "handle_data_message_received": {CRP + "handle_message_received"},
    CRP + "handle_get_peers_message_received": {CRP + "handle_message_received"},
    CRP + "handle_peers_message_received": {CRP + "handle_message_received"},
    CRP + "handle_block_received": {CRP + "handle_data_message_received"},
    CRP + "handle_transaction_received": {CRP + "handle_data_message_received"},
}


def call_graph(ck: Check) -> Dict[str, Set[str]]:
    cached = getattr(ck.walker, "_callers", None)
    if cached is not None:
        return cached
    callers: Dict[str, Set[str]] = {}
    for fi in ck.repo.all_functions():
        if ck.walker.transparent(fi.qualname):
            continue     # a helper extracted later is part of its callers (its calls appear, inlined, in their summaries)
        try:
            s = ck.walker.summary(fi.qualname, 0)
        except Exception:
            continue
        for e in s.events:
            if e.kind == "call" and not e.chain:
                for t in e.targets:
                    callers.setdefault(t, set()).add(fi.qualname)
                # method name matches without a resolved receiver are recorded by name, so that an untyped caller is not missed
                if not e.targets and e.parts and e.parts[0][0] == "a":
                    callers.setdefault("?." + e.parts[0][2], set()).add(fi.qualname)
    ck.walker._callers = callers  # type: ignore
    return callers


def r20_2(ck: Check) -> None:
    cg = call_graph(ck)
    n = 0
    for fn, allowed in sorted(ALLOWED_CALLERS.items()):
        ck.repo.func(fn)
        got = set(cg.get(fn, set())) | set(cg.get("?." + fn.split(".")[-1], set()))
        n += 1
        construct = "%s is reachable only through the per-connection catch-all (callers %s)" % (short(fn).split(".")[-1], sorted(short(a).split(".")[-1] for a in allowed))
        extra = got - allowed
        if extra:
            ck.violated("R20.2", construct, "also called from %s — peer input would be processed outside the catch-all" % sorted(short(x) for x in extra),
                        ck.repo.func(fn).loc)
        elif not (got & allowed) and fn not in got:
            ck.violated("R20.2", construct, "no caller found: the handler chain is broken", ck.repo.func(fn).loc)
        else:
            ck.ok("R20.2", construct, "", ck.repo.func(fn).loc)
    ck.expect_count("R20.2", "message-driven functions", n, 14)


def r20_13(ck: Check) -> None:
    """what a peer says never re-files a connection: the table of live connections is written when a socket is accepted / dialled and
    when a connection ends, never from a message handler - a handler that files its connection under a key the peer chose (the port
    of its greeting) can displace somebody else's connection."""
    cg = call_graph(ck)
    callees: Dict[str, Set[str]] = {}
    for callee, cs in cg.items():
        for c in cs:
            callees.setdefault(c, set()).add(callee)
    root = CRP + "handle_message_received"
    seen = {root}
    stack = [root]
    while stack:
        f = stack.pop()
        for g in callees.get(f, ()):
            g2 = g
            if g.startswith("?."):
                continue
            if g2 not in seen:
                seen.add(g2)
                stack.append(g2)
    NMQ = "skepticoin.networking.manager.NetworkManager"
    filed = NMQ + ".handle_peer_connected"
    ck.repo.func(filed)
    construct = "no message handler files a connection (handle_peer_connected is reached from connection set-up only)"
    direct = sorted(c for c in cg.get(filed, set()) | cg.get("?.handle_peer_connected", set()) if c in seen)
    if direct:
        ck.violated("R20.13", construct, "reached from %s, which runs on a peer's message: the connection is filed under what the message says, and "
                    "an existing connection under that key is dropped" % [short(x) for x in direct], ck.repo.func(direct[0]).loc)
    else:
        ck.ok("R20.13", construct, "%d message-driven functions" % len(seen), ck.repo.func(filed).loc)
    tw = [w for w in typed_writes(ck.walker, ck.repo) if w.owner == NMQ and w.attr == "connected_peers" and w.func in seen
          and not w.func.endswith(".handle_peer_disconnected") and w.func != filed]
    construct = "no message handler writes the table of live connections itself"
    if tw:
        for w in tw[:3]:
            ck.violated("R20.13", construct, "%s (%s) in %s" % (w.attr, w.kind, short(w.func)), w.ev.loc)
    else:
        ck.ok("R20.13", construct, "", "")
    ck.stats["message-driven functions (R20.13)"] = len(seen)
    if len(seen) < 10:
        ck.unknown("R20.13", "instances", "only %d functions found below handle_message_received" % len(seen))


def r20_14(ck: Check) -> None:
    """what a peer delivers is applied to the chain state without in-state validation on the bulk-download path (every N-th block is
    validated). Whatever that path lets through, the height index must stay gapless - the managers' own steps look blocks up by height
    outside any per-connection handler (`get_get_blocks_message`: `by_height_at_head()[h]` for h below the head's height), so a head
    that claims a height other than its parent's plus one ends the event loop at the next step. Hence: the relay handler applies a
    block only after refusing `height != parent.height + 1` itself."""
    s = ck.summ(CRP + "handle_block_received", 0)
    sp = Spec(s, ("self", "header", "message"))
    adds = [e for e in s.events if e.kind == "call" and not e.chain and any(t.endswith("CoinState.add_block_no_validation") for t in e.targets)]
    construct = "handle_block_received applies a block only if its height is its parent's plus one (checked before add_block_no_validation)"
    if not adds:
        ck.unknown("R20.14", construct, "no call of add_block_no_validation found in the relay handler")
        return
    h = sp.term("message.data.header.summary.height")
    ph = sp.term("self.local_peer.chain_manager.coinstate.block_by_hash[message.data.header.summary.previous_block_hash].header.summary.height")
    ok = True
    for e in adds:
        cs = {x for c in e.pc for x in conjuncts(c.term)}
        linked = any(_is_height_link(x, h, ph) for x in cs)
        if not linked:
            ok = False
            ck.violated("R20.14", construct, "a block tagged as an answer (in_response_to != 0) skips in-state validation; with a made-up height it "
                        "becomes the head, ChainManager.get_get_blocks_message then raises KeyError in step(), outside every per-connection "
                        "handler, and LocalPeer.run ends: one message stops the node", e.loc)
    if ok:
        ck.ok("R20.14", construct, "", adds[0].loc)
    # the look-up that relies on it
    g = ck.summ("skepticoin.networking.manager.ChainManager.get_get_blocks_message", 0)
    ck.analysed(g.fi.qualname)


def _is_height_link(x: Term, h: Term, ph: Term) -> bool:
    """x says h == ph + 1 in one of the normal forms of the comparison"""
    from ..engine.terms import lin_parts
    if x[0] == "cmpz" and x[1] == "==":
        pairs = [(x[2], C(0))]
    elif x[0] == "cmp" and x[1] == "==":
        pairs = [(x[2], x[3]), (x[3], x[2])]
    else:
        return False
    for a, b in pairs:
        try:
            la, lb = lin_parts(a), lin_parts(b)
        except Exception:
            continue
        if la is None or lb is None:
            continue
        d: Dict[Any, int] = {}
        for t_, k_ in la[0].items():
            d[t_] = d.get(t_, 0) + k_
        for t_, k_ in lb[0].items():
            d[t_] = d.get(t_, 0) - k_
        const = la[1] - lb[1]
        d = {t_: k_ for t_, k_ in d.items() if k_}
        if d == {h: 1, ph: -1} and const == -1:
            return True
        if d == {h: -1, ph: 1} and const == 1:
            return True
    return False


STEP_ROOTS = ["skepticoin.networking.manager.NetworkManager.step", "skepticoin.networking.manager.ChainManager.step"]


def step_reachable(ck: Check) -> List[str]:
    """functions of the networking package (and the chain-state accessors) that the managers' own steps reach: they run outside every
    per-connection handler, so whatever fails in them ends LocalPeer.run"""
    cg = call_graph(ck)
    callees: Dict[str, Set[str]] = {}
    for callee, cs in cg.items():
        for c in cs:
            callees.setdefault(c, set()).add(callee)
    seen = set(r for r in STEP_ROOTS if r in ck.repo.functions)
    stack = list(seen)
    while stack:
        f = stack.pop()
        for g in callees.get(f, ()):
            if g in ck.repo.functions and g not in seen:
                seen.add(g)
                stack.append(g)
    return sorted(f for f in seen if f.startswith("skepticoin.networking.") or f.startswith("skepticoin.coinstate."))


def partial_operations(fn: ast.AST) -> List[Tuple[str, int, str]]:
    """(kind, line, text) of the operations in a function body that fail on some inputs and that nothing around them absorbs or guards:
    look-ups by key / index, raise, assert, choice / pop / remove / index, next / max / min of one argument, division by a non-constant"""
    parents: Dict[int, ast.AST] = {}
    for n in ast.walk(fn):
        for c in ast.iter_child_nodes(n):
            parents[id(c)] = n

    def up(n: ast.AST):     # type: ignore
        p = parents.get(id(n))
        while p is not None:
            yield p
            p = parents.get(id(p))

    def absorbed(n: ast.AST) -> bool:
        child = n
        for p in up(n):
            if isinstance(p, ast.Try) and any(child is x for x in p.body):
                for h in p.handlers:
                    names = [h.type] if h.type is not None and not isinstance(h.type, ast.Tuple) else (list(h.type.elts) if h.type is not None else [])
                    broad = h.type is None or any(isinstance(x, ast.Name) and x.id in ("Exception", "BaseException", "KeyError", "LookupError", "IndexError") for x in names)
                    if broad and not any(isinstance(x, ast.Raise) for st in h.body for x in ast.walk(st)):
                        return True
            child = p
        return False

    def membership_guard(sub: ast.Subscript) -> bool:
        m, k = ast.unparse(sub.value), ast.unparse(sub.slice)
        child: ast.AST = sub
        for p in up(sub):
            if isinstance(p, (ast.If, ast.IfExp, ast.While)) and not any(child is x for x in ([p.test] if hasattr(p, "test") else [])):
                in_body = child is getattr(p, "body", None) or (isinstance(getattr(p, "body", None), list) and any(child is x for x in p.body))
                for t in ast.walk(p.test):
                    if isinstance(t, ast.Compare) and len(t.ops) == 1 and ast.unparse(t.left) == k and ast.unparse(t.comparators[0]) == m:
                        if (isinstance(t.ops[0], ast.In) and in_body) or (isinstance(t.ops[0], ast.NotIn) and not in_body):
                            return True
            if isinstance(p, (ast.For, ast.comprehension)) and ast.unparse(p.target) == k and ast.unparse(p.iter) in (m, m + ".keys()", "sorted(%s)" % m, "list(%s)" % m):
                return True
            if isinstance(p, (ast.ListComp, ast.SetComp, ast.DictComp, ast.GeneratorExp)):
                for g in p.generators:
                    if ast.unparse(g.target) == k and ast.unparse(g.iter) in (m, m + ".keys()", "sorted(%s)" % m, "list(%s)" % m):
                        return True
            child = p
        return False

    out: List[Tuple[str, int, str]] = []
    ann: Set[int] = set()
    for n in ast.walk(fn):
        for fld in ("annotation", "returns"):
            a = getattr(n, fld, None)
            if isinstance(a, ast.AST):
                ann |= {id(x) for x in ast.walk(a)}
    for n in ast.walk(fn):
        if id(n) in ann:
            continue
        item: Optional[Tuple[str, str]] = None
        if isinstance(n, ast.Subscript) and isinstance(n.ctx, (ast.Load, ast.Del)) and not isinstance(n.slice, ast.Slice):
            base = ast.unparse(n.value)
            if base.split(".")[0] in ("List", "Dict", "Set", "Tuple", "Optional", "Type", "Mapping", "Iterator", "Callable", "immutables", "typing"):
                continue
            if isinstance(n.value, (ast.Tuple, ast.List, ast.Dict, ast.Constant)):
                continue
            if not membership_guard(n):
                item = ("look-up", ast.unparse(n)[:70])
        elif isinstance(n, ast.Raise) and n.exc is not None:
            item = ("raise", ast.unparse(n.exc)[:50])
        elif isinstance(n, ast.Assert):
            item = ("assert", ast.unparse(n.test)[:50])
        elif isinstance(n, ast.Call) and isinstance(n.func, ast.Name) and n.func.id in ("next", "max", "min") and len(n.args) == 1 \
                and not any(k.arg == "default" for k in n.keywords) and not (n.func.id == "next" and len(n.args) == 2):
            item = ("empty-argument", ast.unparse(n)[:60])
        elif isinstance(n, ast.Call) and isinstance(n.func, ast.Attribute) and n.func.attr in ("choice", "pop", "remove", "index", "popitem", "unpack"):
            if n.func.attr == "pop" and len(n.args) == 2:
                continue
            item = ("choice/pop/remove/index", ast.unparse(n)[:60])
        elif isinstance(n, ast.BinOp) and isinstance(n.op, (ast.Div, ast.FloorDiv, ast.Mod)) and not isinstance(n.right, ast.Constant) \
                and not isinstance(n.left, (ast.Constant, ast.JoinedStr)):
            # (a module constant as divisor is a constant; `TEMPLATE % x` with a constant name on the left is string formatting)
            if (isinstance(n.right, ast.Name) and n.right.id.isupper()) or (isinstance(n.left, ast.Name) and n.left.id.isupper()) \
                    or isinstance(n.right, (ast.Tuple, ast.Dict)):
                continue
            item = ("division", ast.unparse(n)[:60])
        if item is not None and not absorbed(n):
            out.append((item[0], getattr(n, "lineno", 0), item[1]))
    return out


def r20_15(ck: Check) -> None:
    """the managers' steps run outside every per-connection handler and read state that peers have influenced (D6): they gain no
    operation that can fail beyond those recorded and reviewed (reference/step_partials.json, per kind; moving code between helpers
    changes nothing, a guarded look-up or one inside a non-re-raising handler does not count)"""
    import json
    import os
    from ..engine.report import VERIF_ROOT
    ctl = ast.parse("def f(self, m, k, xs):\n    if k in m:\n        a = m[k]\n    b = m[k]\n    try:\n        c = xs[0]\n    except Exception:\n        c = None\n    return random.choice(xs)\n").body[0]
    got_ctl = sorted(k for k, _l, _t in partial_operations(ctl))
    if got_ctl != ["choice/pop/remove/index", "look-up"]:
        ck.unknown("R20.15", "positive control", "the scan for failing operations found %s in its control snippet" % got_ctl)
        return
    ref = json.load(open(os.path.join(VERIF_ROOT, "reference", "step_partials.json")))
    fns = step_reachable(ck)
    totals: Dict[str, int] = {}
    sites: Dict[str, List[Tuple[str, int, str]]] = {}
    for q in fns:
        fi = ck.repo.functions[q]
        for kind, line, text in partial_operations(ck.repo.raw_function(fi)):
            totals[kind] = totals.get(kind, 0) + 1
            sites.setdefault(kind, []).append((q, line, text))
    ck.stats["functions the managers' steps reach"] = len(fns)
    ck.stats["operations that can fail in them"] = dict(sorted(totals.items()))
    if len(fns) < 20:
        ck.unknown("R20.15", "instances", "only %d functions found below the managers' steps" % len(fns))
        return
    from .common import partial_on_empty
    for q in fns:
        fi = ck.repo.functions[q]
        for line, text in partial_on_empty(ck.repo.raw_function(fi), with_choice=True):
            ck.violated("R20.15", "%s: %s has a non-empty argument" % (short(q), text),
                        "it raises on an empty argument and nothing before it rules that out — in the managers' own steps that ends the event loop "
                        "(no peer to ask, nothing to pick from: an ordinary state, e.g. right after start or when every peer has just answered)",
                        "%s:%d" % (fi.module.path, line))
    bad = False
    for kind in sorted(set(totals) | set(ref["totals"])):
        construct = "the managers' own steps contain no %s operation beyond the %d reviewed" % (kind, ref["totals"].get(kind, 0))
        if totals.get(kind, 0) > ref["totals"].get(kind, 0):
            bad = True
            known = {(r_[0], r_[2]) for r_ in ref["sites"].get(kind, [])}
            new = [s_ for s_ in sites[kind] if (s_[0], s_[2]) not in known] or sites[kind]
            for q, line, text in new[:3]:
                ck.violated("R20.15", construct, "`%s` in %s can fail, and nothing between it and LocalPeer.run absorbs that: the event loop ends for "
                            "every connection (the steps read state that peers have influenced)" % (text, short(q)),
                            "%s:%d" % (ck.repo.functions[q].module.path, line))
        else:
            ck.ok("R20.15", construct, "%d found" % totals.get(kind, 0), "")


def r20_3(ck: Check) -> None:
    s = ck.summ(CRP + "handle_message_received", 0)
    sp = Spec(s, ("self", "header", "message"))
    concrete = [c for c in ck.repo.subclasses(MSG + "Message")]
    handled: Dict[str, Event] = {}
    for e in s.events:
        if e.kind == "call" and any(t.startswith(CRP + "handle_") and t.endswith("_received") for t in e.targets):
            for c in e.pc:
                if c.prov == "branch" and c.term[0] == "call" and c.term[1] == ("g", "builtin:isinstance") and c.term[2][0] == sp.term("message") \
                        and c.term[2][1][0] == "g":
                    handled[c.term[2][1][1]] = e
    construct = "handle_message_received dispatches every concrete Message subclass (%d)" % len(concrete)
    if sorted(handled) == sorted(concrete):
        ck.ok("R20.3", construct, "", s.fi.loc)
    else:
        ck.violated("R20.3", construct, "handled %s, concrete %s" % (sorted(short(h) for h in handled), sorted(short(c) for c in concrete)), s.fi.loc)
    hr = sp.term("self.hello_received")
    guard = sp.term("not self.hello_received")

    def cset(e: Event) -> set:
        return {x for c in e.pc for x in conjuncts(c.term)}
    gr = [e for e in s.raises() if guard in cset(e)]
    construct = "handle_message_received: only the greeting is handled before `first message must be Hello` is enforced"
    okg = len(gr) == 1
    if okg:
        for cls, e in handled.items():
            if not cls.endswith("HelloMessage"):
                okg = okg and hr in cset(e)          # reached only with the handshake done (guard clause or enclosing branch)
    if okg:
        ck.ok("R20.3", construct, "", gr[0].loc)
    else:
        ck.violated("R20.3", construct, "protocol-order guard missing or bypassable", s.fi.loc)
    isinst = lambda x: x[0] == "call" and x[1] == ("g", "builtin:isinstance")  # noqa
    unknown_raise = [e for e in s.raises() if not any(isinst(x) for x in cset(e)) and e not in gr]
    construct = "handle_message_received ends in an unconditional raise for unknown message types"
    if not s.falls and unknown_raise:
        ck.ok("R20.3", construct, "", unknown_raise[-1].loc)
    else:
        ck.violated("R20.3", construct, "falls through silently", s.fi.loc)
    d = ck.summ(CRP + "handle_data_message_received", 0)
    spd = Spec(d, ("self", "header", "message"))
    blk = [e for e in d.events if e.kind == "call" and CRP + "handle_block_received" in e.targets]
    txs = [e for e in d.events if e.kind == "call" and CRP + "handle_transaction_received" in e.targets]
    tb, tt = spd.term("message.data_type == DATA_BLOCK"), spd.term("message.data_type == DATA_TRANSACTION")
    other = [e for e in d.raises() if tb not in cset(e) and tt not in cset(e)]
    construct = "handle_data_message_received: DATA_BLOCK -> block handler, DATA_TRANSACTION -> transaction handler, anything else raises"
    if not d.falls and other and len(blk) == 1 and len(txs) == 1 and tb in cset(blk[0]) and tt in cset(txs[0]):
        ck.ok("R20.3", construct, "", d.fi.loc)
    else:
        ck.violated("R20.3", construct, "data dispatch changed", d.fi.loc)
    g = ck.summ(CRP + "handle_get_data_message_received", 0)
    spg = Spec(g, ("self", "header", "m"))
    require_guard(ck, "R20.3", g, spg, "m.data_type != DATA_BLOCK", "a data request for an unknown type raises")
    # decoders: unknown tags raise (R07.4) and DATATYPES[tag] raises KeyError
    ex = extractor(ck)
    for q, c in sorted(ex.codecs.items()):
        if c.dispatch is not None:
            if c.dispatch.fallthrough_raises:
                ck.ok("R20.3", "%s.stream_deserialize raises on unknown tags" % short(q), "", "")
            else:
                ck.violated("R20.3", "%s.stream_deserialize raises on unknown tags" % short(q), "unknown tag tolerated", "")


def r20_7(ck: Check) -> None:
    """dialling runs from the manager's step, outside the per-connection catch-all: an unreachable / unroutable address (which a peer can
    announce) must not raise there"""
    q = LPQ + "start_outgoing_connection"
    s = ck.summ(q, 0)
    dial = [e for e in s.events if e.kind == "call" and e.parts and e.parts[0][0] == "a" and e.parts[0][2] in ("connect", "connect_ex")]
    construct = "start_outgoing_connection: the connect cannot raise into the event loop (connect_ex, or connect inside except OSError)"
    bad = [e for e in dial if e.parts[0][2] == "connect" and swallowed_by(ck.repo, e, "OSError") is None]
    if len(dial) == 1 and not bad:
        ck.ok("R20.7", construct, dial[0].parts[0][2], dial[0].loc)
    else:
        ck.violated("R20.7", construct, "%s — a peer-announced unroutable address makes the dial raise OSError outside any per-connection handler: "
                    "the network thread ends" % ([e.describe()[:80] for e in dial] or "no connect call"), s.fi.loc)
    st = ck.summ("skepticoin.networking.manager.NetworkManager.step", 0)
    calls = [e for e in st.events if e.kind == "call" and q in e.targets]
    nb = [e for e in s.events if e.kind == "call" and e.parts and e.parts[0][0] == "a" and e.parts[0][2] == "setblocking" and e.term[2] == (C(False),)]
    acc = ck.summ(LPQ + "handle_incoming_connection", 0)
    nba = [e for e in acc.events if e.kind == "call" and e.parts and e.parts[0][0] == "a" and e.parts[0][2] == "setblocking" and e.term[2] == (C(False),)
           and not residual(e, ())]
    reg = [e for e in acc.events if e.kind == "call" and e.parts and e.parts[0][0] == "a" and e.parts[0][2] == "register"]
    construct = "an accepted socket is non-blocking before it is registered (a peer that does not read cannot make a send wait)"
    if nba and reg and nba[0].seq < reg[0].seq:
        ck.ok("R20.7", construct, "", nba[0].loc)
    else:
        ck.violated("R20.7", construct, "setblocking(False) missing, conditional or late on the accepted connection: once the peer's receive window is "
                    "full, send() blocks the single event-loop thread for every connection", acc.fi.loc)
    if calls and nb and dial and nb[0].seq < dial[0].seq:
        ck.ok("R20.7", "the dialled socket is non-blocking before the connect (the loop never waits on one peer)", "", nb[0].loc)
    else:
        ck.violated("R20.7", "the dialled socket is non-blocking before the connect (the loop never waits on one peer)", "setblocking(False) missing or late", s.fi.loc)


def r20_8(ck: Check) -> None:
    """the loop itself: it ends only through the `running` flag; every ready socket is dispatched (listening socket -> accept, any other ->
    the per-connection handler with the catch-all); the wait for readiness is bounded, so the managers keep stepping"""
    r = ck.summ(LPQ + "run", 0)
    sp = Spec(r, ("self",))
    running = sp.term("self.running")
    steps = [e for e in r.events if e.kind == "call" and not e.chain and LPQ + "step_managers" in e.targets]
    sel = [e for e in r.events if e.kind == "call" and not e.chain and LPQ + "handle_selector_events" in e.targets]
    construct = "LocalPeer.run: while self.running: step_managers(int(time())); handle_selector_events() — no other way out of the loop"
    clock = ("call", ("g", "builtin:int"), (("call", ("g", "ext:time.time"), (), ()),), ())
    ok = (len(steps) == 1 and len(sel) == 1 and steps[0].term[2] == (clock,) and steps[0].seq < sel[0].seq
          and all(len(e.loops) == 1 and e.loops[0][0] == "while" and e.loops[0][1] == running and not e.loops[0][2] and not residual(e, ()) for e in (steps[0], sel[0])))
    if ok:
        ck.ok("R20.8", construct, "", steps[0].loc)
    else:
        ck.violated("R20.8", construct, "%s" % [e.describe()[:120] for e in steps + sel], r.fi.loc)
    h = ck.summ(LPQ + "handle_selector_events", 0)
    sph = Spec(h, ("self",))
    selects = [e for e in h.events if e.kind == "call" and not e.chain and e.parts and e.parts[0] == ("a", sph.term("self.selector"), "select")]
    construct = "handle_selector_events: the wait for readiness is bounded (0 < timeout <= 5 s)"
    t = None
    if len(selects) == 1:
        t = dict(selects[0].term[3]).get("timeout", selects[0].term[2][0] if selects[0].term[2] else None)
    if t is not None and t[0] == "c" and isinstance(t[1], (int, float)) and not isinstance(t[1], bool) and 0 < t[1] <= 5:
        ck.ok("R20.8", construct, "timeout=%s" % t[1], selects[0].loc)
    else:
        ck.violated("R20.8", construct, "select timeout is %s: without a bound the managers (reconnects, block fetching, greetings) stop stepping "
                    "while no socket is ready" % (show(t) if t is not None else None), h.fi.loc)
    if selects:
        dom = selects[0].term
        acc = [e for e in h.events if e.kind == "call" and not e.chain and LPQ + "handle_incoming_connection" in e.targets]
        per = [e for e in h.events if e.kind == "call" and not e.chain and LPQ + "handle_remote_peer_selector_event" in e.targets]
        construct = "handle_selector_events: every ready key is dispatched: the listening socket to accept, any other to its connection's handler"
        okd = len(acc) == 1 and len(per) == 1 and all(len(e.loops) == 1 and e.loops[0][1] == dom for e in acc + per)
        if okd:
            ca = {x for c in acc[0].pc for x in conjuncts(c.term)}
            cp = {x for c in per[0].pc for x in conjuncts(c.term)}
            marker = C(ck.repo.const("skepticoin.networking.remote_peer.LISTENING_SOCKET"))
            lis = [x for x in ca if x[0] == "cmp" and x[1] in ("is", "==") and (marker in (x[2], x[3])
                                                                                 or ("g", "skepticoin.networking.remote_peer.LISTENING_SOCKET") in (x[2], x[3]))]
            okd = len(lis) == 1 and mk_not(lis[0]) in cp and (ca - {lis[0]}) == (cp - {mk_not(lis[0])}) \
                and (ca - {lis[0]}) <= {running} and per[0].term[2] == (("e", dom, 0), ("e", dom, 1))
        if okd:
            ck.ok("R20.8", construct, "", per[0].loc)
        else:
            ck.violated("R20.8", construct, "%s" % [e.describe()[:160] for e in acc + per], h.fi.loc)
    m = ck.summ(LPQ + "step_managers", 0)
    spm = Spec(m, ("self", "now"))
    st = [e for e in m.events if e.kind == "call" and not e.chain and e.parts and e.parts[0][0] == "a" and e.parts[0][2] == "step"]
    construct = "step_managers: every manager steps with the loop's clock value"
    if len(st) == 1 and st[0].term[2] == (spm.term("now"),) and len(st[0].loops) == 1 and st[0].loops[0][1] == spm.term("self.managers") \
            and {x for c in st[0].pc for x in conjuncts(c.term)} <= {spm.term("self.running")}:
        ck.ok("R20.8", construct, "", st[0].loc)
    else:
        ck.violated("R20.8", construct, "%s" % [e.describe()[:160] for e in st], m.fi.loc)


def r20_9(ck: Check) -> None:
    """the number of sockets the node opens is capped below the usual soft descriptor limit (1024): peers can announce any number of
    addresses, and socket() failing in the manager step is outside every per-connection handler"""
    caps = ck.repo.const("skepticoin.networking.local_peer.MAX_SELECTOR_SIZE_BY_PLATFORM")
    s = ck.summ(LPQ + "start_outgoing_connection", 0)
    construct = "start_outgoing_connection dials only while fewer than MAX_SELECTOR_SIZE (<= 512 on every platform) sockets are registered"
    rets = [r for r in s.returns() if any("get_map" in show(c.term) for c in r.pc)]
    dial = [e for e in s.events if e.kind == "call" and e.parts and e.parts[0] == ("g", "ext:socket.socket")]
    okc = isinstance(caps, dict) and caps and all(isinstance(v, int) and 0 < v <= 512 for v in caps.values())
    if okc and rets and dial and all(r.seq < dial[0].seq for r in rets):
        ck.ok("R20.9", construct, "caps %s" % caps, s.fi.loc)
    else:
        ck.violated("R20.9", construct, "caps %r, guard before socket(): %s" % (caps, bool(rets)), s.fi.loc)
    ck.assume("the process may open at least 600 descriptors (usual soft RLIMIT_NOFILE: 1024)")


def r20_4(ck: Check) -> None:
    from .c09 import r09_flow
    from .c10 import r10_4
    from .c13 import r13_1
    r09_flow(ck)
    r13_1(ck)
    # no handler writes chain-manager / store / chain state directly
    tw = typed_writes(ck.walker, ck.repo)
    owners = {"skepticoin.networking.manager.ChainManager", "skepticoin.blockstore.BlockStore", "skepticoin.coinstate.CoinState"}
    allowed = {(CRP + "handle_block_received", "skepticoin.blockstore.BlockStore", "write_buffer", "call:clear")}
    bad = [w for w in tw if w.owner in owners and (w.func.startswith(CRP) or w.func.startswith(MRQ)) and (w.func, w.owner, w.attr, w.kind) not in allowed]
    construct = "message handlers change chain state / pool / store only through the validated entry points (set_coinstate, add_transaction_to_pool, save/flush)"
    if bad:
        for w in bad:
            ck.violated("R20.4", "%s writes %s.%s directly" % (short(w.func), w.owner.split(".")[-1], w.attr), w.kind, w.ev.loc)
    else:
        ck.ok("R20.4", construct, "typed who-may-write over the 14 message-driven functions", "")


def min_size(ex: Any, q: str, seen: Optional[Set[str]] = None) -> int:
    seen = seen or set()
    if q in seen:
        return 0
    seen = seen | {q}
    c: Optional[Codec] = ex.codecs.get(q)
    if c is None:
        return 0
    if c.dispatch is not None:
        subs = [min_size(ex, s_, seen) for _, s_ in c.dispatch.table]
        return (c.dispatch.width or 0) + (min(subs) if subs else 0)
    total = 0
    for p in c.reader or []:
        k = p[0]
        if k in ("raw",):
            total += p[1] if isinstance(p[1], int) else 0
        elif k == "uint":
            total += p[1]
        elif k == "const":
            total += len(p[1])
        elif k == "ignored":
            total += p[1]
        elif k in ("vlq", "list", "rawlist"):
            total += 1
        elif k == "lp":
            total += p[1] if isinstance(p[1], int) else 1
        elif k == "nested":
            total += min_size(ex, p[1], seen)
        elif k == "ip16":
            total += 16
    return total


def r20_5(ck: Check) -> None:
    from .c06 import r06_5
    r06_5(ck)
    ex = extractor(ck)
    n = 0
    for q, c in sorted(ex.codecs.items()):
        for p in c.reader or []:
            if p[0] == "list":
                n += 1
                ms = min_size(ex, p[1])
                construct = "%s: every element of list<%s> consumes at least one byte" % (short(q), p[1].split(".")[-1])
                if ms >= 1:
                    ck.ok("R20.5", construct, "element decodes from >= %d bytes, so the count cannot exceed the frame" % ms, "")
                else:
                    ck.violated("R20.5", construct, "a zero-size element lets a length prefix drive an unbounded loop", "")
            elif p[0] == "rawlist":
                n += 1
                if isinstance(p[1], int) and p[1] >= 1:
                    ck.ok("R20.5", "%s: raw list elements are %d bytes" % (short(q), p[1]), "", "")
                else:
                    ck.violated("R20.5", "%s: raw list elements have positive size" % short(q), "", "")
    ck.expect_count("R20.5", "length-prefixed lists in decoders", n, 7)
    # VLQ: one byte per iteration
    s = ck.summ("skepticoin.serialization.stream_deserialize_vlq", 0)
    reads = [e for e in s.events if e.kind == "call" and "skepticoin.serialization.safe_read" in e.targets]
    if len(reads) == 1 and reads[0].loops and reads[0].term[2][1:] == (C(1),) and not residual(reads[0], ()):
        ck.ok("R20.5", "stream_deserialize_vlq consumes one byte per loop iteration through safe_read", "", reads[0].loc)
    else:
        ck.violated("R20.5", "stream_deserialize_vlq consumes one byte per loop iteration through safe_read", "%s" % [e.describe()[:80] for e in reads], s.fi.loc)
    from .c11 import check_receive
    check_receive(ck)


DECODERS = {"decode", "fromhex", "index", "unpack", "unpack_from", "loads"}


def outside_catch_all(ck: Check) -> List[str]:
    """functions that run in the event loop but not under the per-connection catch-all: the managers' step methods, the accept path,
    and whatever they call"""
    roots = sorted(q for q in ck.repo.functions if q.startswith("skepticoin.networking.manager.") and q.endswith(".step"))
    roots += [LPQ + "step_managers", LPQ + "handle_incoming_connection"]
    seen: List[str] = []

    def reach(q: str) -> None:
        if q in seen or q not in ck.repo.functions:
            return
        seen.append(q)
        for e in ck.summ(q, 0).events:
            if e.kind != "call" or e.chain:
                continue
            for t in e.targets:
                if t.startswith("new:"):
                    init = ck.repo.find_method(t[4:], "__init__")
                    if init is not None:
                        reach(init.qualname)
                else:
                    reach(t)
            if not e.targets and e.parts and e.parts[0][0] == "a":
                # receiver of unknown type: every method of that name in the networking package may be meant
                for q2, fi2 in ck.repo.functions.items():
                    if fi2.name == e.parts[0][2] and fi2.cls is not None and fi2.module.name.startswith("skepticoin.networking."):
                        reach(q2)
        # helpers added after the rule tables were written are expanded in place by the summariser (no call event): follow them by name
        for n in ast.walk(ck.repo.functions[q].node):
            if isinstance(n, ast.Call):
                nm = n.func.attr if isinstance(n.func, ast.Attribute) else (n.func.id if isinstance(n.func, ast.Name) else None)
                if nm in helpers:
                    for q2 in helpers[nm]:
                        reach(q2)
    helpers: Dict[str, List[str]] = {}
    for q0, fi0 in ck.repo.functions.items():
        if ck.walker.transparent(q0):
            helpers.setdefault(fi0.name, []).append(q0)
    for r in roots:
        reach(r)
    return seen


def decoding_sites(fn: ast.AST) -> List[Tuple[int, str]]:
    """calls that turn stored bytes / text into something else and fail on malformed content, not enclosed in a handler for it"""
    parents: Dict[int, ast.AST] = {}
    for n in ast.walk(fn):
        for c in ast.iter_child_nodes(n):
            parents[id(c)] = n
    out = []
    for n in ast.walk(fn):
        if not isinstance(n, ast.Call):
            continue
        d = dotted(n.func) or (("?." + n.func.attr) if isinstance(n.func, ast.Attribute) else "")
        last = d.split(".")[-1]
        if not (last in DECODERS or d.startswith("ipaddress.") or d.startswith("json.")):
            continue
        if last == "decode" and isinstance(n.func, ast.Attribute) and isinstance(n.func.value, ast.Call) and (dotted(n.func.value.func) or "").endswith("hexlify"):
            continue        # hexadecimal digits are ASCII
        cur: Optional[ast.AST] = n
        caught = False
        while cur is not None and cur is not fn:
            par = parents.get(id(cur))
            if isinstance(par, ast.Try) and cur in par.body:
                for h in par.handlers:
                    names = [] if h.type is None else [dotted(x) or "" for x in (h.type.elts if isinstance(h.type, ast.Tuple) else [h.type])]
                    if h.type is None or any(x.split(".")[-1] in ("Exception", "BaseException", "ValueError", "UnicodeDecodeError", "UnicodeError") for x in names):
                        caught = True
            cur = par
        if not caught:
            out.append((n.lineno, ast.unparse(n)[:70]))
    return out


def r20_10(ck: Check) -> None:
    """what a peer sent may be *kept* by its connection object (user agent, addresses, ids) and looked at later by code that runs outside
    the per-connection catch-all; there it must not be decoded: a decoding failure would end the event loop for everybody"""
    ctl = ast.parse("def f(p):\n    return p.user_agent.decode('utf-8')\n").body[0]
    ctl_ok = ast.parse("def f(p):\n    try:\n        return p.user_agent.decode('utf-8')\n    except UnicodeDecodeError:\n        return ''\n").body[0]
    if len(decoding_sites(ctl)) != 1 or decoding_sites(ctl_ok):
        ck.unknown("R20.10", "positive control", "the decoding-site scan did not behave on its control snippets")
        return
    fns = outside_catch_all(ck)
    if len(fns) < 30:
        ck.unknown("R20.10", "functions outside the catch-all", "only %d functions found reachable from the managers' step methods (64 on the recorded tree)" % len(fns))
        return
    ck.analysed(*fns)
    bad = 0
    for q in fns:
        fi = ck.repo.functions[q]
        for line, text in decoding_sites(fi.node):
            bad += 1
            ck.violated("R20.10", "%s (runs outside the per-connection catch-all) does not decode stored data: %s" % (short(q), text),
                        "malformed content kept from a peer (e.g. a user agent that is not UTF-8) raises here, outside every per-connection "
                        "handler: the event loop ends and every connection with it", "%s:%d" % (fi.module.path, line))
    if not bad:
        ck.ok("R20.10", "no function that runs outside the per-connection catch-all decodes stored bytes / text", "%d functions" % len(fns), "")


def shared_class_state(tree: ast.AST, everywhere: Optional[List[ast.AST]] = None) -> List[Tuple[int, str, str]]:
    """class-body assignments of a mutable display (`xs = []`, `m: Dict = {}`, `set()`) in a class that is not a dataclass and whose
    methods mutate `self.<name>` in place: one object shared by all instances. (line, class, attribute)"""
    out = []
    for c in ast.walk(tree):
        if not isinstance(c, ast.ClassDef):
            continue
        decs = [(dotted(d.func) if isinstance(d, ast.Call) else dotted(d)) or "" for d in c.decorator_list]
        if any(d.split(".")[-1] == "dataclass" for d in decs):
            continue        # (dataclasses refuse mutable defaults themselves)
        for st in c.body:
            tgt = val = None
            if isinstance(st, ast.Assign) and len(st.targets) == 1 and isinstance(st.targets[0], ast.Name):
                tgt, val = st.targets[0].id, st.value
            elif isinstance(st, ast.AnnAssign) and isinstance(st.target, ast.Name) and st.value is not None:
                tgt, val = st.target.id, st.value
            if tgt is None or tgt.startswith("__"):
                continue
            mutable = isinstance(val, (ast.List, ast.Dict, ast.Set)) or (isinstance(val, ast.Call) and isinstance(val.func, ast.Name)
                                                                         and val.func.id in ("list", "dict", "set", "bytearray", "deque", "defaultdict"))
            if not mutable:
                continue
            rebinds = any(isinstance(n, ast.Attribute) and n.attr == tgt and isinstance(n.ctx, ast.Store) and isinstance(n.value, ast.Name) and n.value.id == "self"
                          for m in c.body if isinstance(m, ast.FunctionDef) and m.name == "__init__" for n in ast.walk(m))
            if rebinds:
                continue        # every instance gets its own in __init__
            mutated = False
            # changed in place through an instance: by the class's own methods (self.x...) or by anyone holding an instance (obj.x...)
            for scope_ in (everywhere or [c]):
                for n in ast.walk(scope_):
                    if isinstance(n, ast.Call) and isinstance(n.func, ast.Attribute) and isinstance(n.func.value, ast.Attribute) and n.func.value.attr == tgt \
                            and n.func.attr in ("append", "add", "extend", "update", "insert", "pop", "remove", "clear", "setdefault", "popleft", "appendleft"):
                        mutated = True
                    if isinstance(n, ast.Subscript) and isinstance(n.ctx, (ast.Store, ast.Del)) and isinstance(n.value, ast.Attribute) and n.value.attr == tgt:
                        mutated = True
            if mutated:
                out.append((st.lineno, c.name, tgt))
    return out


def r20_11(ck: Check) -> None:
    """per-connection state is per connection: a mutable object in a class body is ONE object for all instances, so what one peer makes
    the node remember shows up in every other connection (and outlives the peer)"""
    ctl = ast.parse("class K:\n    items: list = []\n    def add(self, x):\n        self.items.append(x)\n")
    ctl_ok = ast.parse("class K:\n    items: list = []\n    def __init__(self):\n        self.items = []\n    def add(self, x):\n        self.items.append(x)\n")
    if len(shared_class_state(ctl)) != 1 or shared_class_state(ctl_ok):
        ck.unknown("R20.11", "positive control", "the shared-class-state scan did not behave on its control snippets")
        return
    n = 0
    mods = [m for m in ck.repo.modules.values() if m.name.startswith("skepticoin.networking")]
    for m in mods:
        for line, cls, attr in shared_class_state(m.tree, [x.tree for x in ck.repo.modules.values()]):
            n += 1
            ck.violated("R20.11", "%s.%s is per-instance state" % (cls, attr),
                        "`%s` is assigned a mutable object in the class body and changed in place through `self.%s`: all instances (all "
                        "connections) share it" % (attr, attr), "%s:%d" % (m.path, line))
    if not n:
        ck.ok("R20.11", "no networking class keeps mutable per-instance state in a class-level attribute", "%d modules" % len(mods), "")


def r20_12(ck: Check) -> None:
    """the handlers of the per-connection catch-all are the last line of defence: what they do themselves must not fail. Allowed there:
    logging, formatting the exception, `disconnect` (which has its own catch-all), and calls the may-raise summaries clear; not allowed:
    look-ups by key / index, augmented stores into containers, raise statements."""
    q = LPQ + "handle_remote_peer_selector_event"
    fi = ck.repo.functions[q]
    s = ck.summ(q, 0)
    mr = MayRaise(ck.walker)
    construct = "handle_remote_peer_selector_event: the catch-all's own handlers cannot fail"
    problems: List[Tuple[str, str]] = []
    n_handlers = 0
    raw = ck.repo.raw_function(fi)
    for tr in [n for n in ast.walk(raw) if isinstance(n, ast.Try)]:
        for h in tr.handlers:
            n_handlers += 1
            for st in h.body:
                for n in ast.walk(st):
                    if isinstance(n, ast.Subscript):
                        problems.append(("%s:%d" % (fi.module.path, n.lineno), "%s can raise KeyError / IndexError" % ast.unparse(n)[:60]))
                    elif isinstance(n, ast.Raise):
                        problems.append(("%s:%d" % (fi.module.path, n.lineno), "a raise statement"))
    for e in s.events:
        if e.kind != "call" or e.chain or not any(c.prov == "handler" for c in e.pc):
            continue
        if LPQ + "disconnect" in e.targets:
            continue
        r, why = mr.event(e)
        if r:
            problems.append((e.loc, "%s may raise (%s)" % (show(e.term)[:60], why[:80])))
    if n_handlers < 1:
        ck.unknown("R20.12", construct, "no exception handler found in the function that is the per-connection catch-all")
        return
    if problems:
        for where, what in problems[:4]:
            ck.violated("R20.12", construct, "%s — an exception here escapes into the event loop, which ends for every connection" % what, where)
    else:
        ck.ok("R20.12", construct, "%d handlers" % n_handlers, fi.loc)


def check(ck: Check) -> None:
    ck.explanations.append(
        "C20: exception containment (every peer-driven call and every may-raise call of the selector-event handler is inside a non-re-raising "
        "catch-all; disconnect cannot raise), who-may-call closure of the message-driven functions, dispatch exhaustiveness and protocol-order "
        "guard, validate-before-mutate (shared typestate / admission rules), bounded reads.")
    ck.run("R20.1", "catch-all encloses all peer-driven work", lambda: r20_1(ck))
    ck.run("R20.2", "message-driven functions are reachable only through the catch-all", lambda: r20_2(ck))
    ck.run("R20.3", "protocol order; unknown types raise", lambda: r20_3(ck))
    ck.run("R20.4", "validate before mutate", lambda: r20_4(ck))
    ck.run("R20.5", "bounded reads", lambda: r20_5(ck))
    ck.run("R20.7", "dialling an announced address cannot end the loop", lambda: r20_7(ck))
    ck.run("R20.9", "outgoing dials are capped below the descriptor limit", lambda: r20_9(ck))
    ck.run("R20.10", "nothing outside the per-connection catch-all decodes what peers sent", lambda: r20_10(ck))
    ck.run("R20.11", "per-connection state is per connection", lambda: r20_11(ck))
    ck.run("R20.12", "the catch-all's handlers cannot fail themselves", lambda: r20_12(ck))
    ck.run("R20.13", "what a peer says never re-files a connection", lambda: r20_13(ck))
    ck.run("R20.14", "a delivered block is applied only with its height linked to its parent's", lambda: r20_14(ck))
    ck.run("R20.15", "the managers' own steps gain no operation that can fail", lambda: r20_15(ck))
    ck.run("R20.8", "the event loop ends only through its flag, dispatches every ready socket, and never waits unboundedly", lambda: r20_8(ck))
    from .c09 import r09_5
    ck.run("R09.5", "buffering a block before validation writes nothing", lambda: r09_5(ck))
    from .c13 import r13_6
    ck.run("R13.6", "the roll-back target exists from start-up on (only bulk download serves an unvalidated state)", lambda: r13_6(ck))
    from .c19 import r19_6
    ck.run("R20.6", "peer-supplied addresses are sanitised before they reach code outside the catch-all", lambda: r19_6(ck, "R20.6"))
    ck.note("not armed (timing is a runtime quantity): the VLQ reader accumulates an unbounded int; a 32 MiB run of continuation bytes makes decoding quadratic")
    ck.note("residual escape routes: handle_incoming_connection (accept / getpeername re-raise) runs outside the catch-all and processes no peer payload; the "
            "manager steps run outside it too and DO read state that peers influence - see R20.14 / R20.15")
