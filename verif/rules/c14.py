"""C14 — Wallet builds exact, valid, non-overlapping spends or changes nothing."""
from __future__ import annotations

import ast

from typing import Any, Iterable, List, Optional

from ..engine.flow import Automaton, MayRaise, Runner, State, violation
from ..engine.match import Spec, loop_doms, require_return, residual
from ..engine.repo import dotted
from ..engine.report import Check
from ..engine.terms import C, Term, conjuncts, lin_add, lin_parts, mentions, mk_cmpz, show, subterms
from ..engine.walker import MUTATORS, Event
from .common import short

W = "skepticoin.wallet."
UNDO = {"difference_update", "discard", "remove", "clear"}


class AtomicityAutomaton(Automaton):
    """dirty = the wallet's record of used outputs has been changed and not undone."""

    def __init__(self, mr: MayRaise, used: Term):
        self.mr = mr
        self.used = used
        self.mutations = 0

    def initial(self) -> List[State]:
        return [("clean",)]

    def _mut(self, ev: Event) -> Optional[str]:
        if ev.kind == "call" and ev.parts and ev.parts[0][0] == "a" and ev.parts[0][1] == self.used and ev.parts[0][2] in MUTATORS:
            return ev.parts[0][2]
        if ev.kind in ("store", "del") and (ev.term == self.used or (ev.term[0] == "s" and ev.term[1] == self.used)):
            return ev.kind
        return None

    def label(self, ev: Event) -> Optional[str]:
        m = self._mut(ev)
        return ("wallet.spent_transaction_outputs.%s" % m) if m else None

    def may_raise(self, ev: Event) -> bool:
        if ev.kind != "call":
            return False
        if self._mut(ev):
            return False
        r, _ = self.mr.event(ev)
        return r

    def on_event(self, state: State, ev: Event) -> Iterable[State]:
        m = self._mut(ev)
        if m is None:
            return [state]
        self.mutations += 1
        if m in UNDO:
            return [("clean",)]
        return [("dirty",)]


def r14_1(ck: Check) -> None:
    q = W + "create_spend_transaction"
    summ = ck.summ(q, 0)
    sp = Spec(summ, ("wallet", "cs", "value", "fee", "opk", "change"))
    used = sp.term("wallet.spent_transaction_outputs")
    auto = AtomicityAutomaton(MayRaise(ck.walker), used)
    run = Runner(summ, auto, ck.repo)
    out = run.run()
    construct = "create_spend_transaction: no exceptional exit with the wallet's record of used outputs changed"
    bad = [(s, tr) for s, tr in out.exc.items() if s[0] == "dirty"]
    if auto.mutations == 0:
        ck.violated("R14.1", "create_spend_transaction records the outputs it spends", "the wallet's record of used outputs is never updated: the next "
                    "spend re-uses the same outputs", summ.fi.loc)
        return
    if bad:
        for s, tr in bad[:2]:
            ck.violated("R14.1", construct, "a failed attempt (insufficient funds, or an error while signing) leaves outputs marked as used, so a "
                        "later affordable spend fails", summ.fi.loc, list(tr))
    else:
        ck.ok("R14.1", construct, "%d exceptional exit state(s), all clean; %d normal" % (len(out.exc), len(out.ret)), summ.fi.loc)
    # success path records exactly the inputs used
    ups = [e for e in summ.events if e.kind == "call" and e.parts and e.parts[0][0] == "a" and e.parts[0][1] == used and e.parts[0][2] in ("update", "add")]
    rets = summ.returns()
    construct = "create_spend_transaction: on success every input used is recorded as spent"
    ok = False
    if len(ups) == 1 and len(rets) == 1 and ups[0].seq < rets[0].seq and [c.term for c in ups[0].pc] == [c.term for c in rets[0].pc]:
        arg = ups[0].term[2][0] if ups[0].term[2] else None
        if arg is not None and arg[0] == "new":
            recs = [e for e in summ.events if e.kind == "call" and e.parts and e.parts[0] == ("a", arg, "append")]
            ins = [e for e in summ.events if e.kind == "call" and e.parts and e.parts[0][0] == "a" and e.parts[0][2] == "append"
                   and e.term[2] and e.term[2][0][0] == "call" and e.term[2][0][1] == ("g", "skepticoin.datatypes.Input")]
            if len(recs) == 1 and len(ins) == 1 and recs[0].term[2] == (ins[0].term[2][0][2][0],) and recs[0].loops == ins[0].loops \
                    and [c.term for c in recs[0].pc] == [c.term for c in ins[0].pc]:
                ok = True
        elif ups[0].parts[0][2] == "add":
            ok = True
    if ok:
        ck.ok("R14.1", construct, "", ups[0].loc)
    else:
        ck.violated("R14.1", construct, "the references recorded are not exactly the references used as inputs: %s" % [e.describe()[:120] for e in ups],
                    summ.fi.loc)


def r14_2_3(ck: Check) -> None:
    q = W + "create_spend_transaction"
    summ = ck.summ(q, 0)
    sp = Spec(summ, ("wallet", "cs", "value", "fee", "opk", "change"),
              forall=[("k", "wallet.keypairs"), ("r", "cs.at_head.public_key_balances[SECP256k1PublicKey(k)].output_references")])
    r = sp.term("r")
    ins = [e for e in summ.events if e.kind == "call" and e.parts and e.parts[0][0] == "a" and e.parts[0][2] == "append"
           and e.term[2] and e.term[2][0][0] == "call" and e.term[2][0][1] == ("g", "skepticoin.datatypes.Input")]
    construct = "create_spend_transaction: inputs are references owned by a wallet key (from the head's per-key balance) and not used before"
    unused = sp.term("r not in wallet.spent_transaction_outputs")
    if len(ins) == 1 and ins[0].term[2][0][2][0] == r and list(loop_doms(ins[0])) == sp.loops and ins[0].parts[0][1][0] == "new" \
            and unused in [c.term for c in ins[0].pc]:
        ck.ok("R14.2", construct, "", ins[0].loc)
    else:
        ck.violated("R14.2", construct, "input selection changed: %s" % [e.describe()[:200] for e in ins], summ.fi.loc)
        return
    inputs_list = ins[0].parts[0][1]
    # amounts
    rets = summ.returns()
    signs = [e for e in summ.events if e.kind == "call" and W + "sign_transaction" in e.targets]
    U = sp.term("cs.at_head.unspent_transaction_outs")
    if len(rets) != 1 or len(signs) != 1:
        ck.violated("R14.3", "create_spend_transaction: single success return of the signed transaction", "%d returns, %d sign calls" % (len(rets), len(signs)),
                    summ.fi.loc)
        return
    ret = rets[0]
    # collected value at the return: some loop-carried accumulator + U[r].value
    enough = [x for c in ret.pc if c.prov in ("branch", "cont-surv") for x in conjuncts(c.term) if x[0] == "cmpz" and x[1] in (">=", "<=")]
    construct = "create_spend_transaction: returns only when collected >= value + fee, collected = running sum of U[r].value over the inputs taken"
    col = None
    for c in enough:
        atoms, k = lin_parts(c[2])
        lv = [a for a in atoms if a[0] == "lv"]
        if len(lv) == 1 and k == 0:
            want = lin_add(lin_add(lin_add(lv[0], ("a", ("s", U, r), "value")), sp.term("value"), -1), sp.term("fee"), -1)
            if mk_cmpz(">=", want) == c:
                col = lin_add(lv[0], ("a", ("s", U, r), "value"))
    if col is not None:
        ck.ok("R14.3", construct, "", ret.loc)
    else:
        ck.violated("R14.3", construct, "the success condition is %s" % "; ".join(show(c)[:120] for c in enough) or "absent", ret.loc)
        return
    # the running sum and the input list move together: one `+=` on the sum, sitting next to the one place an input is added
    acc_name = [a for a in lin_parts(col)[0] if a[0] == "lv"][0][1]
    others = [e for e in summ.events if e.kind == "call" and e.parts and e.parts[0][0] == "a" and e.parts[0][1] == inputs_list
              and e.parts[0][2] in MUTATORS and e is not ins[0]]
    construct = "create_spend_transaction: the collected amount grows only by U[r].value, exactly when input r is added; inputs are added nowhere else"
    problems = []
    if others:
        problems.append("the input list is also changed by %s" % "; ".join(show(e.term)[:80] for e in others))
    scope_nodes = [summ.fi.node] + [f.node for f in ck.repo.all_functions() if ck.walker.transparent(f.qualname) and f.module is summ.fi.module]
    augs = []
    for root in scope_nodes:
        for b in ast.walk(root):
            for fld in ("body", "orelse", "finalbody"):
                lst = getattr(b, fld, None)
                if not isinstance(lst, list):
                    continue
                for n in lst:
                    if isinstance(n, ast.AugAssign) and isinstance(n.target, ast.Name) and n.target.id == acc_name:
                        augs.append((b, n))
    inits = [n for root in scope_nodes for n in ast.walk(root) if isinstance(n, (ast.Assign, ast.AnnAssign))
             and any(isinstance(t, ast.Name) and t.id == acc_name for t in (n.targets if isinstance(n, ast.Assign) else [n.target]))]
    if len(inits) != 1 or not (isinstance(inits[0].value, ast.Constant) and inits[0].value.value == 0 and not isinstance(inits[0].value.value, bool)):
        problems.append("%s starts from %s (0 expected: nothing collected yet)" % (acc_name, "; ".join(ast.unparse(n.value) if n.value is not None else "?" for n in inits) or "nothing"))
    if len(augs) != 1 or not isinstance(augs[0][1].op, ast.Add):
        problems.append("%d updates of %s (one `+=` expected)" % (len(augs), acc_name))
    else:
        parent = augs[0][0]
        sibs = [x for fld in ("body", "orelse", "finalbody") if isinstance(getattr(parent, fld, None), list) and augs[0][1] in getattr(parent, fld)
                for x in getattr(parent, fld)]
        adds_input = [x for x in sibs if isinstance(x, ast.Expr) and isinstance(x.value, ast.Call) and isinstance(x.value.func, ast.Attribute)
                      and x.value.func.attr == "append" and x.value.args and isinstance(x.value.args[0], ast.Call)
                      and (dotted(x.value.args[0].func) or "").split(".")[-1] == "Input"]
        if len(adds_input) != 1:
            problems.append("the `%s +=` at line %d is not in the same block as the statement that adds the input" % (acc_name, augs[0][1].lineno))
    if problems:
        ck.violated("R14.3", construct, "; ".join(problems) + " — the amount the change is computed from is then not the sum of the inputs", summ.fi.loc)
    else:
        ck.ok("R14.3", construct, "", ins[0].loc)
    construct = "create_spend_transaction: every path ends in the signed transaction or in a raise (insufficient funds are reported, not passed over)"
    if summ.falls:
        ck.violated("R14.3", construct, "the function can run off its end: the caller gets None where it expects a transaction or the insufficient-funds "
                    "error", summ.fi.loc)
    else:
        ck.ok("R14.3", construct, "", summ.fi.loc)
    first = sp.term("Output(value, opk)")
    tx_arg = signs[0].term[2][2] if len(signs[0].term[2]) == 3 else None
    construct = "create_spend_transaction: first output pays exactly `value` to the recipient; the transaction signed is Transaction(inputs, outputs)"
    if tx_arg is not None and tx_arg[0] == "call" and tx_arg[1] == ("g", "skepticoin.datatypes.Transaction") and tx_arg[2][0] == inputs_list \
            and tx_arg[2][1] == ("list", (first,)) and signs[0].term[2][0] == sp.term("wallet") and signs[0].term[2][1] == U and ret.term == signs[0].term:
        ck.ok("R14.3", construct, "", signs[0].loc)
    else:
        ck.violated("R14.3", construct, "signed: %s" % show(signs[0].term)[:160], signs[0].loc)
    outs = ("list", (first,))
    ch = [e for e in summ.events if e.kind == "call" and e.parts and e.parts[0] == ("a", outs, "append")]
    change_val = lin_add(lin_add(col, sp.term("value"), -1), sp.term("fee"), -1)
    want_arg = ("call", ("g", "skepticoin.datatypes.Output"), (change_val, sp.term("change")), ())
    construct = "create_spend_transaction: change output iff collected != value + fee, of exactly collected - value - fee, to the change address"
    okc = False
    if len(ch) == 1 and ch[0].term[2] == (want_arg,) and ch[0].seq < signs[0].seq:
        extra = [c.term for c in ch[0].pc if c not in ret.pc and c.term not in [x.term for x in ret.pc]]
        if len(extra) == 1 and extra[0][0] == "cmpz" and extra[0][1] == "!=" and lin_parts(extra[0][2])[0] in (
                lin_parts(change_val)[0], lin_parts(lin_add(C(0), change_val, -1))[0]) and lin_parts(extra[0][2])[1] == 0:
            okc = True
    if okc:
        ck.ok("R14.3", construct, "fee = inputs - outputs by construction", ch[0].loc)
    else:
        ck.violated("R14.3", construct, "change handling: %s" % [e.describe()[:220] for e in ch], summ.fi.loc)


def r14_4(ck: Check) -> None:
    q = W + "sign_transaction"
    s = ck.summ(q, 0)
    sp = Spec(s, ("wallet", "U", "tx"), forall=[("i", "tx.signable_equivalent().inputs")])
    msg = sp.term("tx.signable_equivalent().serialize()")
    # same message as the validator checks
    # (looked at from the validator the consensus rules enter through, with its helpers expanded: who builds the message, and
    # whether it is handed down or rebuilt per input, does not matter)
    v = ck.summ("skepticoin.consensus.validate_non_coinbase_transaction_in_coinstate", 2)
    spv = Spec(v, ("tx", "at", "cs"))
    vmsg = spv.term("tx.signable_equivalent().serialize()")
    vcalls = [e for e in v.events if e.kind == "call" and e.parts and e.parts[0][0] == "a" and e.parts[0][2] == "validate"]
    same_shape = bool(vcalls) and all(e.term[2][1:] == (vmsg,) for e in vcalls)
    elt = ("Input(output_reference=i.output_reference, signature=SECP256k1Signature("
           "ecdsa.SigningKey.from_string(wallet[U[i.output_reference].public_key.public_key], curve=ecdsa.SECP256k1).sign("
           "tx.signable_equivalent().serialize())))")
    from ..engine.match import same_function
    sp0 = Spec(s, ("wallet", "U", "tx"))
    want = sp0.term("Transaction(inputs=[%s for i in tx.signable_equivalent().inputs], outputs=tx.outputs)" % elt)
    construct = ("sign_transaction: one Input(same reference, SECP256k1Signature(owner_key.sign(blanked transaction))) per input of the whole "
                 "input list, in order; outputs passed through unchanged")
    if same_function(s, want) and same_shape:
        ck.ok("R14.4", construct, "the message is the same normal form the validator verifies (tx.signable_equivalent().serialize())", s.fi.loc)
    else:
        ck.violated("R14.4", construct, "returns %s" % "; ".join(show(r.term)[:400] for r in s.returns()), s.fi.loc)
    wg = ck.summ(W + "Wallet.__getitem__", 0)
    require_return(ck, "R14.4", wg, Spec(wg, ("self", "pk")), "self.keypairs[pk]", "wallet[pk] is the private key stored for that public key")


def r14_5(ck: Check) -> None:
    """the record of used outputs belongs to one wallet object: created empty with it, written only by a successful spend"""
    init = ck.summ(W + "Wallet.__init__", 0)
    me = ("v", init.fi.params[0])
    st = [e for e in init.events if e.kind == "store" and e.term == ("a", me, "spent_transaction_outputs")]
    construct = "Wallet.__init__: spent_transaction_outputs is a fresh empty set per wallet object"
    fresh = (("call", ("g", "builtin:set"), (), ()), ("set", ()))
    if len(st) == 1 and (st[0].value in fresh or st[0].value[0] == "new") and not st[0].pc:
        ck.ok("R14.5", construct, "", st[0].loc)
    else:
        ck.violated("R14.5", construct, "initialised from %s: a value shared between wallet objects (a default argument is evaluated once) makes one "
                    "wallet's spends look used in every other" % [show(e.value)[:80] for e in st], init.fi.loc)
    from ..engine.effects import typed_writes
    tw = [w for w in typed_writes(ck.walker, ck.repo) if w.owner == W + "Wallet" and w.attr == "spent_transaction_outputs"]
    bad = [w for w in tw if w.func not in (W + "Wallet.__init__", W + "create_spend_transaction")]
    construct = "spent_transaction_outputs is written only by Wallet.__init__ and create_spend_transaction"
    if bad:
        ck.violated("R14.5", construct, "also written by %s" % sorted({short(w.func) for w in bad}), bad[0].ev.loc)
    else:
        ck.ok("R14.5", construct, "%d write site(s)" % len(tw), "")
    # no function of the repository has a mutable default argument (shared between calls)
    hits = []
    for fi in ck.repo.all_functions():
        a = fi.node.args   # type: ignore
        for d in list(a.defaults) + [k for k in a.kw_defaults if k is not None]:
            if isinstance(d, (ast.List, ast.Dict, ast.Set, ast.ListComp, ast.DictComp, ast.SetComp)) or (
                    isinstance(d, ast.Call) and isinstance(d.func, ast.Name) and d.func.id in ("set", "list", "dict", "bytearray")):
                hits.append("%s:%d" % (short(fi.qualname), d.lineno))
    ctl = ast.parse("def f(a, b=set(), *, c=[]): pass").body[0]
    nctl = sum(1 for d in list(ctl.args.defaults) + list(ctl.args.kw_defaults)   # type: ignore
               if isinstance(d, (ast.List, ast.Dict, ast.Set)) or (isinstance(d, ast.Call) and isinstance(d.func, ast.Name) and d.func.id in ("set", "list", "dict")))
    construct = "no function has a mutable default argument"
    if nctl != 2:
        ck.unknown("R14.5", construct, "positive control not matched")
    elif hits:
        ck.violated("R14.5", construct, "mutable defaults are created once and shared by all calls: %s" % hits[:5], "")
    else:
        ck.ok("R14.5", construct, "repository-wide scan", "")


def check(ck: Check) -> None:
    ck.explanations.append(
        "C14: failure atomicity of the spend builder (typestate with exceptional edges at every may-raise call: no exceptional exit after an "
        "un-undone mutation of the wallet's used-outputs record), provenance of selected inputs, amounts as linear normal forms, and the "
        "signing loop's agreement with what the validator verifies.")
    ck.run("R14.1", "all-or-nothing", lambda: r14_1(ck))
    ck.run("R14.2/3", "owned and unused inputs; exact amounts", lambda: r14_2_3(ck))
    ck.run("R14.4", "signing", lambda: r14_4(ck))
    ck.run("R14.5", "the used-output record is per wallet", lambda: r14_5(ck))
    ck.assume("the head's per-key balance lists exactly the unspent outputs paying that key (C03); ECDSA signing/verification are inverse")
