"""C09 — Relay path: only fully valid blocks enter state; rejected ones leave no trace (typestate over all paths,
including exceptional ones, of ConnectedRemotePeer.handle_block_received)."""
from __future__ import annotations

from typing import Any, Iterable, List, Optional, Tuple

from ..engine.flow import Automaton, MayRaise, Runner, State, violation
from ..engine.match import Spec, loop_doms, residual
from ..engine.report import Check
from ..engine.terms import C, Term, implies, mentions, mk_not, show, subterms
from ..engine.effects import collect_mutations, event_mutation
from ..engine.walker import MUTATORS, Event, swallowed_by, try_inside_loops
from .common import CONS, functions_mentioning, short

RP = "skepticoin.networking.remote_peer.ConnectedRemotePeer."
DI = "skepticoin.networking.disk_interface.DiskInterface."
CM = "skepticoin.networking.manager.ChainManager."
NM = "skepticoin.networking.manager.NetworkManager."
CSQ = "skepticoin.coinstate.CoinState."
DBS = "skepticoin.blockstore.DefaultBlockStore"

# state indices
NEW, PARENT, VBI, STORED, VALID, BULK, SERVED, APPLIED, REFUSED = range(9)


def upd(s: State, **kw: Any) -> State:
    l = list(s)
    for k_, v in kw.items():
        l[{"new": NEW, "parent": PARENT, "vbi": VBI, "stored": STORED, "valid": VALID, "bulk": BULK, "served": SERVED,
           "applied": APPLIED, "refused": REFUSED}[k_]] = v
    return tuple(l)


class RelayAutomaton(Automaton):
    def __init__(self, ck: Check, sp: Spec, mr: MayRaise):
        self.ck = ck
        self.mr = mr
        self.block = sp.term("message.data")
        self.msg = ("v", sp.summ.fi.params[2])
        self.prior = sp.term("self.local_peer.chain_manager.coinstate")
        self.t_new = sp.term("message.data.hash() not in self.local_peer.chain_manager.coinstate.block_by_hash")
        self.t_orphan = sp.term("message.data.header.summary.previous_block_hash not in self.local_peer.chain_manager.coinstate.block_by_hash")
        self.irt0 = sp.term("header.in_response_to == 0")
        self.applied = sp.term("self.local_peer.chain_manager.coinstate.add_block_no_validation(message.data)")
        self.lkv = sp.term("self.local_peer.chain_manager.last_known_valid_coinstate")
        self.buffer = ("a", ("a", ("g", DBS), "instance"), "write_buffer")
        self.seen: dict = {}
        self.sp = sp
        self._reeval: dict = {}

    def initial(self) -> List[State]:
        return [(False, False, False, "no", False, False, False, False, False)]

    def on_handler(self, state: State, types: Optional[List[str]]) -> Optional[State]:
        return upd(state, refused=True)       # an exception was caught: the block (or its application) was refused

    def classify(self, ev: Event) -> Optional[str]:
        if ev.kind != "call" or ev.parts is None:
            return None
        t = ev.term
        args = t[2] if t[0] == "call" else ()
        if DI + "save_block" in ev.targets:
            return "SAVE" if args == (self.block,) else "SAVE?"
        if DI + "flush_blocks" in ev.targets:
            return "FLUSH"
        if ev.parts[0] == ("a", self.buffer, "clear"):
            return "CLEAR"
        if ev.parts[0][0] == "a" and ev.parts[0][2] == "clear" and "write_buffer" in show(ev.parts[0][1]):
            return "CLEAR?"
        if CM + "set_coinstate" in ev.targets:
            x = args[0] if args else None
            flag = args[1] if len(args) > 1 else C(True)
            if x == self.lkv:
                return "ROLLBACK"
            if x == self.applied:
                return "SETV" if flag == C(True) else ("SETU" if flag == C(False) else "SET?")
            return "SET?"
        if NM + "broadcast_block" in ev.targets:
            return "BCAST" if args == (self.block,) else "BCAST?"
        if CONS + "validate_block_in_coinstate" in ev.targets:
            return "VOK" if args == (self.block, self.prior) else "VOK?"
        if CONS + "validate_block_by_itself" in ev.targets:
            return "VBI" if args and args[0] == self.block else "VBI?"
        if CSQ + "add_block_no_validation" in ev.targets or CSQ + "add_block" in ev.targets:
            return "APPLY" if t == self.applied else "APPLY?"
        return None

    def label(self, ev: Event) -> Optional[str]:
        return self.classify(ev)

    def may_raise(self, ev: Event) -> bool:
        if ev.kind == "store" and ev.value is not None and any(c.prov == "handler" for c in ev.pc):
            # inside the handler that refuses a block, before the clean-up: `d[k] += 1` / `d[k] = f(d[k'])` reads a key that may be absent
            if any(x[0] == "s" and x[1][0] != "new" and x[2][0] != "c" for x in subterms(ev.value)):
                return True
        if ev.kind != "call":
            return False
        # a rejection is an exception caused by the delivered data
        if not (mentions(ev.term, self.msg)):
            return False
        r, _ = self.mr.event(ev)
        if r and self._re_evaluation(ev):
            return False
        return r

    def _re_evaluation(self, ev: Event) -> bool:
        """The same call on the same operands already completed on every path to this one, outside any try, and nothing in
        between (nor the call itself) writes to anything reachable from the delivered message: it completes again."""
        key = ev.seq
        if key in self._reeval:
            return self._reeval[key]
        ok = False
        evs = self.sp.summ.events
        for e0 in evs:
            if e0.seq >= ev.seq:
                break
            if e0.kind != "call" or e0.term != ev.term or e0.tries or e0.loops or e0.chain or ev.chain:
                continue
            if not {c.term for c in e0.pc} <= {c.term for c in ev.pc}:
                continue
            clean = True
            for b in evs:
                if b.chain or not (e0.seq <= b.seq <= ev.seq):
                    continue
                m = event_mutation(b)
                if m is not None and mentions(m.root, self.msg):
                    clean = False
                    break
                if b.kind == "call" and mentions(b.term, self.msg):
                    for t in b.targets:
                        if t.startswith("new:"):
                            continue
                        if any(mu.root[0] in ("v", "e") for mu in collect_mutations(self.ck.walker, t, set())):
                            clean = False
                            break
                    if not b.targets and b.parts and b.parts[0][0] == "a" and b.parts[0][2] in MUTATORS and mentions(b.parts[0][1], self.msg):
                        clean = False
                if not clean:
                    break
            if clean:
                ok = True
                break
        self._reeval[key] = ok
        return ok

    def on_branch(self, state: State, test: Term, polarity: bool) -> Optional[State]:
        fact = test if polarity else mk_not(test)       # what holds on this branch
        if fact == C(False):
            return None                                 # `if True:` has no false branch
        if implies(fact, self.t_new):
            state = upd(state, new=True)
        if implies(fact, mk_not(self.t_orphan)):
            state = upd(state, parent=True)
        # a test of the one linkage the in-state validator checks too (R05.6: height = parent's + 1): where it fails the block is invalid,
        # and leaving without adopting it is a refusal (the relay handler makes this test itself, because bulk download skips in-state
        # validation for most blocks - R20.14)
        if fact[0] in ("cmp", "cmpz") and self._unlinked(fact):
            state = upd(state, refused=True)
        if implies(fact, self.irt0):
            if state[BULK]:
                return None                             # infeasible: this path took the bulk-download branch
        elif implies(fact, mk_not(self.irt0)):
            state = upd(state, bulk=True)
        return state

    def _unlinked(self, fact: Term) -> bool:
        from .c20 import _is_height_link
        h = self.sp.term("message.data.header.summary.height")
        ph = self.sp.term("self.local_peer.chain_manager.coinstate.block_by_hash[message.data.header.summary.previous_block_hash].header.summary.height")
        neg = mk_not(fact)
        return _is_height_link(neg, h, ph)

    def on_event(self, state: State, ev: Event) -> Iterable[State]:
        k = self.classify(ev)
        if k is None:
            return [state]
        self.seen[k] = self.seen.get(k, 0) + 1
        if k.endswith("?"):
            violation("%s with operands other than the delivered block / the prior state: %s" % (k[:-1], show(ev.term)[:100]))
        if k == "VBI":
            return [upd(state, vbi=True)]
        if not (state[NEW] and state[PARENT] and state[VBI]):
            missing = [n for n, i in (("duplicate test", NEW), ("orphan drop", PARENT), ("structural validation", VBI)) if not state[i]]
            violation("%s is reachable without passing: %s" % (k, ", ".join(missing)))
        if k == "APPLY":
            return [upd(state, applied=True)]
        if k == "SAVE":
            return [upd(state, stored="buffered")]
        if k == "CLEAR":
            return [upd(state, stored="no") if state[STORED] == "buffered" else state]
        if k == "FLUSH":
            if state[STORED] == "buffered" and not state[VALID] and not state[BULK]:
                violation("a block that has not passed in-state validation is flushed to the block store")
            return [upd(state, stored="flushed") if state[STORED] == "buffered" else state]
        if k == "VOK":
            return [upd(state, valid=True)]
        if k == "SETV":
            if not state[VALID]:
                violation("the block enters the served chain state as 'validated' before validate_block_in_coinstate(block, prior state) completed")
            return [upd(state, served=True)]
        if k == "SETU":
            if not state[BULK]:
                violation("the block enters the served chain state without full validation outside bulk download")
            return [upd(state, served=True)]
        if k == "ROLLBACK":
            return [upd(state, served=False)]
        if k == "BCAST":
            if not (state[VALID] and state[SERVED] and not state[BULK]):
                violation("the block is relayed without being fully validated and adopted (valid=%s served=%s bulk=%s)" % (
                    state[VALID], state[SERVED], state[BULK]))
            return [state]
        return [state]


def r09_flow(ck: Check) -> None:
    q = RP + "handle_block_received"
    summ = ck.summ(q, 0)
    sp = Spec(summ, ("self", "header", "message"))
    mr = MayRaise(ck.walker)
    auto = RelayAutomaton(ck, sp, mr)
    run = Runner(summ, auto, ck.repo)
    out = run.run()
    where = summ.fi.loc
    for k in ("SAVE", "FLUSH", "CLEAR", "SETV", "SETU", "ROLLBACK", "BCAST", "VOK", "VBI", "APPLY"):
        ck.stats.setdefault("events", {})[k] = auto.seen.get(k, 0)
    need = ["SAVE", "FLUSH", "CLEAR", "SETV", "BCAST", "VOK", "VBI", "APPLY", "ROLLBACK"]
    missing = [k for k in need if not auto.seen.get(k)]
    if missing:
        # fail closed: the handler no longer contains the events the automaton is about
        for k in missing:
            ck.violated("R09.3", "handle_block_received: event %s present" % k,
                        "the relay handler no longer performs %s on the delivered block / prior state (or performs it on other operands)" % k, where)
    for v in run.violations:
        ck.violated("R09.4" if "flush" in v.what or "buffer" in v.what else "R09.3", "handle_block_received: %s" % v.what.split(":")[0][:90], v.what,
                    "%s:%d" % (summ.fi.module.path, v.line), list(v.trace))
    n_exit = 0
    bad = 0
    for kind, states in (("return", out.ret), ("exception", out.exc)):
        for s, tr in states.items():
            n_exit += 1
            if s[STORED] == "buffered" and not s[VALID] and not s[BULK]:
                bad += 1
                ck.violated("R09.4", "handle_block_received: exit (%s) with an unvalidated block left in the write buffer" % kind,
                            "a delivered block that was rejected (or whose application failed) stays in the block store's write buffer: the next "
                            "flush writes it or fails on it, impairing the storing of later blocks", where, list(tr))
            if kind == "return" and s[SERVED] and not s[BULK] and s[STORED] != "flushed":
                bad += 1
                ck.violated("R09.4", "handle_block_received: adopted block not written to the store",
                            "the block is part of the served state at a normal exit but was not saved and flushed", where, list(tr))
            if kind == "return" and s[SERVED] and s[BULK] and s[STORED] == "no":
                bad += 1
                ck.violated("R09.4", "handle_block_received: a bulk-download block that is adopted is buffered for the store",
                            "the block enters the served state without being handed to the block store: its next validated descendant is flushed "
                            "without its parent, the flush fails on the foreign key and nothing is persisted from then on", where, list(tr))
            if s[SERVED] and not s[VALID] and not s[BULK]:
                bad += 1
                ck.violated("R09.3", "handle_block_received: exit with an unvalidated block in the served state", "", where, list(tr))
            if kind == "return" and s[NEW] and s[PARENT] and not s[REFUSED] and not s[SERVED]:
                bad += 1
                ck.violated("R09.7", "handle_block_received: a new block whose parent is known is either refused by a validator or ends up in the served state",
                            "an exit is reachable on which a new, connectable block was neither refused (no exception was caught) nor adopted: "
                            "valid blocks of a competing branch / of the download are silently dropped", where, list(tr))
    ck.stats["exit_states"] = n_exit
    ck.stats["flow_events"] = run.event_count
    if not run.violations and not bad and not missing:
        ck.ok("R09.1", "handle_block_received: every effect is behind the duplicate test (block id not in prior state)", "", where)
        ck.ok("R09.2", "handle_block_received: orphan drop and structural rejection are effect-free", "", where)
        ck.ok("R09.3", "handle_block_received: served-as-validated, flush and relay only after validate_block_in_coinstate(block, prior) completed", "", where)
        ck.ok("R09.7", "handle_block_received: a new block whose parent is known is either refused by a validator or ends up in the served state", "", where)
        ck.ok("R09.4", "handle_block_received: no exit (normal or exceptional, %d exit states) leaves an unvalidated block buffered; adopted blocks are flushed"
              % n_exit, "exceptional edges at every may-raise call that depends on the delivered message", where)


def r09_5(ck: Check) -> None:
    inst = ("a", ("g", DBS), "instance")
    for m, tgt in (("save_block", "skepticoin.blockstore.BlockStore.add_block_to_buffer"), ("flush_blocks", "skepticoin.blockstore.BlockStore.flush_blocks_to_disk")):
        s = ck.summ(DI + m, 0)
        calls = [e for e in s.events if e.kind == "call" and tgt in e.targets and e.parts[0][1] == inst and not residual(e, ())]
        construct = "DiskInterface.%s -> DefaultBlockStore.instance.%s" % (m, tgt.split(".")[-1])
        if len(calls) == 1:
            ck.ok("R09.5", construct, "the buffer that is cleared on rejection is the buffer that was written", calls[0].loc)
        else:
            ck.violated("R09.5", construct, "the disk interface no longer writes to the store whose buffer the relay handler clears", s.fi.loc)
    s = ck.summ("skepticoin.blockstore.BlockStore.add_block_to_buffer", 0)
    buf = ("a", ("v", s.fi.params[0]), "write_buffer")
    ap = [e for e in s.events if e.kind == "call" and e.parts and e.parts[0] == ("a", buf, "append")]
    if len(ap) == 1:
        ck.ok("R09.5", "add_block_to_buffer appends to self.write_buffer", "", s.fi.loc)
    else:
        ck.violated("R09.5", "add_block_to_buffer appends to self.write_buffer", "buffer attribute changed", s.fi.loc)
    # buffering is ONLY buffering: the relay handler buffers a block before it is validated and relies on clearing the buffer to drop it
    other = [e for e in s.events if e.kind == "call" and e not in ap and (any(t.startswith("skepticoin.") for t in e.targets)
                                                                         or (e.parts and e.parts[0][0] == "a" and e.parts[0][2] in
                                                                             ("execute", "executemany", "commit", "cursor", "write")))]
    construct = "add_block_to_buffer does nothing but append (no write to the database: an unvalidated block must stay droppable)"
    if other:
        ck.violated("R09.5", construct, "also performs %s — a block buffered before validation can reach the block store although it is rejected"
                    % [e.describe()[:80] for e in other[:3]], other[0].loc)
    else:
        ck.ok("R09.5", construct, "", s.fi.loc)


def r09_6(ck: Check) -> None:
    summ = ck.summ(RP + "handle_block_received", 0)
    sp = Spec(summ, ("self", "header", "message"))
    bc = [e for e in summ.events if e.kind == "call" and NM + "broadcast_block" in e.targets]
    construct = "handle_block_received: one relay site, under (block == new state's head) and (not a response to our own request)"
    applied = sp.term("self.local_peer.chain_manager.coinstate.add_block_no_validation(message.data)")
    head_eq = sp.term("message.data == X.head()".replace("X", "self.local_peer.chain_manager.coinstate.add_block_no_validation(message.data)"))
    irt0 = sp.term("header.in_response_to == 0")
    if len(bc) == 1:
        conds = [c.term for c in bc[0].pc]
        flat = []
        for c in conds:
            flat.extend(c[1] if c[0] == "and" else [c])
        if head_eq in flat and irt0 in flat and not bc[0].loops:
            ck.ok("R09.6", construct, "", bc[0].loc)
        else:
            ck.violated("R09.6", construct, "relay condition is %s" % " ∧ ".join(show(c)[:80] for c in conds), bc[0].loc)
    else:
        ck.violated("R09.6", construct, "%d relay sites" % len(bc), summ.fi.loc)
    # only consumer of DATA_BLOCK
    callers = []
    for fi in functions_mentioning(ck, "handle_block_received"):
        if fi.qualname != RP + "handle_block_received":
            s = ck.summ(fi.qualname, 0)
            if any(e.kind == "call" and RP + "handle_block_received" in e.targets for e in s.events):
                callers.append(fi.qualname)
    if callers == [RP + "handle_data_message_received"]:
        ck.ok("R09.6", "handle_block_received is called only from handle_data_message_received", "", "")
    else:
        ck.violated("R09.6", "handle_block_received is called only from handle_data_message_received", "callers: %s" % callers, "")


def r09_8(ck: Check) -> None:
    """relay = one DataMessage(DATA_BLOCK, block) to every active peer, a failing peer does not stop the others"""
    s = ck.summ(NM + "broadcast_block", 0)
    sp = Spec(s, ("self", "block"))
    calls = [e for e in s.events if e.kind == "call" and NM + "broadcast_message" in e.targets]
    if len(calls) == 1 and calls[0].term[2] == (sp.term("DataMessage(DATA_BLOCK, block)"),) and not residual(calls[0], ()) and not calls[0].loops:
        ck.ok("R09.8", "broadcast_block = broadcast_message(DataMessage(DATA_BLOCK, block)), once", "", calls[0].loc)
    else:
        ck.violated("R09.8", "broadcast_block = broadcast_message(DataMessage(DATA_BLOCK, block)), once", "%s" % [e.describe()[:120] for e in calls], s.fi.loc)
    s = ck.summ(NM + "broadcast_transaction", 0)
    sp = Spec(s, ("self", "transaction"))
    calls = [e for e in s.events if e.kind == "call" and NM + "broadcast_message" in e.targets]
    construct = "broadcast_transaction = broadcast_message(DataMessage(DATA_TRANSACTION, transaction)), once, whatever the own pool says"
    if len(calls) == 1 and calls[0].term[2] == (sp.term("DataMessage(DATA_TRANSACTION, transaction)"),) and not residual(calls[0], ()) and not calls[0].loops:
        ck.ok("R09.8", construct, "", calls[0].loc)
    else:
        ck.violated("R09.8", construct, "%s — the relay handler has admitted the transaction before it calls this function: a second admission "
                    "test here fails for every relayed transaction, which then never travels further than one hop" % [e.describe()[:160] for e in calls], s.fi.loc)
    s = ck.summ(NM + "broadcast_message", 0)
    spl = Spec(s, ("self", "m"), forall=[("p", "self.get_active_peers()")])
    sends = [e for e in s.events if e.kind == "call" and e.parts and e.parts[0] == ("a", spl.term("p"), "send_message")]
    construct = "broadcast_message: exactly one send_message(message) per active peer; a peer whose socket fails is skipped, not fatal"
    ok = (len(sends) == 1 and sends[0].term[2] == (spl.term("m"),) and list(loop_doms(sends[0])) == spl.loops and not residual(sends[0], ())
          and not any(l[2] for l in sends[0].loops) and try_inside_loops(sends[0])
          and all(swallowed_by(ck.repo, sends[0], x) is sends[0].tries[-1] for x in ("OSError", "ValueError", "KeyError")))
    if ok:
        ck.ok("R09.8", construct, "", sends[0].loc)
    else:
        ck.violated("R09.8", construct, "%s" % [e.describe()[:160] for e in sends], s.fi.loc)
    s = ck.summ(NM + "get_active_peers", 0)
    from ..engine.match import require_return
    require_return(ck, "R09.8", s, Spec(s, ("self",)), "[p for p in self.connected_peers.values() if p.hello_sent and p.hello_received]",
                   "active peers = connected peers that completed the greeting in both directions")


def r09_10(ck: Check) -> None:
    """a peer that greets becomes an active peer (broadcasts go to peers that completed the greeting in both directions): the greeting
    handler marks it so before anything that may return"""
    s = ck.summ(RP + "handle_hello_message_received", 0)
    sp = Spec(s, ("self", "header", "message"))
    st = [e for e in s.events if e.kind == "store" and e.term == sp.term("self.hello_received")]
    construct = "handle_hello_message_received sets hello_received = True unconditionally"
    if len(st) == 1 and st[0].value == C(True) and not st[0].pc and not st[0].loops:
        ck.ok("R09.10", construct, "", st[0].loc)
    else:
        ck.violated("R09.10", construct, "%s — a peer that is never marked greeted receives no relayed blocks or transactions" % [e.describe()[:120] for e in st], s.fi.loc)


def r09_9(ck: Check) -> None:
    from .common import rule_eq
    rule_eq(ck, "R09.9", "skepticoin.datatypes.Block", ["header", "transactions"], "`block == new head` compares content")
    rule_eq(ck, "R09.9", "skepticoin.datatypes.BlockHeader", ["summary", "pow_evidence"], "")
    s = ck.summ(RP + "send_message", 0)
    sp = Spec(s, ("self", "message", "prev"))
    hdr = [e for e in s.events if e.kind == "call" and "new:skepticoin.networking.messages.MessageHeader" in e.targets]
    want = sp.term("MessageHeader(int(time()), self._get_msg_id(), in_response_to=(0 if prev is None else prev.id), "
                   "context=(_new_context() if prev is None else prev.context))")
    construct = "send_message: in_response_to = id of the message answered, 0 for unsolicited messages"
    if len(hdr) == 1 and hdr[0].term == want:
        ck.ok("R09.9", construct, "a relayed block carries in_response_to == 0, a requested one does not", hdr[0].loc)
    else:
        ck.violated("R09.9", construct, "header is built as %s" % [show(e.term)[:200] for e in hdr], s.fi.loc)
    g = ck.summ(RP + "handle_get_data_message_received", 0)
    spg = Spec(g, ("self", "header", "m"))
    snd = [e for e in g.events if e.kind == "call" and RP + "send_message" in e.targets]
    if len(snd) == 1 and len(snd[0].term[2]) == 2 and snd[0].term[2][1] == spg.term("header"):
        ck.ok("R09.9", "a requested block is sent as a response to the request (prev_header = the request's header)", "", snd[0].loc)
    else:
        ck.violated("R09.9", "a requested block is sent as a response to the request (prev_header = the request's header)",
                    "%s" % [show(e.term)[:120] for e in snd], g.fi.loc)
    b = ck.summ(NM + "broadcast_message", 0)
    sb = [e for e in b.events if e.kind == "call" and e.parts and e.parts[0][0] == "a" and e.parts[0][2] == "send_message"]
    if len(sb) == 1 and len(sb[0].term[2]) == 1:
        ck.ok("R09.9", "relayed data is sent unsolicited (no prev_header)", "", sb[0].loc)
    else:
        ck.violated("R09.9", "relayed data is sent unsolicited (no prev_header)", "%s" % [show(e.term)[:120] for e in sb], b.fi.loc)


def check(ck: Check) -> None:
    ck.explanations.append(
        "C09: typestate automaton (duplicate test, orphan drop, structural validation, apply, buffer, in-state validation, publish | roll back) "
        "run over the structured flow graph of the relay handler with exceptional edges at every may-raise call that depends on the delivered "
        "message; exits in a dirty state are reported with a witness path.")
    ck.run("R09.flow", "typestate of handle_block_received over all paths incl. exceptional", lambda: r09_flow(ck))
    ck.run("R09.5", "buffer alias agreement", lambda: r09_5(ck))
    ck.run("R09.6", "relay exactly once", lambda: r09_6(ck))
    ck.run("R09.8", "relay fan-out", lambda: r09_8(ck))
    ck.run("R09.10", "greeted peers become active", lambda: r09_10(ck))
    from .c13 import r13_6
    ck.run("R13.6", "the roll-back target of a rejected relayed block exists from start-up on", lambda: r13_6(ck))
    ck.run("R09.9", "what 'outside bulk download' and 'is the new head' mean", lambda: r09_9(ck))
    ck.assume("each delivery is one run of the handler from a state satisfying what the previous run re-established (inductive reading); "
              "outside bulk download last_known_valid_coinstate is the state already served, so the rollback's pool cleanup is the identity")
    ck.assume("failures that cannot depend on the delivered block (lock, logger, sqlite environment) are not 'rejections'")
