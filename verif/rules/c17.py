"""C17 — Merkle commitment (structural clauses only): the header commits to the whole ordered id list; the exploitable
duplicate-last-element construction is absent; the two tree builders agree. Root injectivity and proof correctness are
properties of hash values and are not decided here."""
from __future__ import annotations

import ast
from typing import List, Tuple

from ..engine.match import Spec, loop_doms, require_guard, require_return, residual
from ..engine.report import Check
from ..engine.terms import mk_and, show
from .common import CONS, short

MT = "skepticoin.merkletree."


def r17_1(ck: Check) -> None:
    summ = ck.summ(CONS + "validate_block_by_itself")
    sp = Spec(summ, ("block", "now"))
    require_guard(ck, "R17.1", summ, sp, "block.header.summary.merkle_root_hash != calc_merkle_root_hash(block.transactions)",
                  "the header's commitment must equal the root over ALL transactions of the block")
    s = ck.summ(CONS + "calc_merkle_root_hash", 0)
    require_return(ck, "R17.1", s, Spec(s, ("txs",)), "get_merkle_root([t.hash() for t in txs])",
                   "root over every transaction id, in list order (no sort, set, slice or filter)")


def duplication_idioms(tree: ast.AST) -> List[Tuple[int, str]]:
    out = []
    in_annotation = set()
    for n in ast.walk(tree):
        anns = []
        if isinstance(n, ast.arg) and n.annotation is not None:
            anns.append(n.annotation)
        elif isinstance(n, (ast.FunctionDef, ast.AsyncFunctionDef)) and n.returns is not None:
            anns.append(n.returns)
        elif isinstance(n, ast.AnnAssign):
            anns.append(n.annotation)
        for a in anns:
            for x in ast.walk(a):
                in_annotation.add(id(x))
    for n in ast.walk(tree):
        if id(n) in in_annotation:
            continue
        if isinstance(n, ast.BinOp) and isinstance(n.op, ast.Add):
            l, r = ast.unparse(n.left), ast.unparse(n.right)
            if l == r and not isinstance(n.left, ast.Constant):
                out.append((n.lineno, "element concatenated with itself: %s + %s" % (l, r)))
            # lst + [lst[-1]]  /  lst + lst[-1:]
            if isinstance(n.right, ast.List) and len(n.right.elts) == 1 and _is_last_of(n.right.elts[0], l):
                out.append((n.lineno, "list padded with its own last element: %s" % ast.unparse(n)))
            if isinstance(n.right, ast.Subscript) and ast.unparse(n.right.value) == l and isinstance(n.right.slice, ast.Slice) \
                    and n.right.slice.lower is not None and ast.unparse(n.right.slice.lower) == "-1":
                out.append((n.lineno, "list padded with its own last element: %s" % ast.unparse(n)))
        if isinstance(n, ast.BinOp) and isinstance(n.op, ast.Mult):
            for a, b in ((n.left, n.right), (n.right, n.left)):
                if isinstance(b, ast.Constant) and b.value == 2 and not isinstance(a, ast.Constant):
                    out.append((n.lineno, "element repeated: %s" % ast.unparse(n)))
        if isinstance(n, ast.Call) and isinstance(n.func, ast.Attribute) and n.func.attr in ("append", "extend") and len(n.args) == 1:
            recv = ast.unparse(n.func.value)
            a = n.args[0]
            if _is_last_of(a, recv) or (isinstance(a, ast.List) and len(a.elts) == 1 and _is_last_of(a.elts[0], recv)):
                out.append((n.lineno, "list padded with its own last element: %s" % ast.unparse(n)))
        if isinstance(n, ast.Tuple) and len(n.elts) == 2 and not isinstance(n.elts[0], ast.Constant) \
                and ast.unparse(n.elts[0]) == ast.unparse(n.elts[1]):
            out.append((n.lineno, "same node used as both children: %s" % ast.unparse(n)))
    return out


def _is_last_of(node: ast.AST, recv: str) -> bool:
    return isinstance(node, ast.Subscript) and ast.unparse(node.value) == recv and ast.unparse(node.slice) == "-1"


def r17_2(ck: Check) -> None:
    ctl = duplication_idioms(ast.parse("x = H(c[0] + c[0])\nlst.append(lst[-1])\ny = lst + [lst[-1]]\nz = (n, n)\nw = chunk * 2\n"))
    if len(ctl) < 5:
        ck.unknown("R17.2", "positive control", "the duplication-idiom scan did not flag its embedded control snippet (%d of 5)" % len(ctl))
        return
    m = ck.repo.module("skepticoin.merkletree")
    hits = duplication_idioms(m.tree)
    if not hits:
        ck.ok("R17.2", "merkletree: no element is hashed with itself and no level is padded by repeating an element",
              "the construction that was exploitable in Bitcoin (CVE-2012-2459) is absent", m.path)
    for ln, what in hits:
        ck.violated("R17.2", "merkletree: %s" % what.split(":")[0], "duplicating an element makes [a,b,c] and [a,b,c,c] commit to the same root — " + what,
                    "%s:%d" % (m.path, ln))


def _appends(s, lst_term):  # type: ignore
    return [e for e in s.events if e.kind == "call" and e.parts and e.parts[0][0] == "a" and e.parts[0][2] == "append" and e.parts[0][1] == lst_term]


def r17_3(ck: Check) -> None:
    from ..engine.match import same_function
    # the private level builder of the proof tree is whatever get_merkle_tree hands its leaves to (its name is not part of the interface)
    pub = ck.summ(MT + "get_merkle_tree", 0)
    leaves = Spec(pub, ("hs",)).term("[MerkleNode(i, (), h) for (i, h) in enumerate(hs)]")
    from ..engine.match import function_value
    pv = function_value(pub)
    builder = None
    if pv is not None and pv[0] == "call" and pv[1][0] == "g" and pv[1][1] in ck.repo.functions and pv[2] == (leaves,) and not pv[3]:
        builder = pv[1][1][len(MT):]
    if builder is None:
        ck.violated("R17.3", "get_merkle_tree hands [MerkleNode(i, (), h) for (i, h) in enumerate(hs)] to the level builder",
                    "leaves carry the ids in list order with their positions — returns %s" % (show(pv)[:200] if pv is not None else None), pub.fi.loc)
        return
    ck.ok("R17.3", "get_merkle_tree hands [MerkleNode(i, (), h) for (i, h) in enumerate(hs)] to the level builder",
          "leaves carry the ids in list order with their positions (builder: %s)" % builder, pub.fi.loc)
    for fn, pair_expr, what in (
            ("get_merkle_root", "sha256d(c[0] + c[1])", "hash of left ++ right"),
            (builder, "MerkleNode(c[0].index, (c[0], c[1]))", "node with children (left, right)")):
        s = ck.summ(MT + fn, 0)
        sp = Spec(s, ("lst",))
        want = sp.term("lst[0] if len(lst) == 1 else %s([(%s if len(c) == 2 else c[0]) for c in _chunks(lst, 2)])" % (fn, pair_expr))
        construct = "%s: one element -> itself; else recurse on [%s for each pair, the odd element promoted unchanged], in order" % (fn, what)
        if same_function(s, want):
            ck.ok("R17.3", construct, "", s.fi.loc)
        else:
            ck.violated("R17.3", construct, "level construction / recursion differs: returns %s" % "; ".join(
                (show(r.cond)[:60] + " -> " + show(r.term)[:220]) for r in s.returns()), s.fi.loc)
    s = ck.summ(MT + "_chunks", 0)
    require_return(ck, "R17.3", s, Spec(s, ("lst", "n")), "(lst[i:i + n] for i in range(0, len(lst), n))", "consecutive chunks in order")
    s = ck.summ(MT + "MerkleNode.hash", 0)
    sp = Spec(s, ("self",))
    rets = s.returns()
    want = sp.term("sha256d(b''.join(c.hash() for c in self.children))")
    leaf = sp.term("self.value")
    construct = "MerkleNode.hash: leaf -> its value; inner -> sha256d(join of children hashes in order)"
    if len(rets) == 2 and rets[0].term == leaf and rets[1].term == want:
        ck.ok("R17.3", construct, "the proof tree hashes like get_merkle_root", s.fi.loc)
    else:
        ck.violated("R17.3", construct, "returns %s" % "; ".join(show(r.term) for r in rets), s.fi.loc)


def r17_4(ck: Check) -> None:
    """structural premises of 'the proof contains the entry at that position and reproduces the commitment'"""
    from .common import worker_of
    q = worker_of(ck, MT + "get_proof")
    s = ck.summ(q, 0)
    sp = Spec(s, ("n", "i"))
    rets = s.returns()
    leaf = [r for r in rets if r.term == sp.term("n") and [c.term for c in r.pc] == [sp.term("not n.children")]]
    right = "i >= n.children[1].index"
    other = "(n.children[0] if %s else n.children[1])" % right
    into = "(n.children[1] if %s else n.children[0])" % right
    simp = "MerkleNode(%s.index, (), %s.hash())" % (other, other)
    rec = "%s(%s, i)" % (q.split(".")[-1], into)
    want = sp.term("MerkleNode(n.index, (%s, %s) if %s else (%s, %s))" % (simp, rec, right, rec, simp))
    inner = [r for r in rets if r.term == want]
    from ..engine.match import same_function
    whole = ("ife", sp.term("not n.children"), sp.term("n"), want)
    if same_function(s, whole):
        leaf, inner, rets = [rets[0]], [rets[0]], rets[:2] if len(rets) >= 2 else [rets[0], rets[0]]
    construct = "get_proof: descend into the child whose leaf range contains the position; replace the sibling subtree by a leaf carrying its hash; keep left/right order"
    if len(rets) == 2 and len(leaf) == 1 and len(inner) == 1:
        ck.ok("R17.4", construct, "with node.index = lowest leaf position of the subtree (R17.3) the path ends at the requested entry and every level hashes "
              "the same ordered pair as the full tree", s.fi.loc)
    else:
        ck.violated("R17.4", construct, "get_proof returns %s" % "; ".join(show(r.term)[:300] for r in rets), s.fi.loc)


def check(ck: Check) -> None:
    ck.explanations.append(
        "C17 (partly): decides that the header commitment is checked against the root over the whole ordered id list, that no hash input "
        "duplicates an element and no level is padded by repetition, and that the root builder and the proof-tree builder have the same "
        "recursion skeleton. Root injectivity under list edits and proof verification are properties of hash values: not decided.")
    ck.run("R17.1", "header commits to the whole ordered id list", lambda: r17_1(ck))
    ck.run("R17.2", "duplicate-last-element construction absent", lambda: r17_2(ck))
    ck.run("R17.3", "sibling agreement of the two builders", lambda: r17_3(ck))
    ck.run("R17.4", "proof extraction: path selection and sibling hashing", lambda: r17_4(ck))
    from .c08 import r08_8
    ck.run("R08.8", "a reloaded block has its transactions in the order that was committed to (unordered reads rely on rowid order)", lambda: r08_8(ck))
    ck.note("not decided: that proofs verify on concrete lists (only the structural premises R17.3/R17.4); second-preimage resistance between leaves and inner nodes (no domain separation: "
            "root([a,b,c]) == root([H(a||b), c]))")
