"""C07 — Canonical identity: one encoding per value, id is the hash of it."""
from __future__ import annotations

import ast
from typing import Any, Dict, List, Optional, Set, Tuple

from ..engine.codec import Codec, Extractor, Prim, show_prim
from ..engine.match import Spec, loop_doms, require_return, residual
from ..engine.repo import AnalysisError, dotted
from ..engine.report import Check
from ..engine.terms import C, conjuncts, lin_parts, show, subterms
from .common import functions_mentioning, only_called_from, short

DT = "skepticoin.datatypes."
SG = "skepticoin.signing."
MS = "skepticoin.networking.messages."
CONSENSUS_CLASSES = [DT + n for n in ("OutputReference", "Input", "Output", "Transaction", "PowEvidence", "BlockSummary", "BlockHeader", "Block")] + \
                    [SG + n for n in ("Signature", "SignableEquivalent", "CoinbaseData", "SECP256k1Signature", "PublicKey", "SECP256k1PublicKey")]

# wire-message sites where the reader deliberately does not check what the writer emits as a constant
# (forward compatibility of non-consensus messages; encode->decode is still the identity)
LENIENT_OK = {
    (MS + "MessageHeader", 0): "protocol version byte, ignored by design (comment in source); not a consensus object",
    (MS + "MessageHeader", 5): "32 reserved bytes for later protocol versions",
    (MS + "HelloMessage", 0): "protocol version byte, ignored by design",
    (MS + "HelloMessage", 8): "256 reserved bytes for later protocol versions",
}

_EX_CACHE: Dict[int, Extractor] = {}


def extractor(ck: Check) -> Extractor:
    k = id(ck.repo)
    if k not in _EX_CACHE:
        _EX_CACHE.clear()
        _EX_CACHE[k] = Extractor(ck.repo, ck.walker)
    return _EX_CACHE[k]


def effective_writer(ex: Extractor, c: Codec) -> Tuple[Optional[List[Prim]], Optional[str]]:
    """writer sequence with the tag consumed by a dispatching base removed; error text if the tag does not match"""
    if c.writer is None:
        return None, None
    w = list(c.writer)
    base = ex.dispatching_base(c.q)
    if base is not None:
        tag = ex.tag_of(c.q)
        if tag is None:
            return w, "class is not in the dispatch table of %s" % short(base.q)
        if not w or w[0] != ("const", tag):
            return w, "writer does not start with the tag %s under which %s dispatches to it (starts with %s)" % (
                tag.hex(), short(base.q), show_prim(w[0]) if w else "nothing")
        w = w[1:]
    return w, None


def attr_elem_class(ck: Check, cls_q: str, attr: str) -> Optional[str]:
    t = ck.walker.typer.attr_type(cls_q, attr)
    if t and t[0] == "L" and t[1] and t[1][0] == "C":
        return t[1][1]
    if t and t[0] == "C":
        return t[1]
    return None


def r07_1_2(ck: Check, consensus_only: bool = False, rule: str = "R07.1") -> None:
    ex = extractor(ck)
    n_classes = 0
    n_fields = 0
    for q, c in sorted(ex.codecs.items()):
        if consensus_only and q not in CONSENSUS_CLASSES:
            continue
        where = c.cls.module.path + ":%d" % c.cls.node.lineno
        for pr in c.problems:
            ck.unknown(rule, "%s codec" % short(q), "serializer left the analysed idiom set: %s" % pr, where)
        if c.dispatch is not None or c.reader is None or c.writer is None:
            continue
        n_classes += 1
        w, err = effective_writer(ex, c)
        if err:
            ck.violated("R07.4", "%s: tag" % short(q), err, where)
            continue
        assert w is not None
        r = c.reader
        construct = "%s: reader mirrors writer [%s]" % (short(q), ", ".join(show_prim(p) for p in w))
        if len(w) != len(r):
            ck.violated(rule, construct, "writer emits %d fields [%s], reader consumes %d [%s]" % (
                len(w), ", ".join(show_prim(p) for p in w), len(r), ", ".join(show_prim(p) for p in r)), where)
            continue
        bad: List[str] = []
        for i, (pw, pr_, arg) in enumerate(zip(w, r, c.reader_args)):
            n_fields += 1
            kw, kr = pw[0], pr_[0]
            # constant vs lenient / ignored
            if kw == "const" and kr in ("lenient", "ignored"):
                if pr_[1] != len(pw[1]):
                    bad.append("position %d: writer emits %d constant bytes, reader skips %d" % (i, len(pw[1]), pr_[1]))
                elif (q, i) in LENIENT_OK and q not in CONSENSUS_CLASSES:
                    ck.note("%s position %d: %s" % (short(q), i, LENIENT_OK[(q, i)]))
                else:
                    bad.append("position %d: reader does not check %s that the writer emits (a byte with more than one accepted value)"
                               % (i, show_prim(pw)))
                continue
            if kr in ("lenient", "ignored"):
                bad.append("position %d: reader discards %s, writer emits %s" % (i, show_prim(pr_), show_prim(pw)))
                continue
            if kw == "const" or kr == "const":
                if pw != pr_:
                    bad.append("position %d: writer %s vs reader %s" % (i, show_prim(pw), show_prim(pr_)))
                continue
            if kw != kr and not (kw == "nested" and kr == "bytag"):
                bad.append("position %d: writer %s vs reader %s" % (i, show_prim(pw), show_prim(pr_)))
                continue
            wfield = pw[-1]
            rfield = c.ctor.get(arg) if arg else None
            if rfield != wfield:
                bad.append("position %d: writer emits attribute %s, the value read there ends up in attribute %s" % (i, wfield, rfield))
                continue
            if kw == "uint" and (pw[1], pw[2]) != (pr_[1], pr_[2]):
                bad.append("position %d (%s): writer %s vs reader %s" % (i, wfield, show_prim(pw), show_prim(pr_)))
            if kw == "lp" and pw[1] != pr_[1]:
                bad.append("position %d (%s): length prefix width differs" % (i, wfield))
            if kw in ("list", "nested") and kr != "bytag":
                t = attr_elem_class(ck, q, wfield)
                if t is not None and pr_[1] is not None and t != pr_[1] and pr_[1] not in ck.repo.mro(t) and t not in ck.repo.mro(pr_[1]):
                    bad.append("position %d (%s): attribute holds %s, reader decodes %s" % (i, wfield, short(t), short(pr_[1])))
        if bad:
            for b in bad:
                ck.violated(rule, "%s: %s" % (short(q), b.split(":")[0]), b, where)
        else:
            ck.ok(rule, construct, "same primitives, widths, byte order; each value read flows to the attribute written at that position", where)
    ck.stats["codec_classes"] = n_classes
    ck.stats["codec_field_positions"] = n_fields
    if not consensus_only:
        ck.expect_count(rule, "classes with reader and writer", n_classes, 22)
        ck.expect_count(rule, "field positions", n_fields, 60)


def ctor_constraints(ck: Check, q: str) -> Dict[str, Tuple[str, int]]:
    """constructor guards of the forms len(p) != N  and  p outside [0, M]."""
    out: Dict[str, Tuple[str, int]] = {}
    mi = ck.repo.find_method(q, "__init__")
    if mi is None:
        return out
    s = ck.summ(mi.qualname, 0)
    for ev in s.raises():
        for cj in residual(ev, ()):
            for d in (cj.term[1] if cj.term[0] == "or" else [cj.term]):
                if d[0] != "cmpz":
                    continue
                atoms, k = lin_parts(d[2])
                if len(atoms) != 1:
                    continue
                (a, coef), = atoms.items()
                if a[0] == "call" and a[1] == ("g", "builtin:len") and a[2][0][0] == "v" and d[1] == "!=" and coef == 1:
                    out[a[2][0][1]] = ("len", -k)
                elif a[0] == "v" and coef == 1 and d[1] == ">":        # p - M > 0
                    out[a[1]] = ("max", -k)
    return out


def r07_3(ck: Check) -> None:
    ex = extractor(ck)
    n = 0
    for q in CONSENSUS_CLASSES:
        c = ex.codecs.get(q)
        if c is None or not c.reader:
            continue
        cons = ctor_constraints(ck, q)
        for p, arg in zip(c.reader, c.reader_args):
            if arg is None or arg not in cons:
                continue
            kind, v = cons[arg]
            construct = "%s(%s): constructor range = codec range" % (short(q), arg)
            where = c.cls.module.path + ":%d" % c.cls.node.lineno
            if kind == "len" and p[0] == "raw":
                n += 1
                if p[1] == v:
                    ck.ok("R07.3", construct, "length %d in constructor and reader" % v, where)
                else:
                    ck.violated("R07.3", construct, "constructor requires %d bytes, reader takes %s" % (v, p[1]), where)
            elif kind == "max" and p[0] == "uint":
                n += 1
                if v == 256 ** p[1] - 1:
                    ck.ok("R07.3", construct, "0..2^%d-1 in constructor and %d-byte field" % (8 * p[1], p[1]), where)
                else:
                    ck.violated("R07.3", construct, "constructor allows up to %d, the field holds up to %d" % (v, 256 ** p[1] - 1), where)
    # the five pairs confirmed on the pinned tree: a constructor that stops refusing what its codec cannot carry admits values without
    # an encoding (a 31-byte id is written as 31 bytes and read back as 32, shifted into the next field)
    seen_pairs = {o.construct for o in ck.obligations if o.rule == "R07.3"}
    for cls_, arg_ in (("datatypes.OutputReference", "hash"), ("datatypes.OutputReference", "index"), ("signing.CoinbaseData", "height"),
                       ("signing.SECP256k1Signature", "signature"), ("signing.SECP256k1PublicKey", "public_key")):
        construct = "%s(%s): constructor range = codec range" % (cls_, arg_)
        if construct not in seen_pairs and ("skepticoin." + cls_) in ex.codecs:
            ck.violated("R07.3", construct, "the constructor no longer restricts `%s` to what the codec carries: a value outside it is encoded with "
                        "another width (or not at all) than the reader consumes — it does not survive the round trip and shifts what follows"
                        % arg_, "")
            n += 1
    ck.expect_count("R07.3", "constructor/codec range pairs", n, 5)
    ck.note("CoinbaseData accepts a 256-byte payload that a u8 length cannot encode (a value without an encoding; unreachable through the "
            "validator's 200-byte limit) — cross-reference, not armed")


def datatypes_table(ck: Check) -> Dict[bytes, str]:
    m = ck.repo.module("skepticoin.networking.messages")
    node = m.assign_nodes.get("DATATYPES")
    if not isinstance(node, ast.Dict):
        raise AnalysisError("DATATYPES is not a dict literal")
    out: Dict[bytes, str] = {}
    for k_, v in zip(node.keys, node.values):
        kk = ck.repo.fold(k_, m, None, {})
        r = ck.repo.resolve_name_node(m, v, None)
        if not (isinstance(kk, bytes) and r and r[0] == "cls"):
            raise AnalysisError("DATATYPES entry not understood")
        if kk in out:
            raise AnalysisError("duplicate DATATYPES key")
        out[kk] = r[1]
    return out


def r07_4(ck: Check) -> None:
    ex = extractor(ck)
    n = 0
    for q, c in sorted(ex.codecs.items()):
        d = c.dispatch
        if d is None:
            continue
        n += 1
        where = "%s:%d" % (c.cls.module.path, d.line)
        tags = [t for t, _ in d.table]
        subs = [s for _, s in d.table]
        concrete = [s for s in ck.repo.subclasses(q) if ex.codecs.get(s) is not None and ex.codecs[s].writer is not None]
        problems = []
        if len(set(tags)) != len(tags):
            problems.append("a tag maps to two classes")
        if len(set(subs)) != len(subs):
            problems.append("a class is reachable under two tags (two encodings of one value)")
        if any(len(t) != d.width for t in tags):
            problems.append("tag width differs from the %d bytes read" % d.width)
        if sorted(subs) != sorted(concrete):
            problems.append("table classes %s differ from the concrete subclasses %s" % ([short(s) for s in subs], [short(s) for s in concrete]))
        if not d.fallthrough_raises:
            problems.append("unknown tags do not raise")
        for t, s in d.table:
            w = ex.codecs[s].writer if s in ex.codecs else None
            if not w or w[0] != ("const", t):
                problems.append("%s does not write tag %s first" % (short(s), t.hex()))
        construct = "%s dispatch: {%s} is a bijection onto its concrete subclasses, unknown tags raise" % (
            short(q), ", ".join("%s->%s" % (t.hex(), s.split(".")[-1]) for t, s in d.table))
        if problems:
            ck.violated("R07.4", construct, "; ".join(problems), where)
        else:
            ck.ok("R07.4", construct, "", where)
    ck.expect_count("R07.4", "dispatch tables", n, 3)
    # DATATYPES and DataMessage construction sites
    table = datatypes_table(ck)
    dm = MS + "DataMessage"
    sites = 0
    for fi in functions_mentioning(ck, "DataMessage("):
        s = ck.summ(fi.qualname, 0)
        for ev in s.events:
            if ev.kind == "call" and ("new:" + dm) in ev.targets and not ev.chain:
                args = ev.term[2]
                if len(args) != 2:
                    continue
                if fi.qualname == dm + ".stream_deserialize":
                    continue
                sites += 1
                tag = args[0]
                ty = s.norm.type_of(args[1], s.scope)
                construct = "%s: DataMessage(%s, %s)" % (short(fi.qualname), show(tag), show(args[1]))
                if tag[0] != "c":
                    # a tag taken from a run-time value is as good as a constant where the path pins it to one
                    pins = [x for c_ in ev.pc for x in conjuncts(c_.term) if x[0] == "cmp" and x[1] == "==" and tag in (x[2], x[3])
                            and (x[3] if x[2] == tag else x[2])[0] == "c"]
                    if pins:
                        tag = pins[0][3] if pins[0][2] == tag else pins[0][2]
                    elif ty is not None and ty[0] == "C":
                        ck.violated("R07.4", construct, "the payload is a %s whatever the tag says: under every tag but the one DATATYPES files that "
                                    "class under, the receiver decodes another class from these bytes (and the message does not survive the round "
                                    "trip)" % short(ty[1]), ev.loc)
                        continue
                if tag[0] == "c" and tag[1] in table and ty is not None and ty[0] == "C" and ty[1] == table[tag[1]]:
                    ck.ok("R07.4", construct, "tag and payload class agree with DATATYPES", ev.loc)
                elif tag[0] == "c" and tag[1] in table and ty is not None and ty[0] == "C":
                    ck.violated("R07.4", construct, "tag %s selects %s on decode but the payload is a %s" % (
                        tag[1].hex(), short(table[tag[1]]), short(ty[1])), ev.loc)
                else:
                    ck.unknown("R07.4", construct, "payload type or tag not resolved", ev.loc)
    ck.expect_count("R07.4", "DataMessage construction sites", sites, 3)


def r07_10(ck: Check, rule: str = "R07.10") -> None:
    """the writers of the wire messages write several fields as raw bytes of a length only convention fixes (ids, tags); the mirror rule
    R07.1 cannot compare those with the reader's fixed widths. What the reader consumes is therefore compared, field by field, with the
    layout recorded on the pinned tree: a reader that takes 31 bytes for an id leaves the 32nd in the stream, the message does not
    survive the round trip and what an unmodified peer sends is mis-framed."""
    import json
    import os
    from ..engine.report import VERIF_ROOT
    from .c18 import message_classes, wire_signature
    ref = json.load(open(os.path.join(VERIF_ROOT, "reference", "wire_format.json"))).get("messages", {})
    got = json.loads(json.dumps(wire_signature(ck, message_classes(ck))))
    n = 0
    for cls, want in sorted(ref.items()):
        n += 1
        construct = "%s: the reader consumes the recorded layout" % cls
        have = got.get(cls)
        if have is None:
            ck.violated(rule, construct, "the class or its decoder is gone", "")
        elif have.get("reader") != want.get("reader") or have.get("union") != want.get("union") or have.get("tag") != want.get("tag"):
            ck.violated(rule, construct, "recorded %s, the tree reads %s — bytes written by this node's own encoder (and by every unmodified peer) "
                        "are split differently on the way in" % (json.dumps({k: want.get(k) for k in ("tag", "reader", "union") if want.get(k)})[:200],
                                                                 json.dumps({k: have.get(k) for k in ("tag", "reader", "union") if have.get(k)})[:200]), "")
        else:
            ck.ok(rule, construct, json.dumps(want.get("reader") or want.get("union"))[:100], "")
    ck.expect_count(rule, "message classes", n, 12)
    # a constant default of a constructor parameter that is written as raw bytes has the width the reader consumes
    ex = extractor(ck)
    for cls in message_classes(ck):
        c = ex.codecs.get(cls)
        init = ck.repo.functions.get(cls + ".__init__")
        if c is None or init is None or not c.reader or not c.writer:
            continue
        fields = [p for p in c.writer if p[0] != "const"]
        reads = [p for p in c.reader if p[0] not in ("const", "ignored", "lenient")]
        if len(fields) != len(reads):
            continue
        for w_, r_ in zip(fields, reads):
            attr = w_[-1]
            param = next((k for k, v in (c.ctor or {}).items() if v == attr), attr)
            d = init.defaults().get(param)
            if d is None or r_[0] != "raw" or not isinstance(r_[1], int):
                continue
            try:
                val = ck.repo.fold(d, init.module, init, {})
            except Exception:   # noqa
                continue
            if isinstance(val, bytes):
                construct = "%s: the default of `%s` has the %d bytes the reader consumes" % (short(cls), param, r_[1])
                if len(val) == r_[1]:
                    ck.ok(rule, construct, "", init.loc)
                else:
                    ck.violated(rule, construct, "the default is %d bytes long: a message built with it is written with %d bytes in that field and read "
                                "back with %d — it does not survive the round trip" % (len(val), len(val), r_[1]), init.loc)


def r07_5(ck: Check) -> None:
    ex = extractor(ck)
    for q, want_end, what in ((DT + "Transaction", "all", "the whole transaction"), (DT + "Block", "header", "exactly the header")):
        c = ex.codecs[q]
        where = c.reader_fi.loc if c.reader_fi else ""
        construct = "%s.stream_deserialize: cached id = sha256d of the bytes consumed decoding %s" % (short(q), what)
        sp = c.span
        if not sp or "param" not in sp:
            ck.violated("R07.5", construct, "no id is computed from the consumed byte span (or it is not passed to the constructor)", where)
            continue
        problems = []
        if not sp.get("ok"):
            problems.append("the span is not `f.read(end - start)` between two f.tell() positions after rewinding with f.seek(start)")
        else:
            if sp["reads_before_start"] != 0:
                problems.append("span does not start at the object's first byte")
            if want_end == "all" and sp["reads_after_end"] != 0:
                problems.append("span ends before the whole object has been decoded (%d reads after it)" % sp["reads_after_end"])
            if want_end == "header":
                hdr = [i for i, p_ in enumerate(c.reader or []) if p_[:2] == ("nested", DT + "BlockHeader")]
                if not (sp["reads_in_span"] == 1 and hdr == [0]):
                    problems.append("span does not cover exactly the header (%d reads inside)" % sp["reads_in_span"])
        if c.ctor.get(sp["param"]) != "cached_hash":
            problems.append("the value is not stored as the cached id")
        if problems:
            ck.violated("R07.5", construct, "; ".join(problems), where)
        else:
            ck.ok("R07.5", construct, "f.tell() before/after, seek back, read(end-start), double SHA-256", where)
    # hash methods
    s = ck.summ(DT + "Transaction.hash", 0)
    require_return(ck, "R07.5", s, Spec(s, ("self",)), "self.cached_hash or sha256d(self.serialize())", "transaction id = cached or recomputed double SHA-256")
    s = ck.summ(DT + "Block.hash", 0)
    require_return(ck, "R07.5", s, Spec(s, ("self",)), "self.cached_hash or self.header.hash()", "block id = cached or header id")
    s = ck.summ(DT + "BlockHeader.hash", 0)
    require_return(ck, "R07.5", s, Spec(s, ("self",)), "sha256d(self.serialize())", "header id = double SHA-256 of its encoding")
    s = ck.summ("skepticoin.serialization.Serializable.serialize", 0)
    sp = Spec(s, ("self",))
    rets = s.returns()
    wr = [e for e in s.events if e.kind == "call" and e.parts and e.parts[0] == ("a", ("v", s.fi.params[0]), "stream_serialize")]
    if len(rets) == 1 and rets[0].term[0] == "call" and rets[0].term[1][0] == "a" and rets[0].term[1][2] == "getvalue" and len(wr) == 1 \
            and wr[0].term[2] == (rets[0].term[1][1],):
        ck.ok("R07.5", "Serializable.serialize = bytes written by stream_serialize into a fresh buffer", "", s.fi.loc)
    else:
        ck.violated("R07.5", "Serializable.serialize = bytes written by stream_serialize into a fresh buffer", "serialize() changed shape", s.fi.loc)
    s = ck.summ("skepticoin.serialization.Serializable.deserialize", 0)
    spd = Spec(s, ("cls", "b"))
    require_return(ck, "R07.5", s, spd, "cls.stream_deserialize(BytesIO(b))", "deserialize decodes from the first byte of exactly the bytes given")
    seeks = [e for e in s.events if e.kind == "call" and e.parts and e.parts[0][0] == "a" and e.parts[0][2] == "seek"]
    if all(e.term[2] == (C(0),) for e in seeks):
        ck.ok("R07.5", "Serializable.deserialize starts at offset 0", "", s.fi.loc)
    else:
        ck.violated("R07.5", "Serializable.deserialize starts at offset 0", "seeks to %s" % [show(e.term) for e in seeks], s.fi.loc)
    # who supplies a pre-computed id to a constructor
    allowed = {DT + "Transaction.stream_deserialize", DT + "Block.stream_deserialize", "skepticoin.blockstore.BlockStore.read_blocks_from_disk"}
    suppliers = 0
    for m in ck.repo.modules.values():
        owner: Dict[int, str] = {}
        for fi in ck.repo.all_functions():
            if fi.module is m:
                for n in ast.walk(fi.node):
                    owner[id(n)] = fi.qualname
        for n in ast.walk(m.tree):
            if not isinstance(n, ast.Call):
                continue
            fn = owner.get(id(n), m.name)
            fi0 = ck.repo.functions.get(fn)
            r = ck.repo.resolve_name_node(m, n.func, fi0)
            target = r[1] if r and r[0] == "cls" else None
            if target is None and isinstance(n.func, ast.Name) and fi0 is not None and fi0.is_classmethod and fi0.params and n.func.id == fi0.params[0] \
                    and fi0.cls is not None:
                target = fi0.cls.qualname
            if target not in (DT + "Transaction", DT + "Block"):
                continue
            kw = {k.arg for k in n.keywords}
            gives = len(n.args) >= 3 or ("cached_hash" in kw) or ("hash" in kw)
            if not gives:
                continue
            suppliers += 1
            construct = "%s supplies a pre-computed id to %s(...)" % (short(fn), target.split(".")[-1])
            if fn in allowed or only_called_from(ck, fn, allowed, 0):
                ck.ok("R07.5", construct, "one of the three provenance-checked suppliers (or a helper only they call)", "%s:%d" % (m.path, n.lineno))
            else:
                ck.violated("R07.5", construct, "a new site hands a pre-computed id to a constructor; only the two decoders (raw-span hash) and the "
                            "block store reader (stored canonical hashes) are provenance-checked", "%s:%d" % (m.path, n.lineno))
    ck.expect_count("R07.5", "id supplier sites", suppliers, 4)


def r07_8(ck: Check) -> None:
    """`serialize()` / `deserialize(bytes)` are the generic wrappers of the Serializable base (fresh buffer -> stream codec -> bytes): the
    stream codecs checked above are what every byte-level entry point runs. A class that overrides a wrapper (a memo of encoded bytes, a
    shortcut that keeps its input) has a second encoder / decoder the codec rules never see."""
    base = "skepticoin.serialization.Serializable"
    n = 0
    bad = 0
    for q, ci in sorted(ck.repo.classes.items()):
        if q == base or not any(a.endswith("Serializable") for a in _ancestors(ck, q)):
            continue
        n += 1
        for nm in ("serialize", "deserialize"):
            fi = ck.repo.functions.get("%s.%s" % (q, nm))
            if fi is not None:
                bad += 1
                ck.violated("R07.8", "%s uses the generic %s() wrapper" % (short(q), nm),
                            "the class defines its own %s(): bytes can now be produced / accepted without going through the stream codec "
                            "(e.g. remembered input bytes returned as the encoding)" % nm, fi.loc)
    s = ck.summ(base + ".serialize", 0)
    ok1 = [r for r in s.returns() if r.term[0] == "call" and r.term[1][0] == "a" and r.term[1][2] == "getvalue"]
    calls = [e for e in s.events if e.kind == "call" and e.parts and e.parts[0] == ("a", ("v", s.fi.params[0]), "stream_serialize")]
    if len(ok1) == 1 and len(s.returns()) == 1 and len(calls) == 1:
        ck.ok("R07.8", "Serializable.serialize = stream_serialize into a fresh buffer, its content returned", "", s.fi.loc)
    else:
        ck.violated("R07.8", "Serializable.serialize = stream_serialize into a fresh buffer, its content returned",
                    "returns %s" % [show(r.term)[:80] for r in s.returns()], s.fi.loc)
    if not bad:
        ck.ok("R07.8", "no Serializable subclass overrides serialize() / deserialize()", "%d classes" % n, "")
    ck.expect_count("R07.8", "Serializable subclasses", n, 20)


def r07_9(ck: Check) -> None:
    """objects that carry a remembered id (Transaction, Block, BlockHeader: cached_hash) come from their constructor or their decoder,
    where the id is either absent or computed from the consumed bytes. A shallow copy that is then edited keeps the OLD id for NEW content."""
    ctl = ast.parse("import copy\ndef f(tx):\n    t2 = copy.copy(tx)\n    t2.inputs = []\n    return t2\n")
    if len(_copies(ctl)) != 1:
        ck.unknown("R07.9", "positive control", "the copy scan did not flag its control snippet")
        return
    n = 0
    for m in ck.repo.modules.values():
        for line, text in _copies(m.tree):
            n += 1
            ck.violated("R07.9", "%s:%d %s" % (m.path.replace(ck.repo.root + "/", ""), line, text),
                        "a copied value object keeps its remembered id while its content can be changed: the same id for different bytes "
                        "(construct a new object instead)", "%s:%d" % (m.path, line))
    if not n:
        ck.ok("R07.9", "no copy.copy / copy.deepcopy / dataclasses.replace / __new__ of value objects anywhere in the package", "%d modules" % len(ck.repo.modules), "")


def _copies(tree: ast.AST) -> List[Tuple[int, str]]:
    out = []
    names = {"copy", "deepcopy", "replace"}
    imported: Set[str] = set()
    for n in ast.walk(tree):
        if isinstance(n, ast.ImportFrom) and n.module in ("copy", "dataclasses"):
            for a in n.names:
                if a.name in names:
                    imported.add(a.asname or a.name)
    for n in ast.walk(tree):
        if isinstance(n, ast.Call):
            d = dotted(n.func) or ""
            if d in ("copy.copy", "copy.deepcopy", "dataclasses.replace") or (isinstance(n.func, ast.Name) and n.func.id in imported) \
                    or d.endswith(".__new__") or (d.endswith("._replace") and False):
                out.append((n.lineno, ast.unparse(n)[:60]))
    return out


def _ancestors(ck: Check, q: str) -> List[str]:
    out: List[str] = []
    todo = [q]
    while todo:
        c = ck.repo.classes.get(todo.pop())
        if c is None:
            continue
        for b in c.bases:
            if isinstance(b, str) and b not in out:
                out.append(b)
                todo.append(b)
    return out


def r07_6(ck: Check) -> None:
    """every decoder whose number of reads is data dependent must compare the consumed bytes with the paired encoder's output."""
    ex = extractor(ck)
    found = 0
    for fi in ck.repo.all_functions():
        if "deserialize" not in fi.name:
            continue
        has_while_read = False
        for n in ast.walk(fi.node):
            if isinstance(n, ast.While):
                for c in ast.walk(n):
                    if isinstance(c, ast.Call) and (dotted(c.func) or "").split(".")[-1] in ("safe_read", "read"):
                        has_while_read = True
        if not has_while_read and "vlq" not in fi.name:
            continue            # (the variable-length integer decoder is a subject whatever its loop looks like)
        found += 1
        s = ck.summ(fi.qualname, 0)
        construct = "%s: decoded value is re-encoded and compared with the bytes consumed" % short(fi.qualname)
        rets = s.returns()
        reads = [e for e in s.events if e.kind == "call" and "skepticoin.serialization.safe_read" in e.targets]
        ok = False
        why = "no canonicality guard"
        for ev in s.raises():
            rest = residual(ev, ())
            if len(rest) != 1 or rest[0].term[0] != "cmp" or rest[0].term[1] != "!=":
                continue
            a, b = rest[0].term[2], rest[0].term[3]
            for enc, cons in ((a, b), (b, a)):
                # enc = BUF.getvalue() where stream_serialize_vlq(BUF, result) was called; cons = join(list of all reads)
                if not (enc[0] == "call" and enc[1][0] == "a" and enc[1][2] == "getvalue"):
                    continue
                buf = enc[1][1]
                encs = [e for e in s.events if e.kind == "call" and "skepticoin.serialization.stream_serialize_vlq" in e.targets
                        and e.term[2][0] == buf and e.seq < ev.seq and not residual(e, ())]
                if not encs:
                    why = "the compared buffer is not filled by the paired encoder"
                    continue
                value = encs[0].term[2][1]
                if not (cons[0] == "call" and cons[1][0] == "a" and cons[1][2] == "join" and len(cons[2]) == 1 and cons[2][0][0] == "new"):
                    why = "the other side of the comparison is not the join of the consumed bytes"
                    continue
                lst = cons[2][0]
                appended = [e for e in s.events if e.kind == "call" and e.parts and e.parts[0] == ("a", lst, "append")]
                if not reads or not all(any(ap.term[2] == (r.term,) and ap.loops == r.loops and not residual(ap, ()) for ap in appended) for r in reads):
                    why = "not every byte read is recorded in the compared list"
                    continue
                if not rets or not all(r.term == value and r.seq > ev.seq and any(c.prov == "raise-surv" and c.line == rest[0].line for c in r.pc)
                                       for r in rets):
                    why = "a return does not pass the guard, or returns something else than the re-encoded value"
                    continue
                ok = True
        if not ok and "vlq" in fi.name:
            why_b = _vlq_canonical_by_length(ck, s)
            if why_b is None:
                ck.ok("R07.6", "%s: the number of octets consumed equals the number the encoder writes for the decoded value" % short(fi.qualname),
                      "big-endian base-128 digits with the recorded arithmetic: encodings of one value differ only in leading zero digits, so "
                      "one length means one encoding", fi.loc)
                continue
        if ok:
            ck.ok("R07.6", construct, "the variable-length integer has exactly one accepted encoding: the encoder's", fi.loc)
        else:
            ck.violated("R07.6", construct, "a length-prefix / height with several accepted encodings gives one content several ids — " + why, fi.loc)
    ck.expect_count("R07.6", "decoders with a data-dependent number of reads", found, 1)


def _vlq_canonical_by_length(ck: Check, s: Any) -> Optional[str]:
    """the other sound way to have a single accepted encoding: count the octets read and refuse unless the count is the one the encoder
    uses for the decoded value (`bit_length() // 7 + 1`, R18.5). Sound only together with the digit arithmetic itself - one octet per
    iteration, value = 128 * value + (octet mod 128), stop at the first octet below 128 - which is therefore checked here too (with the
    re-encoding form a wrong arithmetic refuses everything and cannot survive the tests; with this form it could).
    Returns None when every part is as required, else what is not."""
    from .common import loop_updates
    fi = s.fi
    try:
        head, ups, _fi = loop_updates(ck, fi.qualname, 0)
    except Exception as e:   # noqa
        return "no single decoding loop (%s)" % str(e)[:60]
    reads = [e for e in s.events if e.kind == "call" and "skepticoin.serialization.safe_read" in e.targets]
    if len(reads) != 1 or len(reads[0].loops) != 1 or reads[0].term[2][1:2] != (C(1),) or residual(reads[0], ()):
        return "not exactly one unconditional one-octet read per iteration"
    counters = [n for n, v in ups.items() if v == ("lin", ((("lv", n, 0), 1),), 1)]
    values = [n for n, v in ups.items() if v[0] == "lin" and v[2] == 0 and dict(v[1]).get(("lv", n, 0)) == 128 and len(v[1]) == 2
              and any(a[0] == "op" and a[1] == "mod" and a[3] == C(128) and k == 128 for a, k in v[1])]
    if len(counters) != 1 or len(values) != 1:
        return "no octet counter incremented by one per iteration next to value = 128 * value + 128 * (octet mod 128)"
    cn, rn = counters[0], values[0]
    raw = ck.repo.raw_function(fi)
    inits = {}
    for st in raw.body:
        if isinstance(st, (ast.Assign, ast.AnnAssign)):
            for t in (st.targets if isinstance(st, ast.Assign) else [st.target]):
                if isinstance(t, ast.Name) and t.id in (cn, rn):
                    inits.setdefault(t.id, []).append(st.value)
    for n in (cn, rn):
        if len(inits.get(n, [])) != 1 or not (isinstance(inits[n][0], ast.Constant) and inits[n][0].value == 0 and not isinstance(inits[n][0].value, bool)):
            return "%s does not start at 0" % n
    loops_ = [n for n in ast.walk(raw) if isinstance(n, ast.While)]
    if len(loops_) != 1:
        return "more than one loop"
    brk = [n for n in ast.walk(loops_[0]) if isinstance(n, ast.If) and any(isinstance(x, ast.Break) for x in n.body)]
    if len(brk) != 1 or ast.unparse(brk[0].test).replace(" ", "") not in ("b<128", "b<=127", "128>b", "127>=b"):
        return "the loop does not stop exactly at the first octet below 128"
    if not any(isinstance(st, ast.AugAssign) and isinstance(st.target, ast.Name) and st.target.id == rn and isinstance(st.op, ast.Add)
               and ast.unparse(st.value).replace(" ", "") in ("b%128", "(b%128)", "b&127", "b&0x7f", "(b&127)") for st in loops_[0].body):
        return "the last octet's digit is not added before the loop is left"
    rs = s.raises()
    if len(rs) != 1:
        return "%d raise statements" % len(rs)
    rest = residual(rs[0], ())
    if len(rest) != 1 or rest[0].term[0] != "cmpz" or rest[0].term[1] != "!=" or rest[0].term[2][0] != "lin":
        return "the guard is not a comparison of the octet count with the encoder's length"
    atoms = {}
    for a, k in rest[0].term[2][1]:
        atoms[(a[0], a[1]) if a[0] == "lv" else a[:2] + (a[2][1][1][:2] if a[0] == "op" and a[2][0] == "call" and a[2][1][0] == "a" and a[2][1][1][0] == "lv" else ("?",)) + a[3:]] = k
    const = rest[0].term[2][2]
    sign = atoms.get(("lv", cn))
    want_len = ("op", "floordiv", "lv", rn, C(7))
    if sign not in (1, -1) or atoms.get(want_len) != -sign or const != -sign or len(atoms) != 2:
        return "the guard does not compare the octet count with value.bit_length() // 7 + 1"
    bl = [a for a, _k in rest[0].term[2][1] if a[0] == "op"][0][2]
    if bl[1][2] != "bit_length":
        return "the length is not computed from bit_length()"
    rets = s.returns()
    if not rets or not all(r.term[0] == "lv" and r.term[1] == rn and r.seq > rs[0].seq for r in rets):
        return "a return does not pass the guard, or returns something else than the decoded value"
    return None


def r07_2_lists(ck: Check) -> None:
    """the two list helpers are each other's mirror: vlq count, then exactly that many elements, in order"""
    S = "skepticoin.serialization."
    s = ck.summ(S + "stream_serialize_list", 0)
    sp = Spec(s, ("f", "lst"), forall=[("e", "lst")])
    cnt = [e for e in s.events if e.kind == "call" and S + "stream_serialize_vlq" in e.targets and not e.loops and not residual(e, ())
           and e.term[2] == (sp.term("f"), sp.term("len(lst)"))]
    elems = [e for e in s.events if e.kind == "call" and e.parts and e.parts[0] == ("a", sp.term("e"), "stream_serialize")
             and list(loop_doms(e)) == sp.loops and not residual(e, ()) and not any(l[2] for l in e.loops) and e.term[2] == (sp.term("f"),)]
    writes = [e for e in s.events if e.kind == "call" and (S + "stream_serialize_vlq" in e.targets or (e.parts and e.parts[0][0] == "a"
              and e.parts[0][2] in ("stream_serialize", "write")))]
    construct = "stream_serialize_list: vlq(len(lst)) then every element in order"
    if len(cnt) == 1 and len(elems) == 1 and len(writes) == 2 and cnt[0].seq < elems[0].seq:
        ck.ok("R07.2", construct, "", s.fi.loc)
    else:
        ck.violated("R07.2", construct, "list writer changed: %s" % "; ".join(e.describe() for e in writes), s.fi.loc)
    s = ck.summ(S + "stream_deserialize_list", 0)
    sp = Spec(s, ("f", "clz"))
    reads = [e for e in s.events if e.kind == "call" and (S + "stream_deserialize_vlq" in e.targets or (e.parts and e.parts[0][0] == "a"
             and e.parts[0][2] in ("stream_deserialize", "read")) or S + "safe_read" in e.targets)]
    from ..engine.match import same_function
    want = sp.term("[clz.stream_deserialize(f) for k in range(stream_deserialize_vlq(f))]")
    construct = "stream_deserialize_list: vlq count, then exactly count elements decoded in order, returned"
    from ..engine.terms import untag
    from ..engine.match import function_value
    fv = function_value(s)
    if fv is not None and untag(fv) == want and len(reads) == 2:
        ck.ok("R07.2", construct, "", s.fi.loc)
    else:
        ck.violated("R07.2", construct, "list reader changed: returns %s" % "; ".join(show(r.term)[:160] for r in s.returns()), s.fi.loc)
    s = ck.summ(S + "serialize_list", 0)
    rets = s.returns()
    wr = [e for e in s.events if e.kind == "call" and S + "stream_serialize_list" in e.targets]
    if len(rets) == 1 and len(wr) == 1 and rets[0].term[0] == "call" and rets[0].term[1][0] == "a" and rets[0].term[1][2] == "getvalue" \
            and wr[0].term[2] == (rets[0].term[1][1], ("v", s.fi.params[0])):
        ck.ok("R07.2", "serialize_list = bytes of stream_serialize_list over the whole list", "", s.fi.loc)
    else:
        ck.violated("R07.2", "serialize_list = bytes of stream_serialize_list over the whole list", "serialize_list changed shape", s.fi.loc)


def r07_7(ck: Check) -> None:
    ex = extractor(ck)
    for q, c in sorted(ex.codecs.items()):
        eq = c.cls.methods.get("__eq__")
        if eq is None or not c.writer:
            continue
        written = {p[-1] for p in c.writer if p[0] not in ("const",) and isinstance(p[-1], str)}
        compared = set()
        for n in ast.walk(eq.node):
            if isinstance(n, ast.Attribute) and isinstance(n.value, ast.Name) and n.value.id == eq.params[0]:
                compared.add(n.attr)
        missing = written - compared
        if missing:
            ck.note("R07.7 (cross-reference, not armed): %s.__eq__ does not compare %s" % (short(q), sorted(missing)))


def check(ck: Check) -> None:
    ck.explanations.append(
        "C07: for all Serializable classes the extracted reader and writer field sequences mirror each other (primitive, width, byte order, "
        "attribute flow through the constructor), every primitive is injective, tag tables are bijections, every cached id is the hash of "
        "the exact consumed span, and the one data-dependent-length primitive (VLQ) is re-encoded and compared.")
    ck.run("R07.1", "reader/writer mirror and injective primitives (R07.2)", lambda: r07_1_2(ck))
    ck.run("R07.2", "list helpers mirror each other", lambda: r07_2_lists(ck))
    ck.run("R07.3", "constructor range = codec range", lambda: r07_3(ck))
    ck.run("R07.4", "dispatch tables are bijections", lambda: r07_4(ck))
    ck.run("R07.5", "id provenance", lambda: r07_5(ck))
    ck.run("R07.6", "single accepted encoding of the variable-length integer", lambda: r07_6(ck))
    ck.run("R07.8", "byte-level entry points are the generic wrappers", lambda: r07_8(ck))
    ck.run("R07.10", "wire messages are read with the recorded layout", lambda: r07_10(ck))
    ck.run("R07.9", "id-carrying objects are constructed, never copied", lambda: r07_9(ck))
    from .c08 import r08_3, r08_7
    ck.run("R07.5b", "ids handed out by the store reader belong to the content they are attached to", lambda: (r08_3(ck), r08_7(ck, "R07.5")))
    ck.run("R07.7", "__eq__ completeness (notes)", lambda: r07_7(ck))
    ck.assume("nothing is encoded or decoded; injectivity of each primitive (fixed width, strict constant, length-prefixed, tagged) is by construction")
