"""C06 — Tamper evidence (claimed clause): no field of a block's wire format escapes commitment, and no decoder read
tolerates a short or unchecked byte. The per-bit behaviour of real blocks is a runtime quantification and is not claimed."""
from __future__ import annotations

import ast
from typing import List, Set

from ..engine.codec import show_prim
from ..engine.match import Spec, require_guard, residual
from ..engine.repo import dotted
from ..engine.report import Check
from ..engine.terms import conjuncts, show
from .c07 import CONSENSUS_CLASSES, DT, SG, extractor, r07_1_2, r07_5, r07_6
from .common import CONS, HORIZON_CTX, short


def r06_1(ck: Check) -> None:
    """every attribute a consensus object's constructor stores is emitted by its writer (nothing escapes the encoding)"""
    ex = extractor(ck)
    n = 0
    for q in CONSENSUS_CLASSES:
        c = ex.codecs.get(q)
        if c is None or c.writer is None or c.dispatch is not None:
            continue
        written = {p[-1] for p in c.writer if p[0] != "const"}
        stored = {a for p, a in c.ctor.items() if a != "cached_hash"}
        n += 1
        construct = "%s: writer emits every constructor-stored attribute %s" % (short(q), sorted(stored))
        where = "%s:%d" % (c.cls.module.path, c.cls.node.lineno)
        if stored <= written:
            ck.ok("R06.1", construct, "", where)
        else:
            ck.violated("R06.1", construct, "attribute(s) %s are part of the object but not of its encoding, hence of no hash" % sorted(stored - written), where)
    ck.expect_count("R06.1", "consensus classes with a writer", n, 11)
    # the scrypt pre-image is the whole summary
    s = ck.summ(CONS + "construct_summary_hash", 0)
    sp = Spec(s, ("summary", "h"))
    calls = [e for e in s.events if e.kind == "call" and "skepticoin.hash.scrypt" in e.targets]
    construct = "construct_summary_hash: scrypt pre-image is summary.serialize() (all six summary fields)"
    if len(calls) == 1 and calls[0].term[2] and calls[0].term[2][0] == sp.term("summary.serialize()"):
        ck.ok("R06.1", construct, "", calls[0].loc)
    else:
        ck.violated("R06.1", construct, "scrypt is fed %s" % "; ".join(show(e.term) for e in calls), s.fi.loc)


def r06_2(ck: Check) -> None:
    ex = extractor(ck)
    q = DT + "PowEvidence"
    c = ex.codecs[q]
    s = ck.summ(q + ".__eq__", 0)
    sp = Spec(s, ("self", "other"))
    rets = s.returns()
    written = sorted(p[-1] for p in (c.writer or []) if p[0] != "const")
    construct = "PowEvidence.__eq__ compares every encoded field %s" % written
    compared: Set[str] = set()
    ok = len(rets) == 1
    if ok:
        for cj in conjuncts(rets[0].term):
            if cj[0] == "cmp" and cj[1] == "==":
                for a in written:
                    if {cj[2], cj[3]} == {sp.term("self." + a), sp.term("other." + a)}:
                        compared.add(a)
    if ok and sorted(compared) == written:
        ck.ok("R06.2", construct, "the evidence comparison in full validation is field-complete", s.fi.loc)
    else:
        ck.violated("R06.2", construct, "fields %s are not compared: their bytes could be altered without failing validation"
                    % sorted(set(written) - compared), s.fi.loc)
    cls = ck.repo.cls(q)
    extra = [m for m in ("__ne__",) if m in cls.methods]
    subs = ck.repo.subclasses(q)
    if extra or subs:
        ck.violated("R06.2", "PowEvidence has no __ne__ override and no subclass", "comparison may be redirected: %s %s" % (extra, subs), cls.module.path)
    else:
        ck.ok("R06.2", "PowEvidence has no __ne__ override and no subclass", "`!=` runs __eq__", cls.module.path)


def r06_3(ck: Check) -> None:
    # evidence guard and blake2 over the full serialized list: C05's R05.7
    from .c05 import r05_7
    r05_7(ck)
    from .c17 import r17_1
    r17_1(ck)


def r06_4(ck: Check) -> None:
    ex = extractor(ck)
    n = 0
    for q in CONSENSUS_CLASSES:
        c = ex.codecs.get(q)
        if c is None:
            continue
        where = "%s:%d" % (c.cls.module.path, c.cls.node.lineno)
        if c.dispatch is not None:
            n += len(c.dispatch.table)
            if c.dispatch.fallthrough_raises:
                ck.ok("R06.4", "%s: unknown type tags raise" % short(q), "", where)
            else:
                ck.violated("R06.4", "%s: unknown type tags raise" % short(q), "an unknown tag is tolerated", where)
            continue
        for i, p in enumerate(c.reader or []):
            if p[0] in ("lenient", "ignored"):
                ck.violated("R06.4", "%s: position %d is strictly decoded" % (short(q), i),
                            "%s — bytes of a consensus object that are read but never checked or stored are uncommitted bits" % show_prim(p), where)
            elif p[0] == "const":
                n += 1
                ck.ok("R06.4", "%s: position %d is the strictly checked constant %s" % (short(q), i, p[1].hex()), "", where)
    ck.expect_count("R06.4", "strict constant / tag sites", n, 6)


def r06_5(ck: Check) -> None:
    ex = extractor(ck)
    allowed = {DT + "Transaction", DT + "Block"}
    n_raw = 0
    for q, c in sorted(ex.codecs.items()):
        for ln, txt in c.raw_reads:
            n_raw += 1
            where = "%s:%d" % (c.cls.module.path, ln)
            if q in allowed and c.span and c.span.get("line") == ln:
                ck.ok("R06.5", "%s: raw read re-reads exactly the span already decoded" % short(q), txt, where)
            else:
                ck.violated("R06.5", "%s: raw stream read %s" % (short(q), txt),
                            "a read that does not go through safe_read silently accepts truncated input", where)
    # module-level decoders
    m = ck.repo.module("skepticoin.serialization")
    for fi in ck.repo.all_functions():
        if fi.module.name.startswith("skepticoin.networking.messages") or fi.module is m or fi.module.name in ("skepticoin.datatypes", "skepticoin.signing"):
            if fi.cls is not None or fi.name == "safe_read" or "deserialize" not in fi.name:
                continue
            for nd in ast.walk(fi.node):
                if isinstance(nd, ast.Call) and isinstance(nd.func, ast.Attribute) and nd.func.attr == "read":
                    ck.violated("R06.5", "%s: raw stream read" % short(fi.qualname), "decoder reads without the truncation check",
                                "%s:%d" % (fi.module.path, nd.lineno))
    s = ck.summ("skepticoin.serialization.safe_read", 0)
    sp = Spec(s, ("f", "n"))
    require_guard(ck, "R06.5", s, sp, "len(f.read(n)) < n", "a short read raises (truncated input cannot decode)")
    rets = s.returns()
    if len(rets) == 1 and rets[0].term == sp.term("f.read(n)"):
        ck.ok("R06.5", "safe_read returns exactly the n bytes read", "", s.fi.loc)
    else:
        ck.violated("R06.5", "safe_read returns exactly the n bytes read", "returns %s" % "; ".join(show(r.term) for r in rets), s.fi.loc)
    ck.expect_count("R06.5", "raw read sites inside decoders", n_raw, 2)


def check(ck: Check) -> None:
    ck.explanations.append(
        "C06 (partly): decides that every leaf of Block's wire format is covered by a commitment mechanism (summary -> scrypt pre-image, "
        "evidence -> field-complete equality, transaction list -> blake2 operand and merkle root, constants/tags -> strict reads) and that "
        "every decoder read is bounded and checked. Does not decide the actual bit flips (runtime quantification) nor hash preimage resistance.")
    ck.run("R06.1", "no attribute escapes the encoding; summary is the scrypt pre-image", lambda: r06_1(ck))
    ck.run("R06.2", "evidence compared field by field", lambda: r06_2(ck))
    ck.run("R06.3", "transaction list bound twice", lambda: r06_3(ck))
    ck.run("R06.4", "constants and tags strictly checked", lambda: r06_4(ck))
    ck.run("R06.5", "truncation: safe_read only", lambda: r06_5(ck))
    ck.run("R06.6", "reader/writer mirror of consensus classes and single VLQ encoding", lambda: (r07_1_2(ck, True, "R06.6"), r07_6(ck)))
    ck.run("R06.7", "the id is over the header span", lambda: r07_5(ck))
    from .c05 import r05_1
    ck.run("R05.1", "the id is tested against the target", lambda: r05_1(ck))
    from .c01 import r01_1
    ck.run("R01.1", "decoded bytes always go through both validators before they are applied (no shortcut by id)", lambda: r01_1(ck))
