"""C11 — Stream framing is independent of transport fragmentation.

The checker decides the syntactic premises P1–P7 of the chunk-independence argument (DESIGN.md, C11): the incremental parser
only appends the chunk, decides on parser state alone, consumes exact guarded prefixes, uses only monotone length guards,
drains to a fixpoint, runs its stages in pipeline order and refuses bad magic / over-limit length at the stage where they appear."""
from __future__ import annotations

import struct
from typing import Dict, List, Optional, Set, Tuple

from ..engine.match import Spec, residual
from ..engine.repo import AnalysisError
from ..engine.report import Check
from ..engine.terms import C, Term, conjuncts, lin_parts, mentions, show, subterms
from ..engine.walker import Event
from .common import short

MR = "skepticoin.networking.remote_peer.MessageReceiver."
STATE_ATTRS = {"buffer", "magic_read", "len"}
MAX_FRAME = 32 * 1024 * 1024     # from the property's anchor (MAX_MESSAGE_SIZE)


def flat(conds: List[Term]) -> List[Term]:
    out: List[Term] = []
    for c in conds:
        out.extend(conjuncts(c))
    return out


def conj_set(ev: Event) -> Set[Term]:
    out: Set[Term] = set()
    for c in ev.pc:
        out.update(conjuncts(c.term))
    return out


def check_receive(ck: Check) -> None:
    summ = ck.summ(MR + "receive", 0)
    sp = Spec(summ, ("self", "data"))
    selfv = sp.term("self")
    data = sp.term("data")
    buf = sp.term("self.buffer")
    blen = sp.term("len(self.buffer)")
    ln = sp.term("self.len")
    mrd = sp.term("self.magic_read")
    where = summ.fi.loc
    evs = [e for e in summ.events if not e.chain]
    if summ.unknown:
        ck.unknown("P1", "receive", "unanalysed constructs: %s" % summ.unknown[:3], where)
        return
    stores = [e for e in evs if e.kind == "store"]

    # ---- P1: the chunk is only appended, first
    uses = [e for e in evs if mentions(e.term, data) or (e.value is not None and mentions(e.value, data)) or any(mentions(c.term, data) for c in e.pc)]
    tests_with_data = [t for t in summ.tests.values() if mentions(t, data)]
    first = stores[0] if stores else None
    construct = "receive: the chunk is used exactly once, appended to the buffer before anything else"
    if first is not None and first.term == buf and first.value == ("cat", (buf, data)) and uses == [first] and not tests_with_data \
            and not first.pc and all(e.kind == "call" and e.seq > first.seq or e is first for e in evs if e.seq <= first.seq or e is first):
        ck.ok("P1", construct, "", first.loc)
    else:
        ck.violated("P1", construct, "a parser that inspects the chunk itself behaves differently when the same bytes arrive split differently: uses = %s"
                    % [e.describe()[:80] for e in uses], where)

    # ---- P2: decisions read only parser state
    bad_src: Set[str] = set()
    for t in list(summ.tests.values()):
        for x in subterms(t):
            if x[0] == "v" and x != selfv:
                bad_src.add(x[1])
            elif x[0] == "a" and x[1] == selfv and x[2] not in STATE_ATTRS:
                bad_src.add("self." + x[2])
            elif x[0] == "call" and x[1][0] == "a" and x[1][2] not in ("from_bytes",):
                bad_src.add("call ." + x[1][2] + "()")
    construct = "receive: every condition reads only (buffer, magic_read, len) and constants"
    if not bad_src and summ.tests:
        ck.ok("P2", construct, "%d conditions" % len(summ.tests), where)
    else:
        ck.violated("P2", construct, "conditions also depend on %s" % sorted(bad_src), where)

    # ---- stages = the buffer-consuming stores `buffer = buffer[k:]`, in program order
    cons = [e for e in stores if e.term == buf and e is not first]
    ck.stats["stages"] = len(cons)
    if len(cons) != 3 or any(not (e.value[0] == "sl" and e.value[1] == buf and e.value[2] is not None and e.value[3] is None and e.value[4] is None)
                             for e in cons):
        ck.violated("P6", "receive: three stages magic -> length -> body, each advancing the buffer by `buffer = buffer[k:]`",
                    "buffer stores: %s" % [e.describe()[:90] for e in cons], where)
        return
    bounds = [first.seq if first is not None else -1] + [e.seq for e in cons]
    windows: List[List[Event]] = []
    for i in range(3):
        hi = bounds[i + 1] if i < 2 else max(e.seq for e in evs)
        windows.append([e for e in evs if bounds[i] < e.seq <= hi])
    widths = [e.value[2] for e in cons]

    # ---- P3 per stage
    for idx, (c_ev, win) in enumerate(zip(cons, windows)):
        name = ("magic", "length", "body")[idx]
        k = widths[idx]
        guard = summ.norm.mk_cmp_s(">=", blen, k, None)
        cj = conj_set(c_ev)
        problems = []
        if guard not in cj:
            problems.append("no guard `len(buffer) >= %s` (conditions: %s)" % (show(k), "; ".join(sorted(show(c) for c in cj))))
        for e in win:
            if e is c_ev:
                continue
            # a read of the buffer only counts inside the stage (under the stage's guard)
            if guard not in conj_set(e):
                continue
            for t in [e.term] + ([e.value] if e.value is not None else []):
                for x in subterms(t):
                    if x[0] == "sl" and x[1] == buf and not (x[2] is None and x[3] == k and x[4] is None):
                        problems.append("reads %s, not the guarded prefix buffer[:%s]" % (show(x), show(k)))
                    if x[0] == "s" and x[1] == buf:
                        problems.append("indexes the buffer directly: %s" % show(x))
        construct = "receive/%s: consumes exactly the guarded prefix" % name
        if problems:
            ck.violated("P3", construct, "; ".join(sorted(set(problems))), c_ev.loc)
        else:
            ck.ok("P3", construct, "guard len(buffer) >= %s, reads buffer[:%s], advance buffer[%s:]" % (show(k), show(k), show(k)), c_ev.loc)

    # ---- P4: monotone guards
    bad4 = []

    def monotone(d: Term) -> bool:
        if d[0] != "cmpz":
            return False
        atoms, _k = lin_parts(d[2])
        coef = atoms.get(blen)
        return coef is not None and ((coef > 0 and d[1] == ">=") or (coef < 0 and d[1] == "<="))

    # the conditions under which the parser acts (stores, calls): guard clauses count with the polarity under which execution continues
    for e in evs:
        if e.kind not in ("store", "call", "del"):
            continue
        for cj_ in e.pc:
            for c in conjuncts(cj_.term):
                if c[0] == "or" and cj_.prov != "branch":
                    continue        # what survived a nested early exit: (taken and survived) or (not taken) - not an enabling test
                for d in (c[1] if c[0] == "or" else [c]):
                    for a in (conjuncts(d) if d[0] == "and" else [d]):
                        if mentions(a, blen) and not monotone(a) and show(a) not in bad4:
                            bad4.append(show(a))
    construct = "receive: the buffer length occurs in conditions only as the larger side of >= (enabling is monotone in more data)"
    if bad4:
        ck.violated("P4", construct, "non-monotone or strict length tests: %s — e.g. a frame ending exactly at a read boundary is delayed or a stage "
                    "is disabled by extra bytes" % bad4, where)
    else:
        ck.ok("P4", construct, "", where)

    # ---- stage widths agree with what is parsed
    magic = ck.repo.const("skepticoin.networking.remote_peer.MAGIC")
    ok_w = isinstance(magic, bytes) and widths[0] == C(len(magic))
    lenstore = [e for e in windows[1] if e.kind == "store" and e.term == ln]
    pre4 = ("sl", buf, None, C(4), None)
    be_forms = [("s", ("call", ("g", "ext:struct.unpack"), (C(b">I"), pre4), ()), C(0)), ("s", ("call", ("g", "ext:struct.unpack"), (C(b"!I"), pre4), ()), C(0)),
                ("s", ("call", ("g", "ext:struct.unpack"), (C(">I"), pre4), ()), C(0)),
                ("call", ("g", "builtin:int.from_bytes"), (pre4, C("big"), C(False)), ())]
    fmt_ok = widths[1] == C(4) and len(lenstore) == 1 and lenstore[0].value in be_forms
    construct = "receive: stage widths = len(MAGIC), 4-byte big-endian length parsed from buffer[:4], self.len"
    if ok_w and fmt_ok and widths[2] == ln:
        ck.ok("P3", construct, "", where)
    else:
        ck.violated("P3", construct, "widths %s; magic %r; length parsed as %s" % ([show(w) for w in widths], magic, [show(e.value)[:70] for e in lenstore]), where)

    # ---- P7 refusal
    want_magic = summ.norm.mk_cmp_s("!=", ("sl", buf, None, widths[0], None), C(magic), None)
    want_magic_b = summ.norm.mk_cmp_s("!=", ("call", ("g", "builtin:bytes"), (("sl", buf, None, widths[0], None),), ()), C(magic), None)
    r1 = [e for e in windows[0] if e.kind == "raise" and (want_magic in conj_set(e) or want_magic_b in conj_set(e))]
    construct = "receive/magic: a prefix different from MAGIC is refused at that point"
    if r1 and r1[0].seq < cons[0].seq:
        ck.ok("P7", construct, "", r1[0].loc)
    else:
        ck.violated("P7", construct, "no raise on `buffer[:4] != MAGIC` before the prefix is consumed", where)
    over = summ.norm.mk_cmp_s(">", ln, C(MAX_FRAME), None)
    r2 = [e for e in windows[1] if e.kind == "raise" and over in conj_set(e)]
    construct = "receive/length: a length above 32 MiB is refused as soon as it is read, before any wait for the body"
    if lenstore and r2 and lenstore[0].seq < r2[0].seq and r2[0].seq < min(e.seq for e in windows[2]):
        ck.ok("P7", construct, "", r2[0].loc)
    else:
        ck.violated("P7", construct, "size check missing, against another limit, or after the body stage", where)

    # ---- P5 / P6
    body = windows[2] + [e for e in evs if e.seq > cons[2].seq]
    body = sorted({id(e): e for e in body}.values(), key=lambda e: e.seq)
    guard3 = summ.norm.mk_cmp_s(">=", blen, ln, None)
    disp = [e for e in body if e.kind == "call" and MR + "handle_message_data" in e.targets]
    rec = [e for e in body if e.kind == "call" and MR + "receive" in e.targets]
    construct = "receive/body: frame = buffer[:len] dispatched once; buffer advanced, both flags reset, then parsing is re-entered"
    problems = []
    frame = ("sl", buf, None, ln, None)
    # (a mutable buffer hands out a copy: bytes(buffer[:len]) has the same content)
    frames = (frame, ("call", ("g", "builtin:bytes"), (frame,), ()))
    if not (len(disp) == 1 and len(disp[0].term[2]) == 1 and disp[0].term[2][0] in frames):
        problems.append("dispatch is %s" % [show(e.term)[:60] for e in disp])
    mr_store = [e for e in body if e.kind == "store" and e.term == mrd]
    ln_store = [e for e in body if e.kind == "store" and e.term == ln]
    bf_store = [cons[2]]
    if not (len(mr_store) == 1 and mr_store[0].value == C(False)):
        problems.append("magic_read is not reset")
    if not (len(ln_store) == 1 and ln_store[0].value == C(None)):
        problems.append("len is not reset")
    recursion = len(rec) == 1 and rec[0].term[2] == (C(b""),)
    looped = False
    if not recursion and not rec:
        import ast as _ast
        for n in _ast.walk(summ.fi.node):
            if isinstance(n, _ast.While) and isinstance(n.test, _ast.Constant) and n.test.value is True:
                ids = {id(x) for x in _ast.walk(n)}
                if all(e.stmt_id in ids for e in cons):
                    body_if = [x for x in _ast.walk(n) if isinstance(x, _ast.If) and any(id(y) == cons[2].stmt_id for y in _ast.walk(x))]
                    inner_if = body_if[-1:] if body_if else []
                    exits_in_body = [y for bi in inner_if for part in bi.body for y in _ast.walk(part) if isinstance(y, (_ast.Break, _ast.Return))]
                    has_exit = any(isinstance(y, (_ast.Break, _ast.Return)) for y in _ast.walk(n))
                    looped = not exits_in_body and has_exit
    if not (recursion or looped):
        problems.append("no re-entry `self.receive(b'')` or enclosing drain loop (a second message in the same read would be stuck until more data arrives)")
    if not problems:
        last = rec[0].seq if recursion else max(e.seq for e in body) + 1
        if not (bf_store[0].seq < ln_store[0].seq and max(mr_store[0].seq, ln_store[0].seq, bf_store[0].seq) < last and disp[0].seq < last):
            problems.append("resets / advance / re-entry are out of order")
        base = conj_set(cons[2])
        if any(conj_set(e) != base for e in [disp[0], ln_store[0], mr_store[0]] + (rec[:1] if recursion else [])):
            problems.append("some of them are conditional")
    if problems:
        ck.violated("P5", construct, "; ".join(problems), where)
    else:
        ck.ok("P5", construct, "", disp[0].loc)
    # P6: flags
    c1, c2, c3 = conj_set(cons[0]), conj_set(cons[1]), conj_set(cons[2])
    nm = sp.term("not self.magic_read")
    len_none = sp.term("self.len is None")
    len_some = sp.term("self.len is not None")
    set_true = [e for e in windows[0] if e.kind == "store" and e.term == mrd and e.value == C(True)]
    all_flag_stores = [e for e in evs if e.kind == "store" and e.term in (mrd, ln)]
    construct = "receive: stages in the order magic -> length -> body, flags progress (¬magic, None) -> (magic, None) -> (magic, n) -> reset of both"
    if nm in c1 and len_none in c2 and len_some in c3 and len(set_true) == 1 and len(all_flag_stores) == 4:
        ck.ok("P6", construct, "flags are stored only in these three places", where)
    else:
        ck.violated("P6", construct, "stage conditions %s / %s / %s; flag stores %d" % (
            sorted(show(c) for c in c1), sorted(show(c) for c in c2), sorted(show(c) for c in c3), len(all_flag_stores)), where)
    # who else writes the parser state
    from ..engine.effects import typed_writes
    tw = [w for w in typed_writes(ck.walker, ck.repo) if w.owner == MR[:-1] and w.attr in STATE_ATTRS
          and w.func not in (MR + "receive", MR + "__init__")]
    if tw:
        for w in tw:
            ck.violated("P6", "%s writes the parser state" % short(w.func), "%s.%s" % (w.owner.split(".")[-1], w.attr), w.ev.loc)
    else:
        ck.ok("P6", "the parser state is written only by receive and the constructor", "", "")


def check_dispatch(ck: Check) -> None:
    s = ck.summ(MR + "handle_message_data", 0)
    sp = Spec(s, ("self", "md"))
    f = sp.term("BytesIO(md)")
    h = ("call", ("a", ("g", "skepticoin.networking.messages.MessageHeader"), "stream_deserialize"), (f,), ())
    m = ("call", ("a", ("g", "skepticoin.networking.messages.Message"), "stream_deserialize"), (f,), ())
    calls = [e for e in s.events if e.kind == "call" and e.parts and e.parts[0] == ("a", sp.term("self.peer"), "handle_message_received")]
    hd = [e for e in s.events if e.kind == "call" and e.term == h]
    md = [e for e in s.events if e.kind == "call" and e.term == m]
    construct = "handle_message_data: header then message decoded from the frame bytes, passed once to peer.handle_message_received"
    if len(calls) == 1 and calls[0].term[2] == (h, m) and hd and md and hd[0].seq < md[0].seq and not residual(calls[0], ()):
        ck.ok("P7", construct, "", s.fi.loc)
    else:
        ck.violated("P7", construct, "dispatch changed: %s" % [e.describe()[:120] for e in calls], s.fi.loc)
    init = ck.summ(MR + "__init__", 0)
    vals = {show(e.term): e.value for e in init.events if e.kind == "store"}
    want = {"self.buffer": C(b""), "self.magic_read": C(False), "self.len": C(None)}
    empty = (C(b""), ("call", ("g", "builtin:bytearray"), (), ()), ("call", ("g", "builtin:bytearray"), (C(b""),), ()),
             ("call", ("v", "bytearray"), (), ()), ("call", ("v", "bytearray"), (C(b""),), ()))
    if all((vals.get(k_) == v) or (k_ == "self.buffer" and vals.get(k_) in empty) for k_, v in want.items()):
        ck.ok("P6", "MessageReceiver starts in state (empty buffer, ¬magic_read, len None)", "", init.fi.loc)
    else:
        ck.violated("P6", "MessageReceiver starts in state (empty buffer, ¬magic_read, len None)", "initial state %s" % {k_: show(v) for k_, v in vals.items()},
                    init.fi.loc)
    mx = ck.repo.const("skepticoin.networking.params.MAX_MESSAGE_SIZE")
    if mx == MAX_FRAME:
        ck.ok("P7", "MAX_MESSAGE_SIZE folds to 33,554,432", "", "")
    else:
        ck.violated("P7", "MAX_MESSAGE_SIZE folds to 33,554,432", "folds to %r" % (mx,), "")


def check_plumbing(ck: Check) -> None:
    s = ck.summ("skepticoin.networking.remote_peer.ConnectedRemotePeer.handle_receive_data", 0)
    sp = Spec(s, ("self", "data"))
    calls = [e for e in s.events if e.kind == "call" and MR + "receive" in e.targets]
    if len(calls) == 1 and calls[0].term[2] == (sp.term("data"),) and calls[0].parts[0][1] == sp.term("self.receiver") and not residual(calls[0], ()):
        ck.ok("P1", "handle_receive_data passes every chunk, once and unmodified, to self.receiver.receive", "", calls[0].loc)
    else:
        ck.violated("P1", "handle_receive_data passes every chunk, once and unmodified, to self.receiver.receive", "%s" % [e.describe()[:120] for e in calls], s.fi.loc)
    init = ck.summ("skepticoin.networking.remote_peer.ConnectedRemotePeer.__init__", 0)
    st = [e for e in init.events if e.kind == "store" and e.term == ("a", ("v", init.fi.params[0]), "receiver")]
    if len(st) == 1 and st[0].value == ("call", ("g", MR[:-1]), (("v", init.fi.params[0]),), ()):
        ck.ok("P1", "each connection owns one MessageReceiver, created with the connection", "", st[0].loc)
    else:
        ck.violated("P1", "each connection owns one MessageReceiver, created with the connection", "%s" % [show(e.value) for e in st], init.fi.loc)
    lp = ck.summ("skepticoin.networking.local_peer.LocalPeer.handle_remote_peer_selector_event", 0)
    spl = Spec(lp, ("self", "key", "mask"))
    recv = spl.term("key.fileobj.recv(1024)")
    pas = [e for e in lp.events if e.kind == "call" and "skepticoin.networking.remote_peer.ConnectedRemotePeer.handle_receive_data" in e.targets]
    if len(pas) == 1 and pas[0].term[2] and pas[0].term[2][0][0] == "call" and pas[0].term[2][0][1][0] == "a" and pas[0].term[2][0][1][2] == "recv":
        ck.ok("P1", "the bytes returned by recv() are handed to the connection's parser unchanged", "", pas[0].loc)
    else:
        ck.violated("P1", "the bytes returned by recv() are handed to the connection's parser unchanged", "%s" % [e.describe()[:120] for e in pas], lp.fi.loc)
    # ---- P8: nothing between the socket and the parser decides on the content of a single read
    data = sp.term("data")
    conds = list(s.tests.values()) + [c.term for e in s.events for c in e.pc]
    dep = sorted({show(t)[:100] for t in conds if mentions(t, data)})
    construct = "handle_receive_data: no decision depends on the chunk (what one read contains is an accident of the transport)"
    if dep:
        ck.violated("P8", construct, "conditions on the chunk: %s — the same byte stream is treated differently when it is cut differently" % dep, s.fi.loc)
    else:
        ck.ok("P8", construct, "", s.fi.loc)
    recvs = [e for e in lp.events if e.kind == "call" and e.parts and e.parts[0][0] == "a" and e.parts[0][2] == "recv"]
    construct = "selector event: exactly one recv() per read-readiness event, outside any loop (a second recv on a drained socket raises)"
    if len(recvs) == 1 and not recvs[0].loops and not pas[0].loops if pas else False:
        ck.ok("P8", construct, "", recvs[0].loc)
    else:
        ck.violated("P8", construct, "%d recv call(s), in loop: %s" % (len(recvs), [bool(e.loops) for e in recvs]), lp.fi.loc)
    if recvs:
        rv = recvs[0].term
        conds = list(lp.tests.values())
        bad = sorted({show(t)[:100] for t in conds if mentions(t, rv) and t != rv and t != ("not", rv)})
        construct = "selector event: the only test on the bytes read is emptiness (remote close)"
        if bad:
            ck.violated("P8", construct, "other tests on the read: %s" % bad, lp.fi.loc)
        else:
            ck.ok("P8", construct, "", lp.fi.loc)
        # receive() recurses once per completed frame: the number of frames one read can complete must stay far below the interpreter's
        # recursion limit, whatever the peer sends
        from .c07 import extractor
        from .c20 import min_size
        ex = extractor(ck)
        mf = 8 + min_size(ex, "skepticoin.networking.messages.MessageHeader") + min_size(ex, "skepticoin.networking.messages.Message")
        size = rv[2][0] if rv[2] else None
        construct = "selector event: read size / smallest well-formed frame (%d bytes) <= 300 nested receive() calls" % mf
        rsumm = ck.summ(MR + "receive", 0)
        recursive = any(e.kind == "call" and MR + "receive" in e.targets for e in rsumm.events)
        if not recursive and size is not None and size[0] == "c" and isinstance(size[1], int) and 0 < size[1] <= 1 << 24:
            ck.ok("P8", "selector event: the read size is a positive constant (receive() drains the buffer in a loop: no nesting to bound)",
                  "recv(%d)" % size[1], recvs[0].loc)
        elif size is not None and size[0] == "c" and isinstance(size[1], int) and 0 < size[1] and size[1] // mf <= 300:
            ck.ok("P8", construct, "recv(%d): at most %d frames complete in one read" % (size[1], size[1] // mf), recvs[0].loc)
        else:
            ck.violated("P8", construct, "recv size is %s: a burst of small frames arriving in one read overflows the recursion of receive() and the "
                        "connection is dropped, although the same bytes in smaller reads are all delivered" % (show(size) if size is not None else None),
                        recvs[0].loc)


def _ends_connection(h) -> bool:      # type: ignore
    import ast
    return any(isinstance(n, ast.Call) and isinstance(n.func, ast.Attribute) and ("disconnect" in n.func.attr or n.func.attr == "close")
               for st in h.body for n in ast.walk(st))


def check_failures_end_the_stream(ck: Check) -> None:
    """P9: the parser drains its buffer by re-entering itself after each frame; a failure while a frame is handled unwinds through that
    re-entry. That is sound only because nothing below the per-connection catch-all absorbs it: the connection is closed and the
    rest of the buffer is moot. A handler on the way that carries on leaves complete frames undelivered until the next read."""
    path = [("skepticoin.networking.remote_peer.ConnectedRemotePeer.handle_receive_data", MR + "receive"),
            (MR + "receive", MR + "handle_message_data"), (MR + "receive", MR + "receive"),
            (MR + "handle_message_data", "skepticoin.networking.remote_peer.ConnectedRemotePeer.handle_message_received")]
    n = 0
    for caller, callee in path:
        s = ck.summ(caller, 0)
        for e in s.events:
            if e.kind != "call" or callee not in e.targets:
                continue
            n += 1
            construct = "%s: a failure of %s unwinds to the per-connection catch-all" % (short(caller), short(callee))
            quiet = [(types, ti) for ti in e.tries for (types, reraises), h in zip(ti.handlers, ti.node.handlers)
                     if not reraises and not _ends_connection(h)]
            if quiet:
                ck.violated("P9", construct, "a handler for %s carries on with the connection: the frames that were complete in the same read "
                            "stay in the buffer until more bytes arrive — what is delivered now depends on where the reads were cut"
                            % ", ".join(sorted({(t or ["everything"])[0].split(".")[-1] for t, _ in quiet})), e.loc)
            else:
                ck.ok("P9", construct, "", e.loc)
    ck.expect_count("P9", "calls on the way from the socket to the message handler", n, 3)


def check_socket_options(ck: Check) -> None:
    """P8 (continued): the kernel hands over whatever bytes have arrived. A receive low-water mark (SO_RCVLOWAT) makes readiness depend
    on how many bytes are waiting: the tail of a frame that the transport delivers on its own is never reported, and a complete message
    sits in the kernel until more data arrives."""
    import ast
    n = 0
    bad = []
    for m in ck.repo.modules.values():
        if not m.name.startswith("skepticoin.networking"):
            continue
        for node in ast.walk(m.tree):
            if isinstance(node, ast.Call) and isinstance(node.func, ast.Attribute) and node.func.attr == "setsockopt":
                n += 1
                txt = " ".join(ast.unparse(a) for a in node.args)
                if "RCVLOWAT" in txt or "SO_RCVBUF" in txt and False:
                    bad.append((m.path, node.lineno, txt))
    construct = "no receive low-water mark on peer sockets (the node reads whatever has arrived)"
    if bad:
        for path, line, txt in bad:
            ck.violated("P8", construct, "setsockopt(%s): the last bytes of a frame that arrive on their own are not reported readable, the message "
                        "they complete is delivered only when later data arrives — delivery depends on how the transport cut the stream" % txt[:60],
                        "%s:%d" % (path, line))
    else:
        ck.ok("P8", construct, "%d setsockopt call(s) in the networking package" % n, "")


def check(ck: Check) -> None:
    ck.explanations.append(
        "C11: chunk-independence follows from a syntactic discipline of the incremental parser. The checker decides premises P1–P7 on the "
        "event table of MessageReceiver.receive (the chunk is only appended; decisions read parser state only; exact guarded prefix "
        "consumption; monotone >= guards; reset and re-entry; pipeline order and flag progression; refusal at the stage). The implication "
        "premises => property is the proof sketch in DESIGN.md.")
    ck.run("P1-P7", "premises on MessageReceiver.receive", lambda: check_receive(ck))
    ck.run("P7b", "dispatch and initial state", lambda: check_dispatch(ck))
    ck.run("P1b", "socket -> parser plumbing", lambda: check_plumbing(ck))
    ck.run("P9", "a failure while a frame is handled ends the stream", lambda: check_failures_end_the_stream(ck))
    ck.run("P8b", "readiness does not depend on how many bytes wait", lambda: check_socket_options(ck))
