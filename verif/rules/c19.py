"""C19 — Peer book stays consistent and reconnects with bounded back-off."""
from __future__ import annotations

import ast
from typing import Any, Dict, Iterable, List, Optional, Set, Tuple

from ..engine.effects import typed_writes
from ..engine.flow import Automaton, Runner, State, States
from ..engine.match import Spec, loop_doms, require_return, require_returns_table, residual
from ..engine.repo import AnalysisError
from ..engine.report import Check
from ..engine.terms import C, Term, conjuncts, show
from ..engine.walker import Event
from .c15 import atomic_replace, final_path_writers
from .common import short

NM = "skepticoin.networking.manager.NetworkManager"
RPQ = "skepticoin.networking.remote_peer."
CRP = RPQ + "ConnectedRemotePeer"
DRP = RPQ + "DisconnectedRemotePeer"

EXPECTED_WRITERS = {
    NM + ".__init__": {("connected_peers", "store"), ("disconnected_peers", "store")},
    NM + ".handle_peer_connected": {("connected_peers", "item-store"), ("disconnected_peers", "item-del")},
    NM + ".handle_peer_disconnected": {("connected_peers", "item-del"), ("disconnected_peers", "item-store")},
    CRP + ".handle_hello_message_received": {("disconnected_peers", "item-store")},
    CRP + ".handle_peers_message_received": {("disconnected_peers", "item-store")},
    "skepticoin.networking.threading.NetworkingThread.__init__": {("disconnected_peers", "store")},
}


def r19_1(ck: Check) -> Dict[str, Set[Tuple[str, str]]]:
    tw = [w for w in typed_writes(ck.walker, ck.repo) if w.owner == NM and w.attr in ("connected_peers", "disconnected_peers")]
    by: Dict[str, Set[Tuple[str, str]]] = {}
    for w in tw:
        by.setdefault(w.func, set()).add((w.attr, w.kind))
    for fn, ws in sorted(by.items()):
        construct = "%s writes the peer maps as analysed: %s" % (short(fn), sorted(ws))
        if fn in EXPECTED_WRITERS and ws == EXPECTED_WRITERS[fn]:
            ck.ok("R19.1", construct, "", ck.repo.func(fn).loc)
        elif fn in EXPECTED_WRITERS:
            ck.ok("R19.1", "%s is a known writer of the peer maps" % short(fn), "its writes changed to %s; re-checked by R19.2" % sorted(ws), ck.repo.func(fn).loc)
        else:
            ck.violated("R19.1", "%s writes the peer maps" % short(fn), "a new writer of connected_peers / disconnected_peers (%s) outside the functions "
                        "whose preservation of disjointness is analysed" % sorted(ws), ck.repo.func(fn).loc)
    ck.expect_count("R19.1", "functions writing the peer maps", len(by), 6)
    return by


class DisjointAutomaton(Automaton):
    """facts about one key expression k: (k in connected?, k in disconnected?)"""

    def __init__(self, cmap: Term, dmap: Term):
        self.cmap = cmap
        self.dmap = dmap
        self.keys: Set[Term] = set()
        self.havocs = 0

    def initial(self) -> List[State]:
        return [(False, False), (True, False), (False, True)]      # the invariant holds on entry

    def _which(self, m: Term) -> Optional[int]:
        return 0 if m == self.cmap else (1 if m == self.dmap else None)

    def label(self, ev: Event) -> Optional[str]:
        if ev.kind in ("store", "del") and ev.term[0] == "s" and self._which(ev.term[1]) is not None:
            return "%s %s[k]" % (ev.kind, "connected" if self._which(ev.term[1]) == 0 else "disconnected")
        if ev.kind == "call" and ev.parts is not None and ev.parts[0][0] == "a" and ev.parts[0][2] == "pop" and self._which(ev.parts[0][1]) is not None:
            return "pop %s[k]" % ("connected" if self._which(ev.parts[0][1]) == 0 else "disconnected")
        return None

    def on_event(self, state: State, ev: Event) -> Iterable[State]:
        if ev.kind in ("store", "del") and ev.term[0] == "s":
            w = self._which(ev.term[1])
            if w is not None:
                self.keys.add(ev.term[2])
                l = list(state)
                l[w] = ev.kind == "store"
                return [tuple(l)]
        if ev.kind == "call" and ev.parts is not None and ev.parts[0][0] == "a" and ev.parts[0][2] == "pop" and ev.term[2]:
            w = self._which(ev.parts[0][1])
            if w is not None:
                # map.pop(k[, default]) removes k (with a default it is `if k in map: del map[k]`)
                self.keys.add(ev.term[2][0])
                l = list(state)
                l[w] = False
                return [tuple(l)]
        if ev.kind == "call" and ev.parts is not None:
            # a call that can reach another writer of the maps re-establishes (only) the invariant
            reach = {"disconnect", "handle_peer_connected", "handle_peer_disconnected", "start_outgoing_connection"}
            tails = {t.split(".")[-1] for t in ev.targets}
            if not ev.targets and ev.parts[0][0] == "a":
                tails = {ev.parts[0][2]}
            if tails & reach:
                self.havocs += 1
                return [(False, False), (True, False), (False, True)]
        return [state]

    def on_branch(self, state: State, test: Term, polarity: bool) -> Optional[State]:
        cs = conjuncts(test) if polarity else ([test] if test[0] not in ("or",) else [])
        if not polarity and test[0] == "or":
            from ..engine.terms import mk_not
            cs = [mk_not(x) for x in test[1]]
        elif not polarity:
            from ..engine.terms import mk_not
            cs = conjuncts(mk_not(test))
        for c in cs:
            if c[0] == "cmp" and c[1] in ("in", "notin"):
                w = self._which(c[3])
                if w is None:
                    continue
                self.keys.add(c[2])
                want = c[1] == "in"
                if state[w] != want:
                    return None
        return state


def r19_2(ck: Check, writers: Dict[str, Set[Tuple[str, str]]]) -> None:
    for fn in sorted(writers):
        if fn.endswith("__init__"):
            continue     # initial assignment before the loop starts: both maps as given / empty
        fi = ck.repo.func(fn)
        summ = ck.summ(fn, 0)
        sp = Spec(summ, ())
        base = "self" if fn.startswith(NM) else "self.local_peer.network_manager"
        cmap = sp.term(base + ".connected_peers")
        dmap = sp.term(base + ".disconnected_peers")
        auto = DisjointAutomaton(cmap, dmap)
        run = Runner(summ, auto, ck.repo)
        # writes inside a loop: each iteration handles its own key, starting from the invariant
        target_body: Optional[List[ast.stmt]] = None
        for n in ast.walk(fi.node):
            if isinstance(n, ast.For):
                ids = {id(x) for s_ in n.body for x in ast.walk(s_)}
                if any(e.stmt_id in ids for e in summ.events if e.kind in ("store", "del") and e.term[0] == "s" and auto._which(e.term[1]) is not None):
                    target_body = n.body
        if target_body is not None:
            init: States = {s: () for s in auto.initial()}
            out = run.block(target_body, init)
            exits = dict(out.normal)
            exits.update(out.cont)
            exits.update(out.ret)
            exits.update(out.brk)
        else:
            o = run.run()
            exits = dict(o.ret)
        construct = "%s preserves keys(connected) ∩ keys(disconnected) = ∅ for the key it writes" % short(fn)
        bad = [(s, t) for s, t in exits.items() if s[0] and s[1]]
        if len(auto.keys) > 1:
            ck.unknown("R19.2", construct, "the function writes / tests the maps under more than one key expression: %s" % [show(k)[:50] for k in auto.keys], fi.loc)
            continue
        if bad:
            for s, t in bad[:1]:
                ck.violated("R19.2", construct, "an exit is reachable where the same address is recorded as connected and as waiting for reconnection "
                            "(the condition _sanity_check raises on, which stops the network loop)", fi.loc, list(t))
        elif not exits:
            ck.unknown("R19.2", construct, "no normal exit state was computed", fi.loc)
        else:
            ck.ok("R19.2", construct, "%d exit states, key %s" % (len(exits), [show(k)[:60] for k in auto.keys]), fi.loc)
    s = ck.summ(NM + "._sanity_check", 0)
    if s.raises():
        ck.ok("R19.2", "_sanity_check raises when a key is in both maps", "this is the condition the rule keeps unreachable", s.fi.loc)


def r19_3(ck: Check) -> None:
    s = ck.summ(DRP + ".is_time_to_connect", 0)
    sp = Spec(s, ("self", "now"))
    mx = ck.repo.const("skepticoin.networking.params.MAX_CONNECTION_ATTEMPTS")
    if not isinstance(mx, int) or mx <= 0:
        raise AnalysisError("MAX_CONNECTION_ATTEMPTS does not fold to a positive integer")
    require_returns_table(ck, "R19.3", s, sp, [
        ("self.ban_score > %d" % mx, "False"),
        ("self.ban_score <= %d" % mx,
         "(self.last_connection_attempt is None) or (now - self.last_connection_attempt >= min(10 * pow(2, self.ban_score), 1800))"),
    ], "retry no sooner than min(10 s * 2^k, 30 min) after the previous attempt; never beyond the configured number of failures (%d)" % mx)
    st = ck.summ(NM + ".step", 0)
    spl = Spec(st, ("self", "now"), forall=[("p", "self.disconnected_peers.values()")])
    p = spl.term("p")
    conds = {spl.term("p.direction == OUTGOING"), spl.term("(p.host, p.port) not in self.my_addresses"), spl.term("p.is_time_to_connect(now)")}
    calls = [e for e in st.events if e.kind == "call" and "skepticoin.networking.local_peer.LocalPeer.start_outgoing_connection" in e.targets]
    stamp = [e for e in st.events if e.kind == "store" and e.term == ("a", p, "last_connection_attempt")]
    construct = "NetworkManager.step: connect only if OUTGOING ∧ not an own address ∧ is_time_to_connect(now); the attempt time is recorded first"
    ok = False
    if len(calls) == 1 and len(stamp) == 1 and calls[0].term[2] == (p,):
        have = set()
        for c in calls[0].pc:
            have.update(conjuncts(c.term))
        ok = conds <= have and stamp[0].value == spl.term("now") and stamp[0].seq < calls[0].seq \
            and [c.term for c in stamp[0].pc] == [c.term for c in calls[0].pc] and list(loop_doms(calls[0])) == spl.loops
    if ok:
        ck.ok("R19.3", construct, "", calls[0].loc)
    else:
        ck.violated("R19.3", construct, "reconnect step changed: %s" % [e.describe()[:240] for e in calls + stamp], st.fi.loc)
    # ban score writers
    tw = [w for w in typed_writes(ck.walker, ck.repo) if w.attr == "ban_score" and w.owner.startswith(RPQ)]
    by = {}
    for w in tw:
        by.setdefault(w.func, []).append(w)
    okw = {RPQ + "RemotePeer.__init__", NM + ".handle_peer_disconnected", CRP + ".handle_hello_message_received"}
    extra = set(by) - okw
    if extra:
        for f in sorted(extra):
            ck.violated("R19.3", "%s writes ban_score" % short(f), "the failure counter is changed outside disconnect-without-greeting (+1) and greeting (=0)",
                        by[f][0].ev.loc)
    d = ck.summ(NM + ".handle_peer_disconnected", 0)
    spd = Spec(d, ("self", "rp"))
    inc = [e for e in d.events if e.kind == "store" and e.term == spd.term("rp.ban_score")]
    want_pc = {spd.term("rp.direction == OUTGOING"), spd.term("not rp.hello_received")}
    construct = "ban_score += 1 exactly when an OUTGOING connection ends without a greeting; reset to 0 on a greeting"
    h = ck.summ(CRP + ".handle_hello_message_received", 0)
    sph = Spec(h, ("self", "header", "message"))
    rst = [e for e in h.events if e.kind == "store" and e.term == sph.term("self.ban_score")]
    # the greeting resets the counter of the connection that greeted, and of no other record (an entry waiting for its back-off keeps its k)
    others = [e for e in h.events + d.events if e.kind == "store" and e.term[0] == "a" and e.term[2] == "ban_score" and e not in inc and e not in rst]
    for e in others:
        ck.violated("R19.3", "%s: only the record of the connection itself has its failure counter changed" % short(e.func),
                    "%s — k counts consecutive OUTGOING attempts that ended without a greeting; wiping it on another event means the peer is "
                    "never given up on and is retried sooner than min(10 s x 2^k, 30 min)" % e.describe()[:120], e.loc)
    if len(inc) == 1 and inc[0].value == spd.term("rp.ban_score + 1") and {c.term for c in inc[0].pc} == want_pc \
            and len(rst) == 1 and rst[0].value == C(0) and not residual(rst[0], ()) and not extra and not others:
        ck.ok("R19.3", construct, "k counts consecutive attempts that ended without a greeting", inc[0].loc)
    else:
        ck.violated("R19.3", construct, "increment %s; reset %s" % ([e.describe()[:120] for e in inc], [e.describe()[:80] for e in rst]), d.fi.loc)
    # the record carries its fields through connect / disconnect
    a = ck.summ(DRP + ".as_connected", 0)
    require_return(ck, "R19.3", a, Spec(a, ("self", "lp", "sock")),
                   "ConnectedRemotePeer(lp, self.host, self.port, self.direction, self.last_connection_attempt, sock, self.ban_score)",
                   "connecting keeps host, port, direction, last attempt and failure count")
    b = ck.summ(CRP + ".as_disconnected", 0)
    require_return(ck, "R19.3", b, Spec(b, ("self",)),
                   "DisconnectedRemotePeer(self.host, self.port, self.direction, self.last_connection_attempt, self.ban_score)",
                   "disconnecting keeps host, port, direction, last attempt and failure count")
    dd = [e for e in d.events if e.kind == "store" and e.term[0] == "s" and e.term[1] == spd.term("self.disconnected_peers")]
    if len(dd) == 1 and dd[0].value == spd.term("rp.as_disconnected()") and [c.term for c in dd[0].pc] == [spd.term("rp.direction == OUTGOING")]:
        ck.ok("R19.3", "handle_peer_disconnected: only OUTGOING peers are kept for reconnection, as as_disconnected()", "", dd[0].loc)
    else:
        ck.violated("R19.3", "handle_peer_disconnected: only OUTGOING peers are kept for reconnection, as as_disconnected()",
                    "%s" % [e.describe()[:140] for e in dd], d.fi.loc)
    for name, want in (("TIME_TO_SECOND_CONNECTION_ATTEMPT", 10), ("MAX_TIME_BETWEEN_CONNECTION_ATTEMPTS", 1800)):
        v = ck.repo.const("skepticoin.networking.params." + name)
        if v == want:
            ck.ok("R19.3", "params.%s == %d" % (name, want), "", "")
        else:
            ck.violated("R19.3", "params.%s == %d" % (name, want), "folds to %r" % (v,), "")


def r19_4(ck: Check) -> None:
    h = ck.summ(CRP + ".handle_hello_message_received", 0)
    sp = Spec(h, ("self", "header", "message"))
    cond = {sp.term("self.direction == OUTGOING"), sp.term("message.nonce == self.local_peer.nonce")}
    add = [e for e in h.events if e.kind == "call" and e.term == sp.term("self.local_peer.network_manager.my_addresses.add((self.host, self.port))")]
    dis = [e for e in h.events if e.kind == "call" and "skepticoin.networking.local_peer.LocalPeer.disconnect" in e.targets
           and e.term[2] and e.term[2][0] == sp.term("self")]
    construct = "greeting with our own nonce on an OUTGOING connection: address recorded as ours, connection dropped"
    def pcset(e: Event) -> Set[Term]:
        out: Set[Term] = set()
        for c in e.pc:
            out.update(conjuncts(c.term))
        return out
    if len(add) == 1 and len(dis) == 1 and pcset(add[0]) == cond and pcset(dis[0]) == cond:
        ck.ok("R19.4", construct, "with R19.3's `not in my_addresses` conjunct the address is not retried", add[0].loc)
    else:
        ck.violated("R19.4", construct, "self-connection handling: %s" % [e.describe()[:160] for e in add + dis], h.fi.loc)


def r19_9(ck: Check) -> None:
    """the other half of self-detection and of the reverse-direction entry: the greeting we SEND carries our own nonce and listening port,
    once per connection, before anything else"""
    s = ck.summ(CRP + ".step", 0)
    sp = Spec(s, ("self", "now"))
    hello = [e for e in s.events if e.kind == "call" and "new:skepticoin.networking.messages.HelloMessage" in e.targets]
    sends = [e for e in s.events if e.kind == "call" and not e.chain and CRP + ".send_message" in e.targets]
    mark = [e for e in s.events if e.kind == "store" and e.term == sp.term("self.hello_sent")]
    first = sp.term("not self.hello_sent")
    construct = "ConnectedRemotePeer.step: the greeting is sent once (hello_sent set), carrying local_peer.nonce and the listening port (0 if none)"
    ok = False
    if len(hello) == 1 and len(mark) == 1 and mark[0].value == C(True):
        args = hello[0].term[2]
        hs = [e for e in sends if e.term[2] and e.term[2][0] == hello[0].term]
        ok = (len(args) >= 6 and args[5] == sp.term("self.local_peer.nonce")
              and args[4] == sp.term("self.local_peer.port if self.local_peer.port else 0")
              and len(hs) == 1 and [c.term for c in hs[0].pc] == [first] and [c.term for c in mark[0].pc] == [first])
    if ok:
        ck.ok("R19.9", construct, "", hello[0].loc)
    else:
        ck.violated("R19.9", construct, "%s" % [show(e.term)[:200] for e in hello], s.fi.loc)
    gp = [e for e in sends if e.term[2] and e.term[2][0][0] == "call" and e.term[2][0][1] == ("g", "skepticoin.networking.messages.GetPeersMessage")]
    construct = "ConnectedRemotePeer.step: peers are asked for only after the greeting was received, at most once per GET_PEERS_INTERVAL and one request at a time"
    want = {sp.term("self.hello_received"), sp.term("not self.waiting_for_peers"),
            sp.term("self.last_get_peers_sent_at is None or now > self.last_get_peers_sent_at + GET_PEERS_INTERVAL")}
    if len(gp) == 1 and {x for c in gp[0].pc for x in conjuncts(c.term)} == want:
        ck.ok("R19.9", construct, "", gp[0].loc)
    else:
        ck.violated("R19.9", construct, "%s" % [e.describe()[:200] for e in gp], s.fi.loc)


def r19_6(ck: Check, rule: str = "R19.6") -> None:
    """only IPv4-mapped announced addresses are stored, as dotted quads (they are later handed to an AF_INET connect outside any catch-all)"""
    h = ck.summ(CRP + ".handle_peers_message_received", 0)
    sp = Spec(h, ("self", "header", "message"), forall=[("ap", "message.peers")])
    mapped = sp.term("ap.ip_address.ipv4_mapped")
    host = sp.term("ap.ip_address.ipv4_mapped.exploded")
    dmap = sp.term("self.local_peer.network_manager.disconnected_peers")
    st = [e for e in h.events if e.kind == "store" and e.term[0] == "s" and e.term[1] == dmap]
    construct = "handle_peers_message_received: an announced peer is recorded only if its address is IPv4-mapped, under that IPv4 host"
    notnone = ("cmp", "isnot", mapped, C(None))
    if len(st) == 1 and st[0].term[2][0] == "tuple" and st[0].term[2][1][0] == host and notnone in [c.term for c in st[0].pc] \
            and st[0].value is not None and st[0].value[0] == "call" and st[0].value[2] and st[0].value[2][0] == host:
        ck.ok(rule, construct, "", st[0].loc)
    else:
        ck.violated(rule, construct, "a peer-supplied address that is not a plain IPv4 host reaches the reconnect step, whose connect call runs outside "
                    "the per-connection catch-all and ends the network loop when it raises: %s" % [e.describe()[:200] for e in st], h.fi.loc)


def _drop_row_filters(t: Any, dom: Term) -> Any:
    """the term with every selection of rows of `dom` replaced by `dom` itself: `[r for r in dom if c]` -> dom, and conditions on a
    comprehension over dom dropped"""
    if not isinstance(t, tuple):
        return t
    if len(t) == 4 and t[0] == "comp" and isinstance(t[3], tuple) and len(t[3]) == 1:
        d, conds = t[3][0]
        d2 = _drop_row_filters(d, dom)
        if d2 == dom:
            if t[1] == "list" and t[2] == ("e", d, "elem"):
                return dom
            elt = _drop_row_filters(t[2], dom)
            if d != d2:
                from ..engine.terms import substitute
                elt = _drop_row_filters(substitute(t[2], {d: d2}), dom)
            return ("comp", t[1], elt, ((d2, ()),))
    return tuple(_drop_row_filters(x, dom) for x in t)


def r19_7(ck: Check) -> None:
    from .common import rule_ctor_identity
    rule_ctor_identity(ck, "R19.7", RPQ + "RemotePeer", ["host", "port", "direction", "last_connection_attempt", "ban_score"])
    for cls in (DRP, CRP):
        init = ck.repo.find_method(cls, "__init__")
        if init is not None and init.qualname == RPQ + "RemotePeer.__init__":
            ck.ok("R19.7", "%s inherits RemotePeer.__init__" % short(cls), "", init.loc)
            continue
        s = ck.summ(cls + ".__init__", 0)
        sup = [e for e in s.events if e.kind == "call" and e.parts and e.parts[0][0] == "a" and e.parts[0][2] == "__init__"]
        want = tuple(("v", a) for a in ("host", "port", "direction", "last_connection_attempt", "ban_score"))
        construct = "%s.__init__ passes (host, port, direction, last_connection_attempt, ban_score) to RemotePeer.__init__ in order" % short(cls)
        if len(sup) == 1 and sup[0].term[2] == want:
            ck.ok("R19.7", construct, "", sup[0].loc)
        else:
            ck.violated("R19.7", construct, "%s" % [show(e.term)[:160] for e in sup], s.fi.loc)
    lp = ck.summ(RPQ + "load_peers_from_list", 0)
    from ..engine.match import require_return
    # rows may be left out (a hand-edited file, a list from the web): the property is about the records that ARE created
    lst = ("v", lp.fi.params[0])
    rets = lp.returns()
    if len(rets) == 1 and not residual(rets[0], ()):
        from ..engine.terms import untag
        want = Spec(lp, ("lst",)).term("{(host, port, direction): DisconnectedRemotePeer(host, port, direction, None, ban_score=0) "
                                       "for (host, port, direction) in lst}")
        got = untag(rets[0].term)
        got2 = _drop_row_filters(got, lst)
        if got != want and got2 == want:
            ck.ok("R19.7", "load_peers_from_list returns a fresh record (never attempted, no failures) per row it keeps",
                  "rows are filtered before the records are made; every record made is as specified", rets[0].loc)
            return
    require_return(ck, "R19.7", lp, Spec(lp, ("lst",)),
                   "{(host, port, direction): DisconnectedRemotePeer(host, port, direction, None, ban_score=0) for (host, port, direction) in lst}",
                   "peers loaded from disk start disconnected, never attempted, with no failures")


def r19_8(ck: Check) -> None:
    """what a peer tells us (its own listening port, other peers' addresses) only ever ADDS an address to the book: an entry that is
    already waiting for reconnection keeps its attempt time and failure count, otherwise announcements would reset the back-off"""
    n = 0
    for fn in (CRP + ".handle_hello_message_received", CRP + ".handle_peers_message_received"):
        s = ck.summ(fn, 0)
        sp = Spec(s, ())
        dmap = sp.term("self.local_peer.network_manager.disconnected_peers")
        cmap = sp.term("self.local_peer.network_manager.connected_peers")
        st = [e for e in s.events if e.kind == "store" and e.term[0] == "s" and e.term[1] == dmap]
        for e in st:
            n += 1
            key = e.term[2]
            cs = {x for c in e.pc for x in conjuncts(c.term)}
            construct = "%s: a peer-supplied address is recorded only when it is in neither map" % short(fn)
            if ("cmp", "notin", key, dmap) in cs and ("cmp", "notin", key, cmap) in cs:
                ck.ok("R19.8", construct, "", e.loc)
            else:
                ck.violated("R19.8", construct, "the store is reachable for an address already waiting for reconnection (conditions: %s): its "
                            "last attempt time and failure count are overwritten, so it is dialled again at once" % sorted(show(x)[:60] for x in cs), e.loc)
    ck.expect_count("R19.8", "peer-supplied address stores", n, 2)


def r19_5(ck: Check) -> None:
    q = "skepticoin.networking.disk_interface.DiskInterface.write_peers"
    target = atomic_replace(ck, "R19.5", q, "PEERS_JSON_FILE", "the peer file is replaced atomically")
    s = ck.summ(q, 0)
    sp = Spec(s, ("self", "peer"))
    dumps = [e for e in s.events if e.kind == "call" and e.parts[0] == ("g", "ext:json.dump")]
    mx = ck.repo.const("skepticoin.networking.disk_interface.PEERS_JSON_MAX_LEN")
    construct = "write_peers: file = (new entry first, previous entries for the same (host, port, direction) removed)[:100]"
    ok = False
    detail = "dump not found"
    if len(dumps) == 1 and dumps[0].term[2]:
        arg = dumps[0].term[2][0]
        detail = show(arg)[:200]
        if arg[0] == "sl" and arg[2] is None and arg[3] == C(100) and arg[4] is None and mx == 100:
            keep = arg[1]
            item = None
            if keep[0] == "cat" and len(keep[1]) == 2 and keep[1][0][0] == "list" and len(keep[1][0][1]) == 1:
                item, keep = keep[1][0][1][0], keep[1][1]          # [new] + others
            else:
                ins = [e for e in s.events if e.kind == "call" and e.parts and e.parts[0] == ("a", keep, "insert") and e.seq < dumps[0].seq]
                if len(ins) == 1 and ins[0].term[2][0] == C(0) and not residual(ins[0], ()):
                    item = ins[0].term[2][1]                        # others.insert(0, new)
            if item is not None and keep[0] == "comp" and len(keep[3]) == 1 and len(keep[3][0][1]) >= 1:
                # further conditions (e.g. dropping malformed rows) only shorten the list: order and the entry for this peer are unaffected
                filts = [g for f in keep[3][0][1] for g in (f[1] if f[0] == "and" else (f,))]
                ident = ("list", (sp.term("peer.host"), sp.term("peer.port"), sp.term("peer.direction")))
                elem = ("e", keep[3][0][0], "elem")
                same = [f for f in filts if f[0] == "cmp" and f[1] == "!=" and {f[2], f[3]} == {ident, ("sl", elem, None, C(3), None)}]
                # ... provided they cannot fail on a row the reader tolerates (rows of older files and of published lists have three
                # fields): the function runs inside the greeting handler, before the self-connection test
                from ..engine.terms import subterms as _subterms
                partial = [x for f in filts if f not in same for x in _subterms(f)
                           if (x[0] == "s" and len(x) == 3) or (x[0] == "call" and not (x[1][0] == "g" and x[1][1] in (
                               "builtin:len", "builtin:isinstance", "builtin:bool", "builtin:str", "builtin:tuple", "builtin:list")))]
                if partial:
                    detail = "the selection of rows to keep evaluates %s on every row of the existing file: a row without that field (or with " \
                             "another format) makes write_peers raise inside the greeting handler — the greeting is lost, and with it the " \
                             "detection of a connection to the node itself" % show(partial[0])[:100]
                elif same and item[0] == "list" and item[1][:3] == ident[1] and keep[2] == elem:
                    ok = True
    if ok:
        ck.ok("R19.5", construct, "", dumps[0].loc)
    else:
        ck.violated("R19.5", construct, "dumped: %s" % detail, s.fi.loc)
    final_path_writers(ck, "R19.5", "peers.json", {
        q + ":os.remove": "removal of a file already found unreadable, before the replacement (listed exception)"}, replacer=q, final_term=target)


def check(ck: Check) -> None:
    ck.explanations.append(
        "C19: disjointness of the two peer maps as an inductive invariant of every function that writes them (typed who-may-write, then a "
        "boolean fact analysis per writer over its flow graph with havoc at calls that can reach another writer); back-off predicate and "
        "reconnect step as normalised formulas; self-connection handling; atomic replacement and truncation of the peer file.")
    writers: Dict[str, Set[Tuple[str, str]]] = {}
    def w() -> None:
        writers.update(r19_1(ck))
    ck.run("R19.1", "writers of the peer maps", w)
    ck.run("R19.2", "each writer preserves disjointness", lambda: r19_2(ck, writers))
    ck.run("R19.3", "back-off and give-up", lambda: r19_3(ck))
    ck.run("R19.4", "self-connection", lambda: r19_4(ck))
    ck.run("R19.5", "peers file", lambda: r19_5(ck))
    ck.run("R19.8", "announcements never overwrite a waiting entry", lambda: r19_8(ck))
    ck.run("R19.9", "the greeting we send: own nonce, own listening port, once", lambda: r19_9(ck))
    ck.run("R19.6", "announced addresses are sanitised", lambda: r19_6(ck))
    from .common import rule_ctor_identity
    ck.run("R19.7", "peer records store what they are given", lambda: r19_7(ck))
    ck.assume("socket behaviour and clock progressions are not modelled; thread interleavings are not analysed (the maps are only touched by the network thread)")
