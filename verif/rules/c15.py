"""C15 — Wallet keys: faithful file, no key handed out twice, atomic save."""
from __future__ import annotations

import ast
from typing import Any, Dict, Iterable, List, Optional, Set, Tuple

from ..engine.effects import typed_writes
from ..engine.flow import TOTAL_BUILTINS, Automaton, Runner, State, violation
from ..engine.match import Spec, loop_doms, require_return, require_returns_table, residual
from ..engine.repo import AnalysisError, dotted
from ..engine.report import Check
from ..engine.terms import C, Term, conjuncts, free_vars, show, substitute, subterms
from ..engine.walker import Event
from .common import functions_mentioning, only_called_from, short

W = "skepticoin.wallet."
WC = W + "Wallet"


def r15_1(ck: Check) -> None:
    sd = ck.summ(WC + ".dump", 0)
    sl = ck.summ(WC + ".load", 0)
    spd = Spec(sd, ("self", "f"))
    spl = Spec(sl, ("cls", "f"))
    dumps = [e for e in sd.events if e.kind == "call" and e.parts[0] == ("g", "ext:json.dump")]
    rets = sl.returns()
    if not dumps and not any(e.kind == "call" and e.parts and e.parts[0][0] == "a" and e.parts[0][2] in ("write", "writelines") for e in sd.events):
        ck.violated("R15.1", "Wallet.dump writes the wallet", "nothing is written: no json.dump, no write — save_wallet then replaces wallet.json "
                    "with an empty file, and every key is lost", sd.fi.loc)
        return
    if len(dumps) != 1 or not dumps[0].term[2] or dumps[0].term[2][0][0] != "dict" or len(rets) != 1 or rets[0].term[0] != "call":
        raise AnalysisError("Wallet.dump / Wallet.load left the recognised shape (json.dump of a dict literal / return cls(...))")
    d = dict((k_[1], v) for k_, v in dumps[0].term[2][0][1] if k_[0] == "c")
    loaded = spl.term("json.load(f)")
    kwargs = dict(rets[0].term[3])
    if rets[0].term[1] != ("v", sl.fi.params[0]):
        ck.violated("R15.1", "Wallet.load returns cls(...)", "returns %s" % show(rets[0].term)[:80], sl.fi.loc)
        return
    human = ("g", "skepticoin.humans.human")
    computer = ("g", "skepticoin.humans.computer")
    n = 0
    for attr in ("keypairs", "unused_public_keys", "public_key_annotations"):
        construct = "wallet file: %s written by dump is what load passes to the constructor" % attr
        if attr not in d:
            ck.violated("R15.1", construct, "dump does not write key %r (the collection is lost on save/load)" % attr, sd.fi.loc)
            continue
        if attr not in kwargs:
            ck.violated("R15.1", construct, "load does not pass %s= to the constructor" % attr, sl.fi.loc)
            continue
        n += 1
        # expected load expression: dump expression with self.<attr> -> loaded[<attr>] and human -> computer
        exp = substitute(d[attr], {("a", ("v", sd.fi.params[0]), attr): ("s", loaded, C(attr)), human: computer})
        if exp == kwargs[attr]:
            ck.ok("R15.1", construct, "inverse transforms (human on write, computer on read) in the same positions", sl.fi.loc)
        else:
            ck.violated("R15.1", construct, "dump writes %s; load reads %s" % (show(d[attr])[:90], show(kwargs[attr])[:90]), sl.fi.loc)
    extra = set(d) - {"keypairs", "unused_public_keys", "public_key_annotations"}
    ck.expect_count("R15.1", "wallet file keys", n, 3)
    # constructor stores each parameter under its own name
    init = ck.summ(WC + ".__init__", 0)
    for attr in ("keypairs", "unused_public_keys", "public_key_annotations"):
        st = [e for e in init.events if e.kind == "store" and e.term == ("a", ("v", init.fi.params[0]), attr)]
        if len(st) == 1 and st[0].value == ("v", attr):
            ck.ok("R15.1", "Wallet.__init__: self.%s = %s" % (attr, attr), "", st[0].loc)
        else:
            ck.violated("R15.1", "Wallet.__init__: self.%s = %s" % (attr, attr), "stored: %s" % [show(e.value) for e in st], init.fi.loc)
    s = ck.summ("skepticoin.humans.human", 0)
    require_return(ck, "R15.1", s, Spec(s, ("b",)), "hexlify(b).decode('utf-8')", "human = hex")
    s = ck.summ("skepticoin.humans.computer", 0)
    require_return(ck, "R15.1", s, Spec(s, ("x",)), "unhexlify(x.encode('utf-8'))", "computer = unhex (inverse of human)")


def r15_2(ck: Check) -> None:
    s = ck.summ(WC + ".get_annotated_public_key", 0)
    sp = Spec(s, ("self", "ann"))
    require_returns_table(ck, "R15.2", s, sp, [
        ("len(self.unused_public_keys) == 0", "random.choice(list(self.keypairs.keys()))"),
        ("len(self.unused_public_keys) != 0", "self.unused_public_keys.pop()"),
    ], "a key is re-used only when no unused key remains; otherwise the handed-out key is REMOVED from the unused list")
    popped = sp.term("self.unused_public_keys.pop()")
    st = [e for e in s.events if e.kind == "store" and e.term == ("s", sp.term("self.public_key_annotations"), popped)]
    construct = "get_annotated_public_key: the handed-out key is annotated"
    if len(st) == 1 and st[0].value == sp.term("ann") and [c.term for c in residual(st[0], ())] == [sp.term("len(self.unused_public_keys) != 0")]:
        ck.ok("R15.2", construct, "", st[0].loc)
    else:
        ck.violated("R15.2", construct, "annotation store: %s" % [e.describe() for e in st], s.fi.loc)
    r = ck.summ(WC + ".restore_annotated_public_key", 0)
    spr = Spec(r, ("self", "pk", "ann"))
    dl = [e for e in r.events if e.kind == "del" and e.term == spr.term("self.public_key_annotations[pk]") and not residual(e, ())]
    ap = [e for e in r.events if e.kind == "call" and e.term == spr.term("self.unused_public_keys.append(pk)") and not residual(e, ())]
    construct = "restore_annotated_public_key is the inverse: annotation deleted, key back on the unused list"
    if len(dl) == 1 and len(ap) == 1:
        ck.ok("R15.2", construct, "", r.fi.loc)
    else:
        ck.violated("R15.2", construct, "del %d, append %d" % (len(dl), len(ap)), r.fi.loc)


class PersistAutomaton(Automaton):
    """dirty = a key has been handed out and the wallet not yet saved."""

    def __init__(self, ck: Check):
        self.ck = ck
        self.handouts = 0

    def initial(self) -> List[State]:
        return [("clean", None)]

    def classify(self, ev: Event) -> Optional[str]:
        if ev.kind != "call" or ev.parts is None:
            return None
        if WC + ".get_annotated_public_key" in ev.targets:
            return "HANDOUT"
        if W + "save_wallet" in ev.targets:
            return "SAVE"
        return None

    def label(self, ev: Event) -> Optional[str]:
        return self.classify(ev)

    def on_event(self, state: State, ev: Event) -> Iterable[State]:
        k = self.classify(ev)
        if k == "HANDOUT":
            self.handouts += 1
            return [("dirty", ev.parts[0][1])]
        if k == "SAVE":
            if state[0] == "dirty":
                if ev.term[2] != (state[1],):
                    violation("save_wallet is called on %s, the key was handed out from %s" % (show(ev.term[2][0])[:40], show(state[1])[:40]))
                return [("clean", None)]
            return [state]
        if state[0] == "dirty" and ev.kind == "call" and ev.parts is not None:
            f = ev.parts[0]
            if any(t.startswith("new:") for t in ev.targets):
                return [state]            # wrapping the key in a value object
            if f[0] == "g" and f[1].startswith("builtin:") and f[1][8:] in TOTAL_BUILTINS and f[1][8:] != "print":
                return [state]
            violation("the handed-out key can leave the process (%s) before the wallet recording the hand-out is saved: after a crash the same "
                      "key is handed out again" % show(ev.term)[:70])
        return [state]


def r15_3(ck: Check, only_prefix: Optional[str] = None) -> None:
    sites = 0
    for fi in functions_mentioning(ck, "get_annotated_public_key"):
        if fi.qualname.startswith(WC):
            continue
        s = ck.summ(fi.qualname, 0)
        hs = [e for e in s.events if e.kind == "call" and not e.chain and WC + ".get_annotated_public_key" in e.targets]
        if not hs:
            continue
        sites += len(hs)
        if only_prefix and not fi.qualname.startswith(only_prefix):
            continue
        auto = PersistAutomaton(ck)
        run = Runner(s, auto, ck.repo)
        out = run.run()
        construct = "%s: save_wallet(wallet) follows every key hand-out before the key is used and before the function returns" % short(fi.qualname)
        bad = False
        for v in run.violations:
            bad = True
            ck.violated("R15.3", construct, v.what, "%s:%d" % (fi.module.path, v.line), list(v.trace))
        for st, tr in out.ret.items():
            if st[0] == "dirty":
                bad = True
                ck.violated("R15.3", construct, "a normal exit is reached with the hand-out not persisted", fi.loc, list(tr))
        if not bad:
            ck.ok("R15.3", construct, "%d hand-out site(s)" % len(hs), hs[0].loc)
    if not only_prefix:
        ck.expect_count("R15.3", "hand-out call sites", sites, 4)
    else:
        ck.expect_count("R15.3", "hand-out call sites", sites, 2)


def _closed(t: Term) -> bool:
    return not any(x[0] in ("v", "lv", "e", "new") for x in subterms(t))


def _str_leaves(t: Term) -> Set[str]:
    return {x[1] for x in subterms(t) if x[0] == "c" and len(x) == 2 and isinstance(x[1], str)}


def _never_none(t: Term) -> bool:
    if t[0] == "c":
        return t[1] is not None
    if t[0] in ("or", "vor"):
        return any(x[0] == "c" and bool(x[1]) for x in t[1])       # a true member: the result is a true value
    return t[0] in ("cat", "list", "tuple", "lin")


def _decide_none_tests(t: Any) -> Any:
    """after a parameter was replaced by its value: `A if X is None else B` with X known (not) to be None"""
    if not isinstance(t, tuple):
        return t
    t = tuple(_decide_none_tests(x) for x in t)
    if t and t[0] == "ife" and len(t) == 4 and t[1][0] == "cmp" and t[1][1] in ("is", "isnot") and C(None) in (t[1][2], t[1][3]):
        x = t[1][2] if t[1][3] == C(None) else t[1][3]
        yes, no = (t[2], t[3]) if t[1][1] == "is" else (t[3], t[2])
        if x == C(None):
            return yes
        if _never_none(x):
            return no
    return t


def param_bindings(ck: Check, qual: str, pname: str) -> List[Term]:
    """the values the parameter `pname` of `qual` takes over all call sites in the repository (default included when a site omits
    it); each must be closed (no caller-local names), else the analysis is refused"""
    fi = ck.repo.func(qual)
    idx = fi.params.index(pname)
    dflt = fi.defaults().get(pname)
    out: List[Term] = []
    sites = 0
    for cf in functions_mentioning(ck, fi.name):
        cs = ck.summ(cf.qualname, 0)
        for e in cs.events:
            if e.kind != "call" or e.chain or qual not in e.targets or e.term[0] != "call":
                continue
            sites += 1
            args, kw = e.term[2], dict(e.term[3])
            shift = 1 if (fi.cls is not None and e.parts and e.parts[0][0] == "a") else 0
            if len(args) > idx - shift >= 0:
                v = args[idx - shift]
            elif pname in kw:
                v = kw[pname]
            elif dflt is not None:
                v = Spec(ck.summ(qual, 0), ()).term(ast.unparse(dflt))
            else:
                raise AnalysisError("call to %s without a value for %s at %s" % (short(qual), pname, e.loc))
            if not _closed(v):
                raise AnalysisError("%s is called with a %s that depends on caller-local names (%s) at %s" % (short(qual), pname, show(v)[:80], e.loc))
            if v not in out:
                out.append(v)
    if not sites and dflt is not None:
        out.append(Spec(ck.summ(qual, 0), ()).term(ast.unparse(dflt)))
    return out


def atomic_replace(ck: Check, rule: str, qual: str, final_text: str, what: str) -> Optional[Term]:
    """write side file inside `with open(side, 'w')`, then os.replace(side, final) after the file is closed, as the last effect;
    nothing else in the repository opens / removes / renames the final path for writing (listed exceptions aside).
    The final path is either the constant `final_text` or one expression (the same at every call site) that may fall back to it -
    e.g. a default that an environment variable overrides; the expression is returned so that readers can be checked against it."""
    s = ck.summ(qual, 0)
    sp = Spec(s, ())
    final = sp.term(final_text)
    if final[0] != "c":
        raise AnalysisError("final path %s does not fold to a constant" % final_text)
    opens = [e for e in s.events if e.kind == "call" and e.parts[0] == ("g", "builtin:open") and len(e.term[2]) >= 2
             and e.term[2][1][0] == "c" and any(ch in str(e.term[2][1][1]) for ch in "wa+x")]
    repl = [e for e in s.events if e.kind == "call" and e.parts[0] in (("g", "ext:os.replace"), ("g", "ext:os.rename"))]
    construct = "%s: side file written and closed, then os.replace(side, %r)" % (short(qual), final[1])
    problems = []
    target: Optional[Term] = None
    if len(opens) != 1:
        problems.append("%d files opened for writing" % len(opens))
    if len(repl) != 1:
        problems.append("%d replace/rename calls" % len(repl))
    if not problems:
        side = opens[0].term[2][0]
        target = repl[0].term[2][1] if len(repl[0].term[2]) == 2 else None
        if target is not None and target != final:
            # parameters take the values the call sites give them; what remains must be one closed expression around the default name
            for pn in sorted(free_vars(target) & set(s.fi.params)):
                vals = param_bindings(ck, qual, pn)
                got = {(_decide_none_tests(substitute(target, {("v", pn): v})), _decide_none_tests(substitute(side, {("v", pn): v}))) for v in vals}
                if len(got) != 1:
                    problems.append("the final path depends on the parameter %s, which gives %d different paths over the call sites" % (pn, len(got)))
                else:
                    target, side = next(iter(got))
            if target != final and not (_closed(target) and final[1] in _str_leaves(target)):
                problems.append("replace(%s) does not move the side file onto the final path" % ", ".join(show(a) for a in repl[0].term[2]))
        if side == target or side == final:
            problems.append("the final file itself is opened for writing (a crash mid-write leaves a truncated file)")
        if target is None or repl[0].term[2][0] != opens[0].term[2][0]:
            problems.append("replace(%s) does not move the side file that was written" % ", ".join(show(a) for a in repl[0].term[2]))
        if repl[0].parts[0] != ("g", "ext:os.replace"):
            problems.append("os.rename is not atomic-overwrite on all platforms")
        if opens[0].term in repl[0].withs:
            problems.append("the replace happens while the side file is still open (inside the with block): unflushed data may be missing")
        writes = [e for e in s.events if e.kind == "call" and opens[0].term in e.withs]
        if not writes:
            problems.append("nothing is written inside the with block")
        if any(e.seq > repl[0].seq for e in s.events if e.kind == "call" and e.parts[0][0] != "g"):
            problems.append("effects after the replace")
        if residual(repl[0], ()) or repl[0].loops:
            problems.append("the replace is conditional")
        if writes and any(w.seq > repl[0].seq for w in writes):
            problems.append("the replace precedes the write")
    if problems:
        ck.violated(rule, construct, "%s — %s" % (what, "; ".join(problems)), s.fi.loc)
        return None
    ck.ok(rule, construct, what if target == final else "%s (final path: %s)" % (what, show(target)[:100]), s.fi.loc)
    return target


def final_path_writers(ck: Check, rule: str, final: str, allowed: Dict[str, str], replacer: Optional[str] = None,
                       final_term: Optional[Term] = None) -> None:
    """`replacer`: the one function whose write-side-file-then-os.replace sequence was verified; an os.replace onto the final path
    anywhere else (or in a helper not only it calls) moves an unverified - possibly partial - file into place.
    `final_term`: when the final path is an expression rather than the constant, sites that write the path that expression gives."""
    n = 0
    if final_term is not None and final_term != C(final):
        for fi in ck.repo.all_functions():
            if ck.walker.transparent(fi.qualname):
                continue
            for e in ck.summ(fi.qualname, 0).events:
                if e.kind != "call" or e.chain or not e.parts or e.parts[0][0] != "g" or e.term[0] != "call":
                    continue
                ref, args = e.parts[0][1], e.term[2]
                what = None
                if ref == "builtin:open" and args and args[0] == final_term:
                    mode = args[1] if len(args) > 1 else dict(e.term[3]).get("mode", C("r"))
                    if mode[0] != "c" or any(ch in str(mode[1]) for ch in "wa+x"):
                        what = "open(%s, %s)" % (show(final_term)[:60], show(mode))
                elif ref in ("ext:os.remove", "ext:os.unlink", "ext:os.truncate") and args and args[0] == final_term:
                    what = "%s(%s)" % (ref[4:], show(final_term)[:60])
                elif ref in ("ext:os.rename", "ext:os.replace", "ext:shutil.move", "ext:shutil.copy", "ext:shutil.copyfile") and len(args) == 2 \
                        and args[1] == final_term:
                    what = "%s(.., %s)" % (ref[4:], show(final_term)[:60])
                if what is None:
                    continue
                key = "%s:%s" % (fi.qualname, what.split("(")[0])
                if key in allowed:
                    ck.note("%s: %s %s — %s" % (rule, short(fi.qualname), what, allowed[key]))
                    continue
                if what.startswith("os.replace") and replacer is not None and (fi.qualname == replacer or only_called_from(ck, fi.qualname, {replacer}, 0)):
                    continue
                n += 1
                ck.violated(rule, "%s writes %r directly" % (short(fi.qualname), final),
                            "%s — the final file must only ever be the target of os.replace" % what, e.loc)
    ctl = _path_writers(ast.parse("open('%s', 'w')\nimport os\nos.remove('%s')\nos.replace('x', '%s')\n" % (final, final, final)), final, lambda n_: None)
    if len(ctl) != 3:
        ck.unknown(rule, "positive control", "the final-path writer scan did not flag its control snippet")
        return
    for m in ck.repo.modules.values():
        owner: Dict[int, str] = {}
        for fi in ck.repo.all_functions():
            if fi.module is m:
                for nd in ast.walk(fi.node):
                    owner[id(nd)] = fi.qualname

        def fold(nd: ast.AST) -> Any:
            try:
                return ck.repo.fold(nd, m, None, {})
            except AnalysisError:
                return None
        for ln, what, node in _path_writers(m.tree, final, fold):
            fn = owner.get(id(node), m.name)
            key = "%s:%s" % (fn, what.split("(")[0])
            if key not in allowed and fn in ck.repo.functions and ck.walker.transparent(fn):
                # a helper split off later from the function the exception was granted to
                for k_ in allowed:
                    f_, _, w_ = k_.rpartition(":")
                    if w_ == what.split("(")[0] and only_called_from(ck, fn, {f_}, 0):
                        key = k_
            if key in allowed:
                ck.note("%s: %s %s — %s" % (rule, short(fn), what, allowed[key]))
                continue
            if what.startswith("os.replace") and replacer is not None and (fn == replacer or only_called_from(ck, fn, {replacer}, 0)):
                continue
            n += 1
            ck.violated(rule, "%s writes %r directly" % (short(fn), final),
                        "%s — the final file must only ever be the target of os.replace" % what, "%s:%d" % (m.path, ln))
    if n == 0:
        ck.ok(rule, "no other site opens / removes / renames %r for writing" % final, "repository-wide scan", "")


def _path_writers(tree: ast.AST, final: str, fold: Any) -> List[Tuple[int, str, ast.AST]]:
    out = []
    for n in ast.walk(tree):
        if not isinstance(n, ast.Call):
            continue
        d = dotted(n.func) or ""

        def val(a: ast.AST) -> Any:
            if isinstance(a, ast.Constant):
                return a.value
            return fold(a)
        if d == "open" and n.args:
            mode = "r"
            if len(n.args) > 1:
                mode = val(n.args[1]) or "?"
            for k_ in n.keywords:
                if k_.arg == "mode":
                    mode = val(k_.value) or "?"
            if val(n.args[0]) == final and any(ch in str(mode) for ch in "wa+x?"):
                out.append((n.lineno, "open(%r, %r)" % (final, mode), n))
        elif d in ("os.remove", "os.unlink", "os.truncate") and n.args and val(n.args[0]) == final:
            out.append((n.lineno, "%s(%r)" % (d, final), n))
        elif d in ("os.rename", "os.replace", "shutil.move", "shutil.copy", "shutil.copyfile") and len(n.args) == 2 and val(n.args[1]) == final:
            out.append((n.lineno, "%s(.., %r)" % (d, final), n))
    return out


def r15_6(ck: Check) -> None:
    """a key is given back (restore_annotated_public_key) only in memory, when a run ends: the wallet is not saved afterwards in the
    same function. Whether the key was already paid by a published block is not known at that point; persisting the give-back would let
    the next run hand the same key out again."""
    n = 0
    for fi in functions_mentioning(ck, "restore_annotated_public_key"):
        if fi.qualname.startswith(WC):
            continue
        s = ck.summ(fi.qualname, 0)
        rs = [e for e in s.events if e.kind == "call" and not e.chain and WC + ".restore_annotated_public_key" in e.targets]
        if not rs:
            continue
        n += len(rs)
        saves = [e for e in s.events if e.kind == "call" and not e.chain and W + "save_wallet" in e.targets]
        construct = "%s: a key given back is not written to the wallet file (no save_wallet after restore_annotated_public_key)" % short(fi.qualname)
        late = [e for e in saves if any(e.seq > r.seq for r in rs)]
        if late:
            ck.violated("R15.6", construct, "save_wallet follows the give-back: on the failure path after a found block was published the key that "
                        "block pays is persisted as unused and handed out again by the next run", late[0].loc)
        else:
            ck.ok("R15.6", construct, "%d give-back site(s)" % len(rs), rs[0].loc)
    ck.stats["key give-back sites"] = n     # (none is fine too: a key that is never given back is never handed out twice)


def r15_7(ck: Check) -> None:
    """what the balance command prints is the wallet's balance at the served state, in coin"""
    q = "skepticoin.scripts.balance.main"
    s = ck.summ(q, 0)
    sp = Spec(s, ())
    prints = [e for e in s.events if e.kind == "call" and e.parts and e.parts[0] == ("g", "builtin:print") and e.term[2]
              and any(t == WC + ".get_balance" for x in [e] for t in [])]
    bal = [e for e in s.events if e.kind == "call" and WC + ".get_balance" in e.targets]
    construct = "scripts.balance: prints wallet.get_balance(served state) / SASHIMI_PER_COIN"
    ok = False
    if len(bal) == 1:
        unit = ck.repo.const("skepticoin.params.SASHIMI_PER_COIN")
        want = ("op", "div", bal[0].term, C(unit))
        pr = [e for e in s.events if e.kind == "call" and e.parts and e.parts[0] == ("g", "builtin:print") and e.term[2] and e.term[2][0] == want]
        served = bal[0].term[2] and bal[0].term[2][0][0] == "a" and bal[0].term[2][0][2] == "coinstate" and "chain_manager" in show(bal[0].term[2][0])
        ok = len(pr) == 1 and bool(served)
    if ok:
        ck.ok("R15.7", construct, "", bal[0].loc)
    else:
        ck.violated("R15.7", construct, "the printed amount is not the balance divided by the coin unit: %s" % [show(e.term)[:160] for e in bal], s.fi.loc)


def r15_8(ck: Check) -> None:
    """start-up: an existing wallet file is loaded as it is; only when there is none a new wallet is created, filled and saved at once"""
    q = "skepticoin.scripts.utils.open_or_init_wallet"
    s = ck.summ(q, 0)
    sp = Spec(s, ())
    path = getattr(ck, "wallet_path", None) or C("wallet.json")        # the path save_wallet replaces (R15.4)
    exists = substitute(sp.term("os.path.isfile('wallet.json')"), {C("wallet.json"): path})
    loads = [e for e in s.events if e.kind == "call" and not e.chain and WC + ".load" in e.targets]
    gens = [e for e in s.events if e.kind == "call" and not e.chain and WC + ".generate_keys" in e.targets]
    saves = [e for e in s.events if e.kind == "call" and not e.chain and W + "save_wallet" in e.targets]
    other = [e for e in s.events if e.kind == "call" and not e.chain and any(t.startswith(WC + ".") and t.split(".")[-1] not in ("load", "empty", "generate_keys")
                                                                             for t in e.targets)]
    cs = lambda e: {x for c in e.pc for x in conjuncts(c.term)}   # noqa
    from ..engine.terms import mk_not
    construct = "open_or_init_wallet: wallet.json exists -> Wallet.load(it), nothing else; otherwise empty + generate_keys + save_wallet"
    src = loads[0].term[2][0] if len(loads) == 1 and loads[0].term[0] == "call" and loads[0].term[2] else None
    reads_it = src is not None and src[0] == "call" and src[1] == ("g", "builtin:open") and src[2][:1] == (path,) and (
        len(src[2]) == 1 or src[2][1] in (C("r"), C("rt")))
    ok = (len(loads) == 1 and reads_it and cs(loads[0]) == {exists} and len(gens) == 1 and len(saves) == 1 and cs(gens[0]) == {mk_not(exists)} == cs(saves[0])
          and gens[0].seq < saves[0].seq and not other)
    if ok:
        ck.ok("R15.8", construct, "", s.fi.loc)
    else:
        ck.violated("R15.8", construct, "%s" % [e.describe()[:120] for e in loads + gens + saves + other], s.fi.loc)


def r15_4(ck: Check) -> None:
    target = atomic_replace(ck, "R15.4", W + "save_wallet", "'wallet.json'", "at every instant wallet.json is the complete previous or the complete new wallet")
    ck.wallet_path = target     # type: ignore[attr-defined]
    s = ck.summ(W + "save_wallet", 0)
    dump = [e for e in s.events if e.kind == "call" and WC + ".dump" in e.targets and e.parts[0][1] == ("v", s.fi.params[0])]
    if len(dump) == 1:
        ck.ok("R15.4", "save_wallet writes wallet.dump(f) of the wallet it was given", "", dump[0].loc)
    else:
        ck.violated("R15.4", "save_wallet writes wallet.dump(f) of the wallet it was given", "%d dump calls" % len(dump), s.fi.loc)
    final_path_writers(ck, "R15.4", "wallet.json", {}, replacer=W + "save_wallet", final_term=target)


def r15_5(ck: Check) -> None:
    tw = [w for w in typed_writes(ck.walker, ck.repo) if w.owner == WC and w.attr in ("keypairs", "unused_public_keys", "public_key_annotations")]
    by_func: Dict[str, Set[Tuple[str, str]]] = {}
    for w in tw:
        by_func.setdefault(w.func, set()).add((w.attr, w.kind))
    patterns = {
        "generate (+keypairs, +unused)": {("keypairs", "item-store"), ("unused_public_keys", "call:append")},
        "hand-out (-unused, +annotations)": {("unused_public_keys", "call:pop"), ("public_key_annotations", "item-store")},
        "restore (-annotations, +unused)": {("public_key_annotations", "item-del"), ("unused_public_keys", "call:append")},
        "constructor": {("keypairs", "store"), ("unused_public_keys", "store"), ("public_key_annotations", "store")},
    }
    n = 0
    for fn, ws in sorted(by_func.items()):
        n += 1
        match = [nm for nm, p in patterns.items() if p == ws]
        construct = "%s mutates the key collections as one of the partition-preserving transfers" % short(fn)
        if match:
            ck.ok("R15.5", construct, match[0], ck.repo.func(fn).loc)
        else:
            ck.violated("R15.5", construct, "writes %s — keys would be lost from / duplicated across (unused, annotated), so a key may be handed out "
                        "twice or the balance may miss keys" % sorted(ws), ck.repo.func(fn).loc)
    ck.expect_count("R15.5", "functions writing the key collections", n, 4)
    s = ck.summ(WC + ".get_balance", 0)
    sp = Spec(s, ("self", "cs"))
    require_return(ck, "R15.5", s, sp,
                   "sum(cs.public_key_balances_by_hash[cs.current_chain_hash].get(SECP256k1PublicKey(pk), PKBalance(0, [])).value "
                   "for pk in list(self.public_key_annotations.keys()) + self.unused_public_keys)",
                   "balance = sum over all wallet keys (annotated + unused = all, by the partition) of the head's per-key balance")


def check(ck: Check) -> None:
    ck.explanations.append(
        "C15: dump/load mirror tables; hand-out removes the key; typestate 'hand-out -> save_wallet before the key can leave the process' at "
        "every call site; atomic-replace rule for wallet.json plus repository-wide who-may-write of the final path; partition-preserving "
        "transfer patterns for every writer of the three key collections.")
    ck.run("R15.1", "dump/load mirror", lambda: r15_1(ck))
    ck.run("R15.2", "hand-out removes, restore is the inverse", lambda: r15_2(ck))
    ck.run("R15.3", "persist before expose, at every call site", lambda: r15_3(ck))
    ck.run("R15.4", "atomic replace of wallet.json", lambda: r15_4(ck))
    ck.run("R15.6", "a key given back at shutdown is not persisted", lambda: r15_6(ck))
    ck.run("R15.7", "the balance command reports the balance", lambda: r15_7(ck))
    ck.run("R15.8", "start-up loads the wallet file unchanged", lambda: r15_8(ck))
    ck.run("R15.5", "partition preserved; balance over all keys", lambda: r15_5(ck))
    from .c03 import r03_3, r03_4
    ck.run("R03.4", "per-key balances = unspent outputs paying the key (updater agreement)", lambda: (r03_4(ck), r03_3(ck)))
    ck.assume("os.replace is atomic on the target file system; crash injection is not performed (the rule is the static form of 'every instant')")
