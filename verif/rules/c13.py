"""C13 — Pending-transaction pool holds only valid, mutually compatible transactions (invariant inductive over the pool's writers)."""
from __future__ import annotations

from typing import List

from ..engine.effects import typed_writes
from ..engine.match import Spec, find_calls, loop_doms, require_call, residual
from ..engine.report import Check
from ..engine.terms import C, show
from ..engine.walker import after_completion, swallowed_by
from .common import CONS, functions_mentioning, short

CM = "skepticoin.networking.manager.ChainManager"


def r13_1(ck: Check) -> None:
    q = CM + ".add_transaction_to_pool"
    summ = ck.summ(q, 0)
    sp = Spec(summ, ("self", "tx"))
    pool = sp.term("self.transaction_pool")
    lock = sp.term("self.lock")
    apps = [e for e in summ.events if e.kind == "call" and e.parts and e.parts[0] == ("a", pool, "append")]
    construct = "add_transaction_to_pool: single append of the candidate, under the lock"
    if len(apps) == 1 and apps[0].term[2] == (sp.term("tx"),) and lock in apps[0].withs and not residual(apps[0], ()) and not apps[0].loops:
        ck.ok("R13.1", construct, "", apps[0].loc)
        app = apps[0]
    else:
        ck.violated("R13.1", construct, "pool appends: %s" % "; ".join(e.describe() for e in apps), summ.fi.loc)
        return
    wants = [
        (CONS + "validate_non_coinbase_transaction_by_itself", ["tx"], "structural validation of the candidate"),
        (CONS + "validate_non_coinbase_transaction_in_coinstate", ["tx", "self.coinstate.current_chain_hash", "self.coinstate"],
         "validation against the head id and state of the SAME served coinstate"),
        (CONS + "validate_no_duplicate_output_references_in_transactions", ["self.transaction_pool + [tx]"],
         "no output reference shared between the whole pool and the candidate"),
    ]
    for tgt, args, what in wants:
        a = [sp.term(x) for x in args]
        good, near = find_calls(summ, tgt, a, (), (), None, own_only=True)
        construct = "add_transaction_to_pool: %s(%s) completes before the append" % (tgt.split(".")[-1], ", ".join(show(x) for x in a))
        if not good:
            ck.violated("R13.1", construct, "%s — %s" % (what, near[0][1] if near else "no such call"), near[0][0].loc if near else summ.fi.loc)
            continue
        ev = good[0]
        problems = []
        if ev.seq > app.seq:
            problems.append("it runs after the append")
        if lock not in ev.withs:
            problems.append("it runs outside the lock (the state may change between check and append)")
        for ti in ev.tries:
            if ti.handler_falls:
                problems.append("a failing validation is caught by the try at line %d whose handler continues to the append" % ti.node.lineno)
        if problems:
            ck.violated("R13.1", construct, "%s — %s" % (what, "; ".join(problems)), ev.loc)
        else:
            ck.ok("R13.1", construct, what, ev.loc)
    rets = summ.returns()
    trues = [r for r in rets if r.term == C(True)]
    falses = [r for r in rets if r.term == C(False)]
    construct = "add_transaction_to_pool returns True only after the append; False only from the rejection handler"
    if len(trues) == 1 and trues[0].seq > app.seq and not residual(trues[0], ()) and all(any(c.prov == "handler" for c in r.pc) for r in falses) \
            and len(trues) + len(falses) == len(rets):
        ck.ok("R13.1", construct, "the caller relays exactly when the transaction was admitted", trues[0].loc)
    else:
        ck.violated("R13.1", construct, "returns: %s" % "; ".join(r.describe() for r in rets), summ.fi.loc)


def r13_2(ck: Check) -> None:
    tw = typed_writes(ck.walker, ck.repo)
    ck.stats["typed_write_sites"] = len(tw)
    if len(tw) < 100:
        ck.unknown("R13.2", "typed writes", "the typed who-may-write scan found only %d write sites in the repository" % len(tw))
    # positive control: the scan must see set_coinstate's own store
    own = [w for w in tw if w.owner == CM and w.attr == "coinstate" and w.func == CM + ".set_coinstate" and w.kind == "store"]
    if not own:
        ck.violated("R13.2", "ChainManager.coinstate is assigned in set_coinstate", "the single sanctioned writer is gone (positive control of the scan)", "")
        return
    allowed = {
        "coinstate": {CM + ".set_coinstate"},
        "transaction_pool": {CM + ".add_transaction_to_pool", CM + "._cleanup_transaction_pool_for_coinstate", CM + ".__init__"},
        "last_known_valid_coinstate": {CM + ".set_coinstate", CM + ".__init__"},
    }
    for attr, ok_funcs in allowed.items():
        sites = [w for w in tw if w.owner == CM and w.attr == attr]
        bad = [w for w in sites if w.func not in ok_funcs]
        construct = "ChainManager.%s is written only by %s" % (attr, sorted(short(f).split(".")[-1] for f in ok_funcs))
        if not bad:
            ck.ok("R13.2", construct, "%d write site(s)" % len(sites), "")
        for w in bad:
            ck.violated("R13.2", "%s writes ChainManager.%s" % (short(w.func), attr),
                        "a foreign writer of pool / served state bypasses admission and eviction (%s)" % w.kind, w.ev.loc)
    # the pool list escapes through get_state(): its users must not mutate it
    for fi in functions_mentioning(ck, "get_state"):
        if fi.qualname == CM + ".get_state":
            continue
        s = ck.summ(fi.qualname, 0)
        gs = [e for e in s.events if e.kind == "call" and CM + ".get_state" in e.targets]
        if not gs:
            continue
        alias = ("s", gs[0].term, C(1))
        muts = [e for e in s.events if (e.kind == "call" and e.parts and e.parts[0][0] == "a" and e.parts[0][1] == alias
                                        and e.parts[0][2] in ("append", "extend", "insert", "pop", "remove", "clear", "sort", "reverse"))
                or (e.kind in ("store", "del") and e.term[0] == "s" and e.term[1] == alias)]
        construct = "%s uses the pool list obtained from get_state() read-only" % short(fi.qualname)
        if muts:
            ck.violated("R13.2", construct, "mutates the shared pool list: %s" % muts[0].describe(), muts[0].loc)
        else:
            ck.ok("R13.2", construct, "", gs[0].loc)
    # all callers of set_coinstate go through the setter (count)
    n = 0
    for fi in functions_mentioning(ck, "set_coinstate"):
        if True:
            s = ck.summ(fi.qualname, 0)
            n += len([e for e in s.events if e.kind == "call" and not e.chain and CM + ".set_coinstate" in e.targets])
    ck.expect_count("R13.2", "set_coinstate call sites", n, 5)


def r13_6(ck: Check, rule: str = "R13.6") -> None:
    """who may serve a state as 'not validated': only the bulk-download branch of the relay handler. Every other caller (start-up, the
    miner, the roll-back itself) records the state as the one to roll back to."""
    RP_H = "skepticoin.networking.remote_peer.ConnectedRemotePeer.handle_block_received"
    n = 0
    for fi in functions_mentioning(ck, "set_coinstate"):
        s = ck.summ(fi.qualname, 0)
        for e in s.events:
            if e.kind != "call" or e.chain or CM + ".set_coinstate" not in e.targets:
                continue
            n += 1
            args = e.term[2]
            dflt = ck.repo.func(CM + ".set_coinstate").defaults().get("validated")
            try:
                dflt_t = C(ck.repo.fold(dflt, ck.repo.func(CM + ".set_coinstate").module, None, {})) if dflt is not None else None
            except Exception:
                dflt_t = None
            flag = args[1] if len(args) > 1 else dict(e.term[3]).get("validated", dflt_t if dflt_t is not None else ("opaque", "no default"))
            construct = "%s: set_coinstate(%s) records the state as validated%s" % (
                short(fi.qualname), show(args[0])[:50] if args else "?", " (except in the bulk-download branch)" if fi.qualname == RP_H else "")
            if flag == C(True) or (fi.qualname == RP_H and flag == C(False)):
                ck.ok(rule, construct, "", e.loc)
            else:
                ck.violated(rule, construct, "validated=%s: last_known_valid_coinstate is not updated, so a later rejected block cannot be rolled "
                            "back to this state" % show(flag), e.loc)
    ck.expect_count(rule, "set_coinstate call sites", n, 5)


def r13_7(ck: Check, rule: str = "R13.7") -> None:
    """the admission and eviction code catches ValidateTransactionError and nothing else: a validator that starts raising another class,
    or an exception class moved in the hierarchy, turns a rejection into an error that escapes with the state half updated"""
    import json
    import os
    from ..engine.report import VERIF_ROOT
    from ..engine.walker import exc_ancestors, exc_class
    ref = json.load(open(os.path.join(VERIF_ROOT, "reference", "raise_classes.json")))
    n = 0
    for q, want in sorted(ref["raises"].items()):
        if not q.startswith("skepticoin.consensus.") or q not in ck.repo.functions:
            continue
        s = ck.summ(q, 0)
        # `assert` statements document invariants (an added assert that restates a guard is not a new rejection): raise statements only
        # (a bare `raise` in a handler passes on what it caught: no class of its own)
        got = sorted({exc_class(e) for e in s.raises() if not e.chain and e.kind == "raise"} - {"reraise"})
        want = [c for c in want if c != "AssertionError"]
        if not want:
            continue
        n += 1
        construct = "%s raises only %s" % (short(q), ", ".join(c.split(".")[-1] for c in want))
        extra = [c for c in got if c not in want]
        if not extra and got != sorted(want) and any(c not in got for c in want):
            extra = ["(no longer raises %s)" % [c.split(".")[-1] for c in want if c not in got]]
        if extra:
            ck.violated(rule, construct, "now also raises %s: handlers written for the recorded classes no longer see this rejection" % extra, s.fi.loc)
        else:
            ck.ok(rule, construct, "", s.fi.loc)
    ck.expect_count(rule, "validators with recorded rejection classes", n, 10)
    for cq, anc in sorted(ref["ancestors"].items()):
        if cq not in ck.repo.classes:
            continue
        now = sorted(exc_ancestors(ck.repo, cq))
        construct = "%s is a %s" % (short(cq), " < ".join(a.split(".")[-1] for a in anc if a not in ("BaseException", cq)))
        if now == anc:
            ck.ok(rule, construct, "", ck.repo.classes[cq].module.path)
        else:
            ck.violated(rule, construct, "its ancestors are now %s: `except` clauses elsewhere catch a different set of errors" % now, ck.repo.classes[cq].module.path)


def r13_3(ck: Check) -> None:
    q = CM + ".set_coinstate"
    summ = ck.summ(q, 0)
    sp = Spec(summ, ("self", "cs", "validated"))
    lock = sp.term("self.lock")
    st = [e for e in summ.events if e.kind == "store" and e.term == sp.term("self.coinstate")]
    cl = [e for e in summ.events if e.kind == "call" and CM + "._cleanup_transaction_pool_for_coinstate" in e.targets]
    construct = "set_coinstate: under the lock, store the new state, then always clean the pool against it"
    if len(st) == 1 and len(cl) == 1 and st[0].value == sp.term("cs") and cl[0].term[2] == (sp.term("cs"),) and st[0].seq < cl[0].seq \
            and lock in st[0].withs and lock in cl[0].withs and not residual(st[0], ()) and not residual(cl[0], ()):
        ck.ok("R13.3", construct, "", st[0].loc)
    else:
        ck.violated("R13.3", construct, "eviction no longer follows every change of the served state: stores %s; cleanup calls %s" % (
            [e.describe() for e in st], [e.describe() for e in cl]), summ.fi.loc)
    lk = [e for e in summ.events if e.kind == "store" and e.term == sp.term("self.last_known_valid_coinstate")]
    construct = "set_coinstate: last_known_valid_coinstate := new state only when validated"
    if len(lk) == 1 and lk[0].value == sp.term("cs") and [c.term for c in residual(lk[0], ())] == [sp.term("validated")]:
        ck.ok("R13.3", construct, "", lk[0].loc)
    else:
        ck.violated("R13.3", construct, "%s" % [e.describe() for e in lk], summ.fi.loc)
    q2 = CM + "._cleanup_transaction_pool_for_coinstate"
    s2 = ck.summ(q2, 0)
    sp2 = Spec(s2, ("self", "cs"))
    pool = sp2.term("self.transaction_pool")
    stores = [e for e in s2.events if e.kind == "store" and e.term == pool]
    # the filter is whatever predicate the comprehension calls with the pool element (a nested function, a private method, ...)
    construct = "_cleanup: pool := [t for t in pool if is_valid(t)] (filtering cannot create a conflict; evicts only what the validator rejects)"
    isv = None
    elem = ("e", pool, "elem")
    if len(stores) == 1 and not residual(stores[0], ()):
        v = stores[0].value
        if v is not None and v[0] == "comp" and v[1] == "list" and v[2] == elem and len(v[3]) == 1 and v[3][0][0] == pool and len(v[3][0][1]) == 1:
            f = v[3][0][1][0]
            if f[0] == "call" and f[2] == (elem,) and not f[3]:
                if f[1][0] == "g" and f[1][1] in ck.repo.functions:
                    isv, recv = f[1][1], None
                elif f[1][0] == "a" and f[1][1] == sp2.term("self"):
                    mi = ck.repo.find_method(CM, f[1][2])
                    if mi is not None:
                        isv, recv = mi.qualname, "self"
    if isv is not None:
        ck.ok("R13.3", construct, "filter: %s" % short(isv), stores[0].loc)
    else:
        ck.violated("R13.3", construct, "pool is rebuilt as %s" % "; ".join(show(e.value)[:120] for e in stores), s2.fi.loc)
        return
    s3 = ck.summ(isv, 0)
    if recv is None:
        sp3 = Spec(s3, ("t",), extra={"self": ("v", "self")})
    else:
        sp3 = Spec(s3, ("self", "t"))
    calls, near = find_calls(s3, CONS + "validate_non_coinbase_transaction_in_coinstate",
                             [sp3.term("t"), sp3.term("self.coinstate.current_chain_hash"), sp3.term("self.coinstate")], (), (), None, True)
    if not calls and len(s2.fi.params) >= 2:
        # ... or against the state handed to the clean-up, which is the state just stored (checked above: set_coinstate stores its
        # argument and passes the same argument on)
        pv = ("v", s2.fi.params[1])
        calls, near2 = find_calls(s3, CONS + "validate_non_coinbase_transaction_in_coinstate",
                                  [sp3.term("t"), ("a", pv, "current_chain_hash"), pv], (), (), None, True)
        near = near or near2
    rets = s3.returns()
    trues = [r for r in rets if r.term == C(True)]
    falses = [r for r in rets if r.term == C(False)]
    construct = "is_valid(t): True only after validation against the state just stored completed; False in the rejection handler"
    ok = (len(calls) == 1 and len(trues) == 1 and after_completion(calls[0], trues[0])
          and not any(c.prov == "handler" for c in trues[0].pc) and all(any(c.prov == "handler" for c in r.pc) for r in falses)
          and len(trues) + len(falses) == len(rets))
    if ok:
        ck.ok("R13.3", construct, "", s3.fi.loc)
    else:
        ck.violated("R13.3", construct, "returns %s; validator calls %s%s" % ([r.describe() for r in rets], [c.describe() for c in calls],
                                                                              ("; near: " + near[0][1]) if near else ""), s3.fi.loc)


def cset(e) -> set:   # type: ignore
    from ..engine.terms import conjuncts
    return {x for c in e.pc for x in conjuncts(c.term)}


def r13_4(ck: Check) -> None:
    """duplicate suppression before admission; relay only when admitted (shared with C10 R10.2)"""
    q = "skepticoin.networking.remote_peer.ConnectedRemotePeer.handle_transaction_received"
    summ = ck.summ(q, 0)
    sp = Spec(summ, ("self", "header", "message"))
    tx = sp.term("message.data")
    pool = sp.term("self.local_peer.chain_manager.transaction_pool")
    dup = ("cmp", "notin", tx, pool)
    add = [e for e in summ.events if e.kind == "call" and CM + ".add_transaction_to_pool" in e.targets]
    bc = [e for e in summ.events if e.kind == "call" and "skepticoin.networking.manager.NetworkManager.broadcast_transaction" in e.targets]
    construct = "handle_transaction_received: known transactions are dropped; relay only on the true branch of add_transaction_to_pool(tx)"
    ok = (len(add) == 1 and len(bc) == 1 and add[0].term[2] == (tx,) and bc[0].term[2] == (tx,)
          and cset(add[0]) == {dup} and cset(bc[0]) == {dup, add[0].term})
    if ok:
        ck.ok("R13.4", construct, "", summ.fi.loc)
    else:
        ck.violated("R13.4", construct, "admission %s; relay %s" % ([e.describe() for e in add], [e.describe() for e in bc]), summ.fi.loc)


def check(ck: Check) -> None:
    ck.explanations.append(
        "C13: the pool invariant is inductive over the pool's only writers: admission appends only after three validators completed under the "
        "lock; every store to the served state is followed by filtering the pool with the in-state validator; repository-wide typed "
        "who-may-write shows no other writer of pool or served state.")
    ck.run("R13.1", "admission", lambda: r13_1(ck))
    ck.run("R13.2", "single writers (typed who-may-write, whole repository)", lambda: r13_2(ck))
    ck.run("R13.3", "eviction on every head change", lambda: r13_3(ck))
    ck.run("R13.4", "duplicate suppression before admission", lambda: r13_4(ck))
    ck.run("R13.6", "only bulk download serves an unvalidated state", lambda: r13_6(ck))
    ck.run("R13.7", "rejections keep their exception classes", lambda: r13_7(ck))
    from .common import rule_eq
    ck.run("R13.5", "`transaction in pool` and reference clashes compare by content", lambda: (
        rule_eq(ck, "R13.5", "skepticoin.datatypes.Transaction", ["inputs", "outputs"], "pool membership compares whole transactions"),
        rule_eq(ck, "R13.5", "skepticoin.datatypes.Input", ["output_reference", "signature"], ""),
        rule_eq(ck, "R13.5", "skepticoin.datatypes.OutputReference", ["hash", "index"], "conflicting spends are detected by reference equality")))
    ck.assume("thread interleavings beyond 'both writers hold self.lock' are not analysed")
