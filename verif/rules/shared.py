"""Rules that are necessary conditions of more than one property.

Each rule is written once, in the module of the property it was first needed for; a property that also rests on it lists it here.
The table was extended whenever an independently written breaking change for property X was only reported by the check of property Y:
the reported rule then is a premise of X as well (DESIGN.md 9.5). A rule keeps its own id, so a finding reads the same everywhere."""
from __future__ import annotations

from typing import Callable, Dict, List, Tuple

from ..engine.report import Check


def _t() -> Dict[str, List[Tuple[str, str, Callable[[Check], object]]]]:
    from . import c01, c02, c03, c04, c05, c07, c09, c10, c11, c13
    from .common import rule_eq, rule_uto_apply
    PE = "skepticoin.datatypes.PowEvidence"
    from . import c08, c12, c17, c18, c20
    MSG = lambda ck: c07.r07_1_2(ck, False, "R07.1")          # noqa  (all codecs, wire messages included)
    CONSENSUS_CODECS = lambda ck: c07.r07_1_2(ck, True, "R07.1")   # noqa
    return {
        "C01": [("R20.2", "the relay handler is entered only with the message a block arrived in (its header decides whether the block is fully validated)", c20.r20_2),
                ("R08.6", "after a restart every stored block comes back with all its transactions (a spent output is not unspent again)", c08.r08_6),
                ("R09.5", "a block that is still to be validated is only buffered: refusing it leaves the store as it was", c09.r09_5),
                ("R13.3", "every validated state becomes the roll-back target (a refusal rolls back to the latest one, not to an older one)", c13.r13_3),
                ("R03.2", "the unspent set a spend is checked against is built from the block's PARENT's set", c03.r03_2),
                ("R08.1", "after a restart the ledger is rebuilt from rows that mirror what was written", c08.r08_1),
                ("R13.6", "the state a rejected block is rolled back to is the latest validated one (every caller records it)", c13.r13_6)],
        "C02": [("R09.flow", "a relayed block is served as validated only after in-state validation completed", c09.r09_flow),
                ("R08.1", "after a restart the ledger is rebuilt from rows that mirror what was written", c08.r08_1),
                ("R07.1", "the header fields that tell solicited from unsolicited data are decoded as written", MSG)],
        "C03": [("R08.1", "the ledger replayed after a restart is replayed from rows that mirror what was written", c08.r08_1),
                ("R08.6", "rows of competing forks do not displace each other in the store", c08.r08_6),
                ("R05.6", "a block's height is its parent's plus one (so a reward transaction cannot repeat an ancestor's)", c05.r05_6),
                ("R08.7", "row collectors of the store reader are per transaction", c08.r08_7),
                ("R08.8", "the ledger replayed after a restart is replayed from blocks whose transactions come back in the stored order", c08.r08_8)],
        "C04": [("R13.3", "the chain manager stores every state it is given (head changes are not skipped)", c13.r13_3),
                ("R05.7", "a fork block's evidence is recomputed from ITS ancestors (fork blocks stay acceptable)", c05.r05_7),
                ("R05.2", "a fork block's timestamp is compared with ITS parent's", c05.r05_2),
                ("R12.1", "the state the miner builds on and pushes back is the latest served state", c12.r12_1),
                ("R09.flow", "a delivered block that is new and connectable is adopted or refused, never dropped", c09.r09_flow)],
        "C05": [("R06.2", "evidence comparison is by content of every field", lambda ck: rule_eq(ck, "R06.2", PE, ["summary_hash", "chain_sample", "block_hash"], "")),
                ("R04.4", "the ancestor index the target and the chain sample are read from is the parent's index plus the block", c04.r04_4),
                ("R12.1", "the candidate the worker hashes is the one the watcher assembled for it", c12.r12_1)],
        "C06": [("R09.flow", "a tampered block that is refused does not stay buffered for the store", c09.r09_flow),
                ("R09.5", "the buffer that is cleared on refusal is the buffer that was written", c09.r09_5)],
        "C07": [("R08.8", "transactions come back from the store in the order they were written (same bytes, same id)", c08.r08_8),
                ("R08.5", "what the store hands back under an id is the whole of what was written under it (a batch is stored whole or not at all)", c08.r08_5)],
        "C08": [("R07.6", "variable-length integers written to blobs decode canonically", c07.r07_6),
                ("R09.flow", "the relay handler clears the write buffer when it rejects a buffered block", c09.r09_flow),
                ("R09.5", "blocks handed to the disk interface reach the store's buffer, one by one", c09.r09_5),
                ("R04.2", "the head recomputed on reload is chosen by the same measure of work", c04.r04_2)],
        "C09": [("R08.6", "an adopted block on a competing branch is read back from the store whole", c08.r08_6),
                ("R08.1", "what is written for an adopted block is what is read back", c08.r08_1),
                ("R20.2", "the relay handler is entered only with the message a block arrived in", c20.r20_2),
                ("R17.1", "the commitment to the transaction list is compared on every path of structural validation", c17.r17_1),
                ("R01.7", "no reference is spent twice inside a relayed block (full validity before adoption)", c01.r01_7),
                ("R13.3", "set_coinstate stores the adopted state and the roll-back target", c13.r13_3),
                ("R05.7", "valid relayed blocks on a fork pass the evidence check (own ancestors)", c05.r05_7),
                ("R01.10", "applying a block removes exactly the spent outputs (a re-spend fails to apply)", lambda ck: rule_uto_apply(ck, "R01.10")),
                ("R02.3", "overspend check after the existence check (a missing input is a rejection, not an error)", c02.r02_3),
                ("R03.2", "a fork block is applied to its parent's ledger", c03.r03_2),
                ("R01.4", "a relayed block's spends carry signatures over the whole transaction (full validity before adoption)", c01.r01_3_4),
                ("R20.14|R05.6", "a relayed block's height is its parent's plus one: refused by the relay handler itself, or else by the in-state validator",
                 lambda ck: _either(ck, [c20.r20_14, c05.r05_6]))],
        "C10": [("R07.10", "what peers send during synchronisation is split into the recorded fields", c07.r07_10),
                ("R13.1", "a relayed transaction is admitted against the state the node serves (the state it synchronised to)", c13.r13_1),
                ("R13.3", "the chain manager stores every state it is given (side-branch blocks are kept)", c13.r13_3),
                ("R03.2", "states built during download are built from each block's parent", c03.r03_2),
                ("R04.4", "the height index used to answer get-blocks is the head's", c04.r04_4),
                ("P7", "a block-sized data message fits the frame limit", c11.check_receive),
                ("R09.8", "transactions and blocks are relayed to every active peer", c09.r09_8),
                ("R09.10", "a peer that greeted is an active peer", c09.r09_10)],
        "C11": [("R07.1", "every message an unmodified peer sends decodes (field widths and signedness agree)", MSG),
                ("R07.10", "every message an unmodified peer sends is split into the recorded fields", c07.r07_10),
                ("R18.5", "list lengths on the wire use the encoding deployed nodes use", c18.r18_5)],
        "C12": [("R10.8", "a message handed to send_message is queued for that peer (the found block is not dropped on the way out)", c10.r10_8),
                ("R13.1", "no two pending transactions spend the same output (the candidate built from the pool passes validation)", c13.r13_1),
                ("R13.3", "adopting the found block stores it as the served state, then cleans the pool against it", c13.r13_3),
                ("R09.10", "every peer that greeted receives the found block", c09.r09_10),
                ("R09.5", "a found block handed to the disk interface reaches the store that is read at start-up", c09.r09_5)],
        "C13": [("R01.4", "admission checks every input's signature over the whole transaction", c01.r01_3_4),
                ("R01.7", "admission rejects a reference used twice across the pool candidate set", c01.r01_7),
                ("R01.6", "a signature is valid only for the message it signs", c01.r01_6)],
        "C14": [("R03.4", "the per-key index the wallet selects from agrees with the unspent set", c03.r03_4),
                ("R03.3", "per-key balances at the head are the replay of the head's chain", c03.r03_3),
                ("R01.7", "two outputs of one earlier transaction are two different references", c01.r01_7)],
        "C16": [("R18.7", "the height up to which the validator does not enforce the schedule has not moved", c18.r18_7),
                ("R02.1", "the reward check uses subsidy(height of the block)", c02.r02_1),
                ("R02.4", "every output total is range-checked", c02.r02_4),
                ("R07.1", "amounts are unsigned on the wire", CONSENSUS_CODECS)],
        "C17": [("R05.8", "the header the miner assembles commits to the list it is assembled with", c05.r05_8),
                ("R09.flow", "every delivered block is structurally validated (commitment compared) before it is applied", c09.r09_flow)],
        "C18": [("R09.flow", "a block refused by the checkpoint comparison is rolled back and not stored", c09.r09_flow),
                ("R09.5", "the buffer that is cleared on refusal is the buffer that was written", c09.r09_5),
                ("R05.6", "height linkage holds for the first block after genesis too", c05.r05_6)],
        "C19": [("R07.1", "the greeting's nonce / port fields are written and read with the same widths", MSG)],
        "C20": [("R01.7", "structural validation of delivered transactions", c01.r01_7),
                ("R02.4", "amount ranges of delivered transactions", c02.r02_4),
                ("R17.1", "the commitment comparison is on every path of structural block validation", c17.r17_1)],
    }


def _either(ck: Check, rules):   # type: ignore
    """a premise that two different places of the code can establish: the first rule that holds decides; when none does, the last one reports"""
    import copy
    for i, r in enumerate(rules):
        sub = copy.copy(ck)
        sub.obligations = []
        r(sub)
        bad = [o for o in sub.obligations if o.status != "HOLDS"]
        if not bad or i == len(rules) - 1:
            ck.obligations.extend(sub.obligations)
            return


def _rejections(prefixes, what):   # type: ignore
    from .common import rule_no_new_rejections
    return lambda ck: rule_no_new_rejections(ck, "RX.2", prefixes, what)


RX2 = {
    "C07": (["skepticoin.networking.messages.", "skepticoin.datatypes.", "skepticoin.serialization.", "skepticoin.signing."],
            "what the node itself encodes is decoded again, not refused"),
    "C04": (["skepticoin.networking.remote_peer.ConnectedRemotePeer.handle_block_received", "skepticoin.coinstate.", "skepticoin.consensus.validate_block"],
            "a competing block that is valid is not refused or ignored"),
    "C05": (["skepticoin.consensus.", "skepticoin.datatypes."], "a block the node assembled itself is not refused by its own validators"),
    "C09": (["skepticoin.networking.remote_peer.ConnectedRemotePeer.handle_block_received", "skepticoin.networking.remote_peer.ConnectedRemotePeer.handle_data",
             "skepticoin.consensus.", "skepticoin.coinstate."], "a valid relayed block is adopted, not refused or ignored"),
    "C10": (["skepticoin.networking.remote_peer.", "skepticoin.networking.messages.", "skepticoin.serialization.", "skepticoin.datatypes."],
            "what honest peers send during synchronisation is decoded and handled, not refused"),
    "C11": (["skepticoin.networking.remote_peer.MessageReceiver.", "skepticoin.networking.messages.", "skepticoin.serialization."],
            "a well-formed frame is delivered, not refused"),
    "C12": (["skepticoin.consensus.", "skepticoin.datatypes.", "skepticoin.coinstate.", "skepticoin.signing."],
            "the miner's own block passes the node's own validation"),
    "C16": (["skepticoin.consensus.validate_coinbase_transaction", "skepticoin.consensus.get_block_subsidy", "skepticoin.consensus.validate_sashimi_range"],
            "a reward transaction paying what the schedule gives (nothing at all, once the schedule is exhausted) is accepted"),
    "C14": (["skepticoin.consensus.validate_non_coinbase", "skepticoin.consensus.validate_signature", "skepticoin.consensus.validate_no_duplicate",
             "skepticoin.consensus.validate_sashimi", "skepticoin.wallet.", "skepticoin.datatypes."],
            "a spend the wallet built passes transaction validation"),
    "C13": (["skepticoin.consensus.validate_non_coinbase", "skepticoin.consensus.validate_signature", "skepticoin.consensus.validate_no_duplicate",
             "skepticoin.consensus.validate_sashimi"], "a valid transaction is admitted to the pool"),
    "C18": (["skepticoin.consensus.", "skepticoin.pow.", "skepticoin.datatypes.", "skepticoin.signing.", "skepticoin.serialization."],
            "the real network's blocks keep passing full validation"),
}


def run(ck: Check) -> None:
    have = {o.rule for o in ck.obligations}
    for rule, what, fn in _t().get(ck.prop, []):
        if rule in have or (rule == "R09.flow" and "R09.3" in have) or (rule == "P7" and "P7" in have):
            continue
        ck.run(rule, what + " (shared premise)", (lambda f=fn: f(ck)))
    if ck.prop in RX2:
        pre, what = RX2[ck.prop]
        fn = _rejections(pre, what)
        ck.run("RX.2", what + " (no new rejection conditions)", lambda: fn(ck))
        from .common import rule_no_partial_builtins
        ck.run("RX.4", what + " (no operation that fails on an empty argument)", lambda: rule_no_partial_builtins(ck, "RX.4", pre, what))
    files = _anchor_files(ck.prop)
    if files:
        from .common import rule_one_shot_iterators
        ck.run("RX.3", "values the rules read as sequences are not half-consumed iterators", lambda: rule_one_shot_iterators(ck, "RX.3", files))
        from .common import rule_decorators_followed
        ck.run("RX.5", "nothing wrapped around a function changes what its definition says", lambda: rule_decorators_followed(ck, "RX.5", files))


# files a property depends on beyond its anchors (found when a breaking change there was reported by another property only)
EXTRA_FILES = {"C07": ["skepticoin/blockstore.py"], "C12": ["skepticoin/blockstore.py"], "C03": ["skepticoin/blockstore.py"]}


def _anchor_files(prop: str) -> List[str]:
    import json
    import os
    from ..engine.report import VERIF_ROOT
    for line in open(os.path.join(VERIF_ROOT, "properties.jsonl")):
        d = json.loads(line)
        if d["id"] == prop:
            return [f for f in d.get("anchors", {}).get("files", []) if f.endswith(".py")] + EXTRA_FILES.get(prop, [])
    return []
