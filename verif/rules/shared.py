"""Rules that are necessary conditions of more than one property.

Each rule is written once, in the module of the property it was first needed for; a property that also rests on it lists it here.
The table was extended whenever an independently written breaking change for property X was only reported by the check of property Y:
the reported rule then is a premise of X as well (DESIGN.md 9.5). A rule keeps its own id, so a finding reads the same everywhere."""
from __future__ import annotations

from typing import Callable, Dict, List, Tuple

from ..engine.report import Check


def _t() -> Dict[str, List[Tuple[str, str, Callable[[Check], object]]]]:
    from . import c01, c02, c03, c04, c05, c07, c09, c11, c13
    from .common import rule_eq
    PE = "skepticoin.datatypes.PowEvidence"
    return {
        "C01": [("R03.2", "the unspent set a spend is checked against is built from the block's PARENT's set", c03.r03_2)],
        "C02": [("R09.flow", "a relayed block is served as validated only after in-state validation completed", c09.r09_flow)],
        "C04": [("R13.3", "the chain manager stores every state it is given (head changes are not skipped)", c13.r13_3),
                ("R05.7", "a fork block's evidence is recomputed from ITS ancestors (fork blocks stay acceptable)", c05.r05_7)],
        "C05": [("R06.2", "evidence comparison is by content of every field", lambda ck: rule_eq(ck, "R06.2", PE, ["summary_hash", "chain_sample", "block_hash"], "")),
                ("R04.4", "the ancestor index the target and the chain sample are read from is the parent's index plus the block", c04.r04_4)],
        "C08": [("R07.6", "variable-length integers written to blobs decode canonically", c07.r07_6),
                ("R09.flow", "the relay handler clears the write buffer when it rejects a buffered block", c09.r09_flow)],
        "C09": [("R13.3", "set_coinstate stores the adopted state and the roll-back target", c13.r13_3),
                ("R05.7", "valid relayed blocks on a fork pass the evidence check (own ancestors)", c05.r05_7)],
        "C10": [("R03.2", "states built during download are built from each block's parent", c03.r03_2),
                ("R04.4", "the height index used to answer get-blocks is the head's", c04.r04_4),
                ("P7", "a block-sized data message fits the frame limit", c11.check_receive)],
        "C12": [("R13.3", "adopting the found block stores it as the served state, then cleans the pool against it", c13.r13_3)],
        "C13": [("R01.4", "admission checks every input's signature over the whole transaction", c01.r01_3_4),
                ("R01.7", "admission rejects a reference used twice across the pool candidate set", c01.r01_7)],
        "C14": [("R03.4", "the per-key index the wallet selects from agrees with the unspent set", c03.r03_4),
                ("R03.3", "per-key balances at the head are the replay of the head's chain", c03.r03_3)],
        "C16": [("R02.1", "the reward check uses subsidy(height of the block)", c02.r02_1),
                ("R02.4", "every output total is range-checked", c02.r02_4)],
        "C18": [("R09.flow", "a block refused by the checkpoint comparison is rolled back and not stored", c09.r09_flow)],
        "C19": [("R07.1", "the greeting's nonce / port fields are written and read with the same widths", lambda ck: c07.r07_1_2(ck, False, "R07.1"))],
    }


def run(ck: Check) -> None:
    have = {o.rule for o in ck.obligations}
    for rule, what, fn in _t().get(ck.prop, []):
        if rule in have or (rule == "R09.flow" and "R09.3" in have) or (rule == "P7" and "P7" in have):
            continue
        ck.run(rule, what + " (shared premise)", (lambda f=fn: f(ck)))
