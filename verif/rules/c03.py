"""C03 — Ledger state at a block is a function of that block's chain alone."""
from __future__ import annotations

import ast
from typing import Any, Dict, List, Set

from ..engine.effects import typed_writes
from ..engine.match import Spec, loop_doms, require_return, residual, same_function
from ..engine.repo import AnalysisError
from ..engine.report import Check
from ..engine.terms import C, Term, show, substitute, subterms
from .c04 import PREV, Z, returned_state
from .c05 import first_assignment
from .common import is_counter_store, rule_uto_apply, short

CS = "skepticoin.coinstate.CoinState"
BAL = "skepticoin.balances."
MAPS = ("block_by_hash", "unspent_transaction_outs_by_hash", "block_by_height_by_hash", "heads")


def r03_1(ck: Check) -> None:
    tw = typed_writes(ck.walker, ck.repo)
    # positive control: the scan sees the constructor's own stores
    init_stores = [w for w in tw if w.owner == CS and w.func == CS + ".__init__" and w.kind == "store"]
    if len(init_stores) < 6:
        ck.unknown("R03.1", "positive control", "the typed write scan sees %d stores in CoinState.__init__, expected 6" % len(init_stores))
        return
    attrs = {w.attr for w in init_stores}
    foreign = [w for w in tw if w.owner == CS and w.func != CS + ".__init__"]
    construct = "CoinState is a persistent value: its attributes are written only by its constructor"
    if not foreign:
        ck.ok("R03.1", construct, "%d attributes, 0 writers outside __init__ in the whole repository" % len(attrs), ck.repo.cls(CS).module.path)
    for w in foreign:
        ck.violated("R03.1", "%s writes CoinState.%s (%s)" % (short(w.func), w.attr, w.kind),
                    "a chain-state snapshot obtained earlier would change under its holder", w.ev.loc)
    # annotations
    init = ck.repo.func(CS + ".__init__")
    for a in MAPS:
        t = ck.walker.typer.parse_ann(init.param_annotation(a), init.module, init)
        ann = ast.unparse(init.param_annotation(a)) if init.param_annotation(a) is not None else "?"
        if ann.startswith("immutables.Map["):
            ck.ok("R03.1", "CoinState.%s is an immutables.Map" % a, "", init.loc)
        else:
            ck.violated("R03.1", "CoinState.%s is an immutables.Map" % a, "declared as %s" % ann, init.loc)
    # discarded results of persistent updates; in-place mutators on the maps
    for mn in ("skepticoin.coinstate", "skepticoin.balances"):
        m = ck.repo.module(mn)
        for n in ast.walk(m.tree):
            if isinstance(n, ast.Expr) and isinstance(n.value, ast.Call) and isinstance(n.value.func, ast.Attribute) \
                    and n.value.func.attr in ("set", "delete"):
                ck.violated("R03.1", "%s: result of .%s() discarded" % (short(mn), n.value.func.attr),
                            "persistent maps return the updated copy; discarding it drops the update", "%s:%d" % (m.path, n.lineno))
    summ = ck.summ(CS + ".add_block_no_validation", 0)
    selfv = ("v", summ.fi.params[0])
    bad = []
    for e in summ.events:
        if e.kind == "call" and e.parts and e.parts[0][0] == "a" and e.parts[0][1][0] == "a" and e.parts[0][1][1] == selfv and e.parts[0][1][2] in MAPS:
            if e.parts[0][2] not in ("set", "mutate", "get", "values", "items", "keys", "delete"):
                bad.append(e)
        if e.kind in ("store", "del") and e.term[0] == "s" and e.term[1][0] == "a" and e.term[1][1] == selfv:
            bad.append(e)
    if bad:
        for e in bad:
            ck.violated("R03.1", "add_block_no_validation: in-place write to the receiver's maps", e.describe()[:120], e.loc)
    else:
        ck.ok("R03.1", "add_block_no_validation touches the receiver's maps only through set / mutate-copy / reads", "", summ.fi.loc)


def sources(t: Term, selfv: Term) -> Set[str]:
    out: Set[str] = set()
    for x in subterms(t):
        if x[0] == "a" and x[1] == selfv:
            out.add("self." + x[2])
        elif x[0] == "v" and x != selfv:
            out.add(x[1])
        elif x[0] == "lv":
            out.add("~" + x[1])
    return out


def r03_2(ck: Check) -> None:
    summ, sp, kw = returned_state(ck)
    selfv = ("v", summ.fi.params[0])  # type: ignore
    blockn = summ.fi.params[1]  # type: ignore
    where = summ.fi.loc  # type: ignore
    allowed = {
        "block_by_hash": {"self.block_by_hash", blockn},
        "unspent_transaction_outs_by_hash": {"self.unspent_transaction_outs_by_hash", blockn},
        "block_by_height_by_hash": {"self.block_by_height_by_hash", blockn},
    }
    for name, ok_src in allowed.items():
        src = sources(kw[name], selfv)
        construct = "add_block_no_validation: new %s depends only on (old %s, the block)" % (name, name)
        extra = src - ok_src
        if not extra:
            ck.ok("R03.2", construct, "sources: %s" % sorted(src), where)
        else:
            ck.violated("R03.2", construct, "it also depends on %s — arrival order, the current head or other forks would leak into a per-block view"
                        % sorted(extra), where)
    wantU = sp.term(
        "self.unspent_transaction_outs_by_hash.set(block.hash(), uto_apply_block("
        "immutables.Map() if %s == %s else self.unspent_transaction_outs_by_hash[%s], block))" % (PREV, Z, PREV))
    construct = "unspent(new) = apply(block, unspent(PARENT of the block)), stored under the block's id"
    if kw["unspent_transaction_outs_by_hash"] == wantU:
        ck.ok("R03.2", construct, "", where)
    else:
        ck.violated("R03.2", construct, "built as %s" % show(kw["unspent_transaction_outs_by_hash"])[:300], where)
    wantB = sp.term("self.block_by_hash.set(block.hash(), block)")
    construct = "block_by_hash' = block_by_hash + {id: block}"
    if kw["block_by_hash"] == wantB:
        ck.ok("R03.2", construct, "", where)
    else:
        ck.violated("R03.2", construct, "built as %s" % show(kw["block_by_hash"])[:200], where)
    # the balances view is derived from block_by_hash only
    init = ck.summ(CS + ".__init__", 0)
    st = [e for e in init.events if e.kind == "store" and e.term == ("a", ("v", init.fi.params[0]), "public_key_balances_by_hash")]
    want = ("call", ("g", BAL + "PublicKeyBalances"), (("a", ("v", init.fi.params[0]), "block_by_hash"),), ())
    alt = ("call", ("g", BAL + "PublicKeyBalances"), (("v", "block_by_hash"),), ())
    if len(st) == 1 and st[0].value in (want, alt):
        ck.ok("R03.2", "CoinState.public_key_balances_by_hash = PublicKeyBalances(block_by_hash)", "", st[0].loc)
    else:
        ck.violated("R03.2", "CoinState.public_key_balances_by_hash = PublicKeyBalances(block_by_hash)", "%s" % [show(e.value) for e in st], init.fi.loc)


def r03_3(ck: Check) -> None:
    PKB = BAL + "PublicKeyBalances."
    s = ck.summ(PKB + "__getitem__", 0)
    sp = Spec(s, ("self", "key"))
    st = [e for e in s.events if e.kind == "store" and not is_counter_store(e)]      # hit / miss tallies aside
    rets = s.returns()
    construct = "PublicKeyBalances[key]: cache[key] := public_key_balances_by_hash(key) when absent; returns cache[key]"
    if len(st) == 1 and st[0].term == sp.term("self.cache[key]") and st[0].value == sp.term("self.public_key_balances_by_hash(key)") \
            and [c.term for c in residual(st[0], ())] == [sp.term("key not in self.cache")] and rets \
            and all(r.term == sp.term("self.cache[key]") for r in rets) and same_function(s, sp.term("self.cache[key]")):
        ck.ok("R03.3", construct, "cached per block id", s.fi.loc)
    else:
        ck.violated("R03.3", construct, "%s" % [e.describe()[:120] for e in st + rets], s.fi.loc)
    tw = [w for w in typed_writes(ck.walker, ck.repo) if w.owner == BAL + "PublicKeyBalances" and w.attr == "cache"]
    bad = [w for w in tw if w.func not in (PKB + "__getitem__", PKB + "__init__")]
    if bad:
        for w in bad:
            ck.violated("R03.3", "%s writes the balance cache" % short(w.func), w.kind, w.ev.loc)
    else:
        ck.ok("R03.3", "the balance cache is written only by __getitem__ / __init__", "", "")
    s = ck.summ(PKB + "public_key_balances_by_hash", 0)
    sp = Spec(s, ("self", "head"))
    dom = sp.term("self.chain_at_hash(head)")
    pk = [e for e in s.events if e.kind == "call" and BAL + "pkb_apply_block" in e.targets]
    ut = [e for e in s.events if e.kind == "call" and BAL + "uto_apply_block" in e.targets]
    fi = s.fi
    construct = "balances(head) = fold over chain_at_hash(head): pkb_apply_block(PRE-block unspent, balances, block) then uto_apply_block, from two empty maps"
    ok = (len(pk) == 1 and len(ut) == 1 and list(loop_doms(pk[0])) == [dom] and list(loop_doms(ut[0])) == [dom]
          and pk[0].seq < ut[0].seq and pk[0].term[2][0] == ut[0].term[2][0] and pk[0].term[2][0][0] == "lv"
          and pk[0].term[2][2] == ("e", dom, "elem") and ut[0].term[2][1] == ("e", dom, "elem") and pk[0].term[2][1][0] == "lv"
          and not any(l[2] for l in pk[0].loops))
    empty = ("call", ("g", "ext:immutables.Map"), (), ())
    i1 = s.norm.lv_init.get(pk[0].term[2][0]) if ok else None      # value on loop entry
    i2 = s.norm.lv_init.get(pk[0].term[2][1]) if ok else None
    rets = [r for r in s.returns() if r.term != empty]
    if ok and i1 == empty and i2 == empty and len(rets) == 1 and rets[0].term[0] == "lv" and rets[0].term[1] == pk[0].term[2][1][1]:
        ck.ok("R03.3", construct, "", fi.loc)
    else:
        ck.violated("R03.3", construct, "replay loop changed: %s" % [e.describe()[:140] for e in pk + ut], fi.loc)
    s = ck.summ(PKB + "chain_at_hash", 0)
    sp = Spec(s, ("self", "h"))
    rets = s.returns()
    lst = ("list", (sp.term("self.block_by_hash[h]"),))
    apps = [e for e in s.events if e.kind == "call" and e.parts and e.parts[0] == ("a", lst, "append")]
    construct = "chain_at_hash(h): follow previous_block_hash links through block_by_hash until the zero id; return the reversed list"
    okc = len(rets) == 1 and rets[0].term == ("call", ("g", "builtin:reversed"), (lst,), ()) and len(apps) == 1 and len(apps[0].loops) == 1
    if okc:
        cond = apps[0].loops[0][1]
        arg = apps[0].term[2][0]
        okc = (cond[0] == "cmp" and cond[1] == "!=" and C(b"\x00" * 32) in (cond[2], cond[3])
               and arg[0] == "s" and arg[1] == sp.term("self.block_by_hash") and arg[2] in (cond[2], cond[3])
               and arg[2][0] == "a" and arg[2][2] == "previous_block_hash" and not apps[0].loops[0][2])
    if okc:
        ck.ok("R03.3", construct, "", s.fi.loc)
    else:
        ck.violated("R03.3", construct, "ancestor walk changed: %s" % [e.describe()[:160] for e in apps + rets], s.fi.loc)


def r03_8(ck: Check) -> None:
    """the reference lists inside the per-key balance records are shared by every snapshot that holds the record: nobody edits one in
    place (the updaters build new lists)"""
    from ..engine.effects import attr_mutations
    muts = attr_mutations(ck.walker, ck.repo)
    if len(muts) < 20:
        ck.unknown("R03.8", "in-place mutation scan", "the scan found only %d in-place mutations in the whole repository (expected dozens): it is not seeing the code" % len(muts))
        return
    bad = [(fi, ev, kind) for fi, ev, attr, kind in muts if attr == "output_references"]
    construct = "no function edits a balance record's output_references list in place"
    if bad:
        for fi, ev, kind in bad:
            ck.violated("R03.8", construct, "%s does (%s): the list belongs to the cached ledger snapshot, which therefore changes after the fact"
                        % (short(fi.qualname), kind), ev.loc)
    else:
        ck.ok("R03.8", construct, "%d in-place mutations scanned repository-wide" % len(muts), "")


def _default_via_none(t: Any, m: Term) -> Any:
    """`(D if m.get(k, None) is None else m.get(k, None))` is `m.get(k, D)`: the ledger map holds balance records, never None"""
    if not isinstance(t, tuple):
        return t
    t = tuple(_default_via_none(x, m) for x in t)
    if t and t[0] == "ife" and len(t) == 4 and t[1][0] == "cmp" and t[1][1] in ("is", "isnot") and C(None) in (t[1][2], t[1][3]):
        x = t[1][2] if t[1][3] == C(None) else t[1][3]
        dflt, other = (t[2], t[3]) if t[1][1] == "is" else (t[3], t[2])
        if other == x and x[0] == "call" and x[1] == ("a", m, "get") and not x[3] and (len(x[2]) == 1 or (len(x[2]) == 2 and x[2][1] == C(None))):
            return ("call", x[1], (x[2][0], dflt), ())
    return t


def r03_4(ck: Check) -> None:
    q = BAL + "pkb_apply_transaction"
    s = ck.summ(q, 0)
    sp = Spec(s, ("U", "B", "tx", "is_cb"))
    m = sp.term("B.mutate()")
    ncb = sp.term("not is_cb")
    spi = Spec(s, ("U", "B", "tx", "is_cb"), forall=[("i", "tx.inputs")], extra={"m": m})
    key = spi.term("U[i.output_reference].public_key")
    want_debit = spi.term("PKBalance(m[U[i.output_reference].public_key].value - U[i.output_reference].value, "
                          "[r for r in m[U[i.output_reference].public_key].output_references if r != i.output_reference])")
    deb = [e for e in s.events if e.kind == "store" and e.term == ("s", m, key)]
    construct = "pkb_apply_transaction: debit the owner of every spent output (value - spent value; its reference removed), iff not the reward"
    if len(deb) == 1 and deb[0].value == want_debit and list(loop_doms(deb[0])) == spi.loops and [c.term for c in residual(deb[0], ())] == [ncb] \
            and not any(l[2] for l in deb[0].loops):
        ck.ok("R03.4", construct, "same domain and reward test as uto_apply_transaction", deb[0].loc)
    else:
        ck.violated("R03.4", construct, "debit branch: %s" % [e.describe()[:300] for e in deb], s.fi.loc)
    spo = Spec(s, ("U", "B", "tx", "is_cb"), forall=[("(k, o)", "enumerate(tx.outputs)")], extra={"m": m})
    okey = spo.term("o.public_key")
    want_credit = spo.term("PKBalance(m[o.public_key].value + o.value, m[o.public_key].output_references + [OutputReference(tx.hash(), k)])")
    cr = [e for e in s.events if e.kind == "store" and e.term == ("s", m, okey)]
    for e in cr:
        e.value = substitute(_default_via_none(e.value, m), {})      # (re-canonicalises sums)
    init = [e for e in cr if e.value == spo.term("PKBalance(0, [])")]
    main = [e for e in cr if e.value == want_credit]
    construct = "pkb_apply_transaction: credit the receiving key of every output (value + output value; reference (tx id, position) appended)"
    # the same update written with a default: m[k] = PKBalance(m.get(k, PKBalance(0, [])).value + o.value, m.get(k, ...).output_references + [ref])
    want_get = spo.term("PKBalance(m.get(o.public_key, PKBalance(0, [])).value + o.value, "
                        "m.get(o.public_key, PKBalance(0, [])).output_references + [OutputReference(tx.hash(), k)])")
    via_get = [e for e in cr if e.value == want_get]
    if len(cr) == 1 and len(via_get) == 1 and not residual(via_get[0], ()) and list(loop_doms(via_get[0])) == spo.loops:
        ck.ok("R03.4", construct, "same reference construction as uto_apply_transaction (default via .get)", via_get[0].loc)
    elif len(cr) == 2 and len(init) == 1 and len(main) == 1 and not residual(main[0], ()) and list(loop_doms(main[0])) == spo.loops \
            and [c.term for c in residual(init[0], ())] == [("cmp", "notin", okey, m)] and init[0].seq < main[0].seq:
        ck.ok("R03.4", construct, "same reference construction as uto_apply_transaction", main[0].loc)
    else:
        ck.violated("R03.4", construct, "credit branch: %s" % [e.describe()[:300] for e in cr], s.fi.loc)
    rets = s.returns()
    if len(rets) == 1 and rets[0].term == ("call", ("a", m, "finish"), (), ()):
        ck.ok("R03.4", "pkb_apply_transaction returns m.finish()", "", rets[0].loc)
    else:
        ck.violated("R03.4", "pkb_apply_transaction returns m.finish()", "%s" % [show(r.term) for r in rets], s.fi.loc)
    # block level
    qb = BAL + "pkb_apply_block"
    sb = ck.summ(qb, 0)
    spb = Spec(sb, ("U", "B", "block"))
    calls = [e for e in sb.events if e.kind == "call" and q in e.targets]
    first = [e for e in calls if len(e.term[2]) == 4 and e.term[2][0] == spb.term("U") and e.term[2][2] == spb.term("block.transactions[0]")
             and e.term[2][3] == C(True) and not e.loops and not residual(e, ())]
    spl = Spec(sb, ("U", "B", "block"), forall=[("t", "block.transactions[1:]")])
    rest = [e for e in calls if len(e.term[2]) == 4 and e.term[2][0] == spb.term("U") and e.term[2][2] == spl.term("t") and e.term[2][3] == C(False)
            and list(loop_doms(e)) == spl.loops and not residual(e, ()) and not any(l[2] for l in e.loops)]
    construct = "pkb_apply_block: reward flag exactly for transaction 0; the SAME (pre-block) unspent set for every transaction"
    if len(calls) == 2 and first and rest and first[0].seq < rest[0].seq:
        ck.ok("R03.4", construct, "", sb.fi.loc)
    else:
        ck.violated("R03.4", construct, "calls: %s" % [e.describe()[:160] for e in calls], sb.fi.loc)
    rule_uto_apply(ck, "R03.4")


def _at_head_view(ck: Check, name: str):   # type: ignore
    """value of `cs.at_head.<name>` as a term over at_head's `self`: the view object is whatever at_head returns (a class nested in the
    property that closes over `self`, or a class that is given the state and keeps it in an attribute)"""
    from ..engine.match import function_value
    from ..engine.terms import substitute
    ah = ck.summ(CS + ".at_head", 0)
    v = function_value(ah)
    if v is None or v[0] != "call" or v[1][0] != "g" or v[1][1] not in ck.repo.classes:
        raise AnalysisError("CoinState.at_head does not return an instance of a repository class: %s" % (show(v) if v is not None else None))
    K = v[1][1]
    prop = ck.repo.find_method(K, name) or ck.repo.functions.get(K + "." + name)
    if prop is None:
        raise AnalysisError("%s has no attribute %s" % (short(K), name))
    ps = ck.summ(prop.qualname, 0)
    pv = function_value(ps)
    if pv is None:
        raise AnalysisError("%s.%s returns nothing" % (short(K), name))
    me = ("v", ah.fi.params[0])
    if K.startswith(CS + ".at_head."):
        return ps, substitute(pv, {("v", "self"): me}) if ah.fi.params[0] != "self" else pv, me
    init = ck.repo.find_method(K, "__init__")
    m = {}
    if init is not None:
        isum = ck.summ(init.qualname, 0)
        iparams = init.params[1:]
        given = dict(zip(iparams, v[2]))
        given.update({k_: a for k_, a in v[3] if isinstance(k_, str)})
        for e in isum.events:
            if e.kind == "store" and e.term[0] == "a" and e.term[1] == ("v", init.params[0]) and e.value is not None and e.value[0] == "v" \
                    and e.value[1] in given:
                m[("a", ("v", prop.params[0]), e.term[2])] = given[e.value[1]]
    return ps, substitute(pv, m), me


def r03_5(ck: Check) -> None:
    from ..engine.match import same_value
    for name, attr in (("unspent_transaction_outs", "unspent_transaction_outs_by_hash"), ("block_by_height", "block_by_height_by_hash"),
                       ("public_key_balances", "public_key_balances_by_hash")):
        ps, got, me = _at_head_view(ck, name)
        want = ("s", ("a", me, attr), ("a", me, "current_chain_hash"))
        construct = "state.at_head.%s = state.%s[state.current_chain_hash]" % (name, attr)
        if same_value(got, want):
            ck.ok("R03.5", construct, "reported at-head view = the per-block view stored under the head id", ps.fi.loc)
        else:
            ck.violated("R03.5", construct, "reported at-head view = the per-block view stored under the head id — it is %s" % show(got)[:200], ps.fi.loc)
    from .c15 import r15_5
    s = ck.summ("skepticoin.wallet.Wallet.get_balance", 0)
    require_return(ck, "R03.5", s, Spec(s, ("self", "cs")),
                   "sum(cs.public_key_balances_by_hash[cs.current_chain_hash].get(SECP256k1PublicKey(pk), PKBalance(0, [])).value "
                   "for pk in list(self.public_key_annotations.keys()) + self.unused_public_keys)",
                   "wallet balance reads the per-key balances at the head id")


def check(ck: Check) -> None:
    ck.explanations.append(
        "C03: snapshots are immutable (repository-wide typed who-may-write); each per-block view written by add_block_no_validation depends "
        "only on (the parent's view, the block) — a def-use source-set rule over the normalised constructor arguments — and equals the "
        "specified formula keyed by the block's parent id; the balance replay and the two sibling updaters agree field by field.")
    ck.run("R03.1", "CoinState is a persistent value", lambda: r03_1(ck))
    ck.run("R03.2", "arrival-order independence (dependence rule)", lambda: r03_2(ck))
    ck.run("R03.3", "balances are a replay, cached per id", lambda: r03_3(ck))
    ck.run("R03.4", "sibling agreement of the two updaters", lambda: r03_4(ck))
    ck.run("R03.5", "reporting paths read the per-block views by the head id", lambda: r03_5(ck))
    ck.run("R03.8", "snapshots share their reference lists: no in-place edits", lambda: r03_8(ck))
    from .common import rule_ctor_identity, rule_eq
    ck.run("R03.6", "map keys: public keys and output references compare by content", lambda: (
        rule_eq(ck, "R03.6", "skepticoin.signing.SECP256k1PublicKey", ["public_key"], "per-key balances are keyed by public key"),
        rule_eq(ck, "R03.6", "skepticoin.datatypes.OutputReference", ["hash", "index"], "the unspent map is keyed by output reference")))
    ck.run("R03.7", "CoinState stores what it is given", lambda: rule_ctor_identity(
        ck, "R03.7", "skepticoin.coinstate.CoinState",
        ["block_by_hash", "unspent_transaction_outs_by_hash", "block_by_height_by_hash", "heads", "current_chain_hash"]))
    from .c04 import r04_4
    ck.run("R04.4", "height index extended from the parent's", lambda: r04_4(ck))
    from .c08 import r08_8
    ck.run("R08.8", "a reloaded block has its transactions in the order that was committed to (unordered reads rely on rowid order)", lambda: r08_8(ck))
    ck.assume("immutables.Map.set / mutate-finish return new maps and leave the receiver unchanged")
