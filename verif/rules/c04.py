"""C04 — Fork choice: the head is the first-seen block of greatest total work (decision tables of add_block_no_validation)."""
from __future__ import annotations

from typing import Dict, Optional, Tuple

from ..engine.match import Spec, require_return, residual, same_value
from ..engine.repo import AnalysisError
from ..engine.report import Check
from ..engine.terms import C, Term, show, subterms
from .common import short

CSQ = "skepticoin.coinstate.CoinState."
PREV = "block.header.summary.previous_block_hash"
Z = "b'\\x00' * 32"


def returned_state(ck: Check) -> Tuple[object, Spec, Dict[str, Term]]:
    """keyword -> normalised argument of the single `return CoinState(...)` of add_block_no_validation"""
    summ = ck.summ(CSQ + "add_block_no_validation", 0)
    sp = Spec(summ, ("self", "block"))
    rets = summ.returns()
    # a guard clause that hands back the unchanged state for a block that is already stored leaves every rule about NEW blocks alone
    known = sp.term("block.hash() in self.block_by_hash")
    early = [r for r in rets if r.term == ("v", summ.fi.params[0]) and [c.term for c in residual(r, ())] == [known]]
    if early and len(rets) == len(early) + 1:
        rets = [r for r in rets if r not in early]
        fresh = sp.term("block.hash() not in self.block_by_hash")
        for e in summ.events:       # what follows the guard clause runs for new blocks only: that is the case the rules are about
            if any(c.term == fresh and c.prov == "ret-surv" for c in e.pc):
                e.pc = [c for c in e.pc if not (c.term == fresh and c.prov == "ret-surv")]      # type: ignore[misc]
    if len(rets) != 1 or residual(rets[0], ()) or rets[0].term[0] != "call" or rets[0].term[1] != ("g", "skepticoin.coinstate.CoinState"):
        raise AnalysisError("add_block_no_validation does not end in a single unconditional `return CoinState(...)`")
    init = ck.repo.func(CSQ + "__init__")
    names = init.params[1:]
    args = rets[0].term[2]
    if len(args) != len(names) or rets[0].term[3]:
        raise AnalysisError("CoinState(...) is not called with all %d fields" % len(names))
    return summ, sp, dict(zip(names, args))


def r04_1(ck: Check) -> None:
    summ, sp, kw = returned_state(ck)
    want = sp.term(
        "block.hash() if (self.current_chain_hash is None or self.current_chain_hash == %s) else "
        "(block.hash() if block.get_total_work() > self.block_by_hash[self.current_chain_hash].get_total_work() else self.current_chain_hash)" % PREV)
    got = kw["current_chain_hash"]
    construct = "head' = new block if (no head or new block extends the head) else (new block if work(new) > work(head), STRICTLY) else head"
    if same_value(got, want):
        ck.ok("R04.1", construct, "ties keep the first-seen tip", summ.fi.loc)  # type: ignore
    else:
        ck.violated("R04.1", construct, "the head-update decision table is %s" % show(got)[:400], summ.fi.loc)  # type: ignore


def r04_2(ck: Check) -> None:
    s = ck.summ("skepticoin.datatypes.Block.get_total_work", 0)
    require_return(ck, "R04.2", s, Spec(s, ("self",)), "self.header.summary.height", "total work is measured as height in this version")


def r04_3(ck: Check) -> None:
    summ, sp, kw = returned_state(ck)
    m = sp.term("self.heads.mutate()")
    prev = sp.term(PREV)
    bh = sp.term("block.hash()")
    where = summ.fi.loc  # type: ignore
    construct = "tips' = tips - {parent} + {new block}"
    problems = []
    if kw["heads"] != ("call", ("a", m, "finish"), (), ()):
        problems.append("heads= is %s, not the finished mutation of self.heads" % show(kw["heads"])[:80])
    dels = [e for e in summ.events if e.kind == "del" and e.term[0] == "s" and e.term[1] == m]  # type: ignore
    stores = [e for e in summ.events if e.kind == "store" and e.term[0] == "s" and e.term[1] == m]  # type: ignore
    if not (len(dels) == 1 and dels[0].term[2] == prev and [c.term for c in residual(dels[0], ())] == [("cmp", "in", prev, m)]):
        problems.append("the parent is not removed from the tip set when present (%s)" % [e.describe()[:100] for e in dels])
    if not (len(stores) == 1 and stores[0].term[2] == bh and stores[0].value == sp.term("block") and not residual(stores[0], ())):
        problems.append("the new block is not added unconditionally as a tip (%s)" % [e.describe()[:100] for e in stores])
    if problems:
        ck.violated("R04.3", construct, "; ".join(problems), where)
    else:
        ck.ok("R04.3", construct, "", where)


def r04_4(ck: Check) -> None:
    summ, sp, kw = returned_state(ck)
    want = sp.term(
        "immutables.Map({block.hash(): immutables.Map({0: block})}) if %s == %s else "
        "self.block_by_height_by_hash.set(block.hash(), self.block_by_height_by_hash[%s].set(block.header.summary.height, block))" % (PREV, Z, PREV))
    construct = "index(new) = index(parent) + {height(new): new}; genesis starts a fresh index {0: block}"
    if kw["block_by_height_by_hash"] == want:
        ck.ok("R04.4", construct, "extended from the PARENT's index, not from the active chain's", summ.fi.loc)  # type: ignore
    else:
        ck.violated("R04.4", construct, "the height index is built as %s" % show(kw["block_by_height_by_hash"])[:300], summ.fi.loc)  # type: ignore


def r04_5(ck: Check) -> None:
    s = ck.summ(CSQ + "head", 0)
    require_return(ck, "R04.5", s, Spec(s, ("self",)), "self.block_by_hash[self.current_chain_hash]", "head() is the block stored under the head id")
    s = ck.summ(CSQ + "by_height_at_head", 0)
    require_return(ck, "R04.5", s, Spec(s, ("self",)), "self.block_by_height_by_hash[self.current_chain_hash]", "the active chain's index is the head's index")


def r04_6(ck: Check) -> None:
    """forks() pairs every tip with a block computed from it (its last common ancestor with the active chain); how the ancestor walk is
    packaged (nested function, method, inlined loop) is not prescribed"""
    from ..engine.match import function_value
    from ..engine.terms import mentions
    s = ck.summ(CSQ + "forks", 0)
    sp = Spec(s, ("self",))
    v = function_value(s)
    construct = "forks() reports every tip of self.heads paired with a block derived from it"
    dom = sp.term("self.heads")
    tip = ("e", dom, "val")
    ok = (v is not None and v[0] == "comp" and v[1] == "list" and len(v[3]) == 1 and v[3][0] == (dom, ()) and v[2][0] == "tuple"
          and len(v[2][1]) == 2 and v[2][1][0] == tip and v[2][1][1][0] != "c"
          and (mentions(v[2][1][1], tip) or v[2][1][1][0] == "lv"))
    if ok:
        ck.ok("R04.6", construct, "", s.fi.loc)
    else:
        ck.violated("R04.6", construct, "returns %s" % (show(v)[:200] if v is not None else None), s.fi.loc)


def check(ck: Check) -> None:
    ck.explanations.append(
        "C04: the head-update decision table, the tip-set update and the height-index update of add_block_no_validation are recovered as "
        "normalised conditional expressions and compared with the specification's tables (strict `>`). The induction from the tables to the "
        "property over all arrival orders is the paper argument in DESIGN.md.")
    ck.run("R04.1", "decision table for the head", lambda: r04_1(ck))
    ck.run("R04.2", "work = height", lambda: r04_2(ck))
    ck.run("R04.3", "tip set", lambda: r04_3(ck))
    ck.run("R04.4", "height index", lambda: r04_4(ck))
    ck.run("R04.5", "readers", lambda: r04_5(ck))
    # (forks() is a reporting helper, not part of the property: R04.6 was withdrawn - it pinned the shape of a function C04 does not mention)
    from .common import rule_ctor_identity
    ck.run("R04.7", "CoinState stores what it is given", lambda: rule_ctor_identity(
        ck, "R04.7", "skepticoin.coinstate.CoinState",
        ["block_by_hash", "unspent_transaction_outs_by_hash", "block_by_height_by_hash", "heads", "current_chain_hash"]))
