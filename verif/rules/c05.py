"""C05 — Header rules: proof of work, difficulty, height and time."""
from __future__ import annotations

import ast
from typing import Optional

from ..engine.match import Spec, find_calls, loop_doms, require_call, require_guard, require_return, require_returns_table, residual
from ..engine.repo import AnalysisError, FuncInfo, func_body
from ..engine.report import Check
from ..engine.terms import C, Norm, Scope, Term, show
from .common import CONS, HORIZON_CTX, short

PARENT = "cs.block_by_hash[block.header.summary.previous_block_hash]"
RETARGET_BLOCKS = 10080          # from the property statement
RETARGET_SECONDS = 1_209_600
MAX_FUTURE = 30


def first_assignment(ck: Check, fi: FuncInfo, name: str) -> Optional[Term]:
    """normalised right-hand side of the first top-level `name = ...` of fi (parameters free)."""
    summ = ck.summ(fi.qualname, 0)
    scope = Scope(fi.module, fi)
    for p in fi.params:
        scope.env[p] = ("v", p)
    saved = summ.norm.on_call
    summ.norm.on_call = None
    try:
        for st in func_body(fi):
            if isinstance(st, ast.Assign) and len(st.targets) == 1 and isinstance(st.targets[0], ast.Name):
                v = summ.norm.norm(st.value, scope)
                if st.targets[0].id == name:
                    return v
                scope.env[st.targets[0].id] = v
            elif isinstance(st, ast.AnnAssign) and isinstance(st.target, ast.Name) and st.value is not None:
                v = summ.norm.norm(st.value, scope)
                if st.target.id == name:
                    return v
                scope.env[st.target.id] = v
            elif isinstance(st, ast.If) and not st.orelse and st.body and isinstance(st.body[-1], (ast.Return, ast.Raise)):
                continue    # an early exit does not redefine anything for the code that follows
            elif isinstance(st, (ast.For, ast.While, ast.If, ast.Try, ast.With)):
                break
    finally:
        summ.norm.on_call = saved
    return None


def r05_1(ck: Check) -> None:
    summ = ck.summ(CONS + "validate_block_by_itself")
    sp = Spec(summ, ("block", "now"))
    require_guard(ck, "R05.1", summ, sp, "block.header.hash() >= block.header.summary.target",
                  "a block whose id is not numerically below its stated target is rejected")
    for cls in ("BlockHeader", "BlockSummary"):
        s = ck.summ("skepticoin.datatypes.%s.hash" % cls, 0)
        require_return(ck, "R05.1", s, Spec(s, ("self",)), "sha256d(self.serialize())", "the id is the double SHA-256 of the canonical encoding")
    s = ck.summ("skepticoin.datatypes.Block.hash", 0)
    require_return(ck, "R05.1", s, Spec(s, ("self",)), "self.cached_hash or self.header.hash()", "a block's id is its header's id")


def r05_2(ck: Check) -> None:
    summ = ck.summ(CONS + "validate_block_by_itself")
    sp = Spec(summ, ("block", "now"))
    require_guard(ck, "R05.2", summ, sp, "block.header.summary.timestamp > now + %d" % MAX_FUTURE,
                  "a timestamp more than 30 s ahead of the validator's clock is rejected", exact=True)
    s2 = ck.summ(CONS + "validate_block_in_coinstate")
    sp2 = Spec(s2, ("block", "cs"))
    require_guard(ck, "R05.2", s2, sp2, "block.header.summary.timestamp <= %s.timestamp" % PARENT,
                  "a timestamp not strictly later than the parent's is rejected", context=[HORIZON_CTX], exact=True)


def r05_2_clock(ck: Check) -> None:
    """the clock the bound is taken against is the validator's own: full validation hands its clock parameter on unchanged, and
    every caller supplies int(time()) read at the call"""
    q = "skepticoin.coinstate.CoinState.add_block"
    summ = ck.summ(q, 0)
    sp = Spec(summ, ("self", "block", "now"))
    from ..engine.match import require_call
    require_call(ck, "R05.2", summ, sp, CONS + "validate_block_by_itself", ["block", "now"],
                 "full validation checks the block against the clock value it was given (not a clamped / adjusted one)")
    clock = ("call", ("g", "builtin:int"), (("call", ("g", "ext:time.time"), (), ()),), ())
    n = 0
    from .common import functions_mentioning
    for needle, target, pos in (("validate_block_by_itself", CONS + "validate_block_by_itself", 1), ("add_block(", "skepticoin.coinstate.CoinState.add_block", 1)):
        for fi in functions_mentioning(ck, needle):
            if fi.qualname == q or fi.module.name.startswith("skepticoin.scripts") and False:
                continue
            s = ck.summ(fi.qualname, 0)
            for e in s.events:
                if e.kind == "call" and not e.chain and target in e.targets and len(e.term[2]) > pos:
                    n += 1
                    construct = "%s: %s is given int(time()) as the validator's clock" % (short(fi.qualname), target.split(".")[-1])
                    if e.term[2][pos] == clock:
                        ck.ok("R05.2", construct, "", e.loc)
                    else:
                        ck.violated("R05.2", construct, "the clock argument is %s" % show(e.term[2][pos])[:120], e.loc)
    ck.expect_count("R05.2", "validator clock call sites", n, 2)


def r05_3(ck: Check) -> None:
    s2 = ck.summ(CONS + "validate_block_in_coinstate")
    sp2 = Spec(s2, ("block", "cs"))
    require_guard(ck, "R05.3", s2, sp2, "block.header.summary.previous_block_hash not in cs.block_by_hash", "unknown parent rejected",
                  context=[HORIZON_CTX])


def r05_4(ck: Check) -> None:
    s2 = ck.summ(CONS + "validate_block_in_coinstate")
    sp2 = Spec(s2, ("block", "cs"))
    require_guard(ck, "R05.4", s2, sp2,
                  "block.header.summary.target != calc_target(cs, %s.height + 1, block.header.summary.timestamp, %s)" % (PARENT, PARENT),
                  "the stated target must equal the one prescribed from the block's own ancestors", context=[HORIZON_CTX])
    s = ck.summ(CONS + "calc_target", 0)
    sp = Spec(s, ("cs", "h", "now", "prev"))
    require_returns_table(ck, "R05.4", s, sp, [
        ("h %% %d == 0" % RETARGET_BLOCKS,
         "calculate_new_target(prev.target, now - cs.block_by_height_by_hash[prev.hash()][h - %d].timestamp)" % RETARGET_BLOCKS),
        ("h %% %d != 0" % RETARGET_BLOCKS, "prev.target"),
    ], "retarget exactly at multiples of 10,080 from the block 10,080 below ON THE PARENT'S OWN CHAIN, otherwise keep the parent's target")


def r05_5(ck: Check) -> None:
    s = ck.summ(CONS + "calculate_new_target", 0)
    require_return(ck, "R05.5", s, Spec(s, ("p", "t")),
                   "min((int.from_bytes(p, 'big') * t) // %d, 2**256 - 1).to_bytes(32, 'big')" % RETARGET_SECONDS,
                   "new target = previous * elapsed // 1,209,600, integer-exact (multiply first), capped at 2^256-1, unsigned big-endian")


def r05_6(ck: Check) -> None:
    summ = ck.summ(CONS + "validate_block_by_itself")
    sp = Spec(summ, ("block", "now"))
    require_guard(ck, "R05.6", summ, sp, "block.transactions[0].inputs[0].signature.height != block.height",
                  "the height recorded in the reward transaction equals the block's height")
    s2 = ck.summ(CONS + "validate_block_in_coinstate")
    sp2 = Spec(s2, ("block", "cs"))
    require_guard(ck, "R05.6", s2, sp2, "block.height != %s.height + 1" % PARENT, "height = parent's height + 1", context=[HORIZON_CTX])


def r05_7(ck: Check) -> None:
    s2 = ck.summ(CONS + "validate_block_in_coinstate")
    sp2 = Spec(s2, ("block", "cs"))
    require_guard(ck, "R05.7", s2, sp2,
                  "block.header.pow_evidence != construct_pow_evidence(cs, block.header.summary, block.height, block.transactions)",
                  "evidence is recomputed from the whole summary and the whole transaction list and compared", context=[HORIZON_CTX])
    s = ck.summ(CONS + "construct_pow_evidence", 0)
    require_return(ck, "R05.7", s, Spec(s, ("cs", "summary", "h", "txs")),
                   "construct_pow_evidence_after_scrypt(construct_summary_hash(summary, h), cs, summary, h, txs)", "evidence = scrypt stage then sampling stage")
    s = ck.summ(CONS + "construct_summary_hash", 0)
    require_return(ck, "R05.7", s, Spec(s, ("summary", "h")), "scrypt(summary.serialize(), h.to_bytes(8, byteorder='big'))",
                   "scrypt over the complete serialized summary, salted with the height")
    s = ck.summ(CONS + "construct_pow_evidence_after_scrypt", 0)
    sample = ("(b'\\x00' * 32) if h == 0 else select_n_k_length_slices_from_chain(sh, h, "
              "lambda k: cs.block_by_height_by_hash[summary.previous_block_hash][k], 8, 4)")
    require_return(ck, "R05.7", s, Spec(s, ("sh", "cs", "summary", "h", "txs")),
                   "PowEvidence(summary_hash=sh, chain_sample=%s, block_hash=blake2(sh + (%s) + serialize_list(txs)))" % (sample, sample),
                   "chain sample of 8x4 bytes selected by the summary hash (zeros only at height 0) from the candidate's OWN ancestors (index of its "
                   "parent, not the active chain); blake2 over summary hash, sample and the FULL serialized list")
    # pow.py
    s = ck.summ("skepticoin.pow.select_block_height", 0)
    require_return(ck, "R05.7", s, Spec(s, ("hsh", "h")), "int.from_bytes(hsh[:8], byteorder='big') % h", "height = first 8 bytes mod height")
    fi = ck.repo.func("skepticoin.pow.select_block_slice")
    ssum = ck.summ(fi.qualname, 0)
    from .common import loop_updates
    from ..engine.terms import lin_add, mentions, substitute
    head, ups, fi2 = loop_updates(ck, "skepticoin.pow.select_block_slice", 0)

    def entry_value(name: str) -> Optional[Term]:
        """value of a loop-carried name when the loop is entered (helpers extracted later are expanded)"""
        ks = sorted((k for k in ssum.norm.lv_init if k[1] == name), key=lambda k: k[2])
        return ssum.norm.lv_init[ks[0]] if ks else None
    lv = lambda n: ("lv", n, 0)   # noqa
    # per-iteration temporaries (assigned before every use) are not loop-carried
    for n in [n for n in ups if not (head is not None and mentions(head, lv(n))) and not any(mentions(v, lv(n)) for v in ups.values())]:
        del ups[n]
    # an auxiliary down-counter R (R = n0 initially, R -= len(piece) whenever A += piece, A empty initially) satisfies R == n0 - len(A):
    # eliminate it, so `while remaining > 0` and `while len(result) < length` are the same loop
    for R in list(ups):
        for A in list(ups):
            if A == R or ups[A][0] != "cat" or len(ups[A][1]) != 2 or ups[A][1][0] != lv(A):
                continue
            piece = ups[A][1][1]
            ln = lambda x: ("call", ("g", "builtin:len"), (x,), ())   # noqa
            r0, a0 = entry_value(R), entry_value(A)
            if ups[R] == lin_add(lv(R), ln(piece), -1) and r0 is not None and a0 in (C(b""), C("")):
                inv = {lv(R): lin_add(r0, ln(lv(A)), -1)}
                head = substitute(head, inv) if head is not None else None
                ups = {k_: substitute(v, inv) for k_, v in ups.items() if k_ != R}
                break
    names = sorted(ups)
    zero = [n for n in names if ups[n] == ("c", 0)]
    other = [n for n in names if n not in zero]
    sps = Spec(ssum, ("hsh", "ser", "n"))
    want = sps.term("int.from_bytes(hsh[8:12], byteorder='big') % len(ser)")
    st = entry_value(zero[0]) if len(zero) == 1 else None
    construct = "pow.select_block_slice: start = int_be(hash[8:12]) % len(serialized_block)"
    if st == want:
        ck.ok("R05.7", construct, "slice start from the next 4 bytes", fi.loc)
    else:
        ck.violated("R05.7", construct, "start is %s" % (show(st) if st is not None else "not found"), fi.loc)
    spl = Spec(ck.summ(fi2.qualname, 0), ("hsh", "ser", "n"), extra={"result": ("lv", "result", 0), "start": ("lv", "start", 0)})
    want_head = spl.term("len(result) < n")
    want_res = spl.term("result + ser[start:start + n - len(result)]")
    construct = "pow.select_block_slice: while len(result) < length: result += block[start : start + length - len(result)]; start = 0 (wrap-around)"
    if len(names) == 2 and head is not None:
        # canonicalise the two carried names by role: the one reset to 0 is `start`
        def ren(t):  # type: ignore
            if isinstance(t, tuple):
                if t[:2] == ("lv", zero[0] if zero else "?"):
                    return ("lv", "start", 0)
                if t[:2] == ("lv", other[0] if other else "?"):
                    return ("lv", "result", 0)
                return tuple(ren(x) for x in t)
            return t
        okl = len(zero) == 1 and len(other) == 1 and ren(head) == want_head and ren(ups[other[0]]) == want_res \
            and entry_value(other[0]) == C(b"")
    else:
        okl = False
    rets_s = ck.summ(fi2.qualname, 0).returns()
    if okl and len(rets_s) == 1 and rets_s[0].term[0] == "lv" and rets_s[0].term[1] == other[0]:
        ck.ok("R05.7", construct, "", fi2.loc)
    else:
        ck.violated("R05.7", construct, "loop is: while %s: %s" % (show(head) if head is not None else "?", {k: show(v)[:80] for k, v in ups.items()}), fi2.loc)
    s = ck.summ("skepticoin.pow.select_slice_from_chain", 0)
    require_return(ck, "R05.7", s, Spec(s, ("hsh", "h", "get", "n")),
                   "select_block_slice(hsh, get(select_block_height(hsh, h)).serialize(), n)", "slice of the serialized selected ancestor")
    s = ck.summ("skepticoin.pow.select_n_k_length_slices_from_chain", 0)
    sp = Spec(s, ("start", "h", "get", "n", "k"), forall=[("i", "range(n)")])
    calls = [e for e in s.events if e.kind == "call" and "skepticoin.pow.select_slice_from_chain" in e.targets]
    ok = [e for e in calls if list(loop_doms(e)) == sp.loops and not residual(e, ()) and len(e.term[2]) == 4
          and e.term[2][1:] == (("v", s.fi.params[1]), ("v", s.fi.params[2]), ("v", s.fi.params[4]))]
    construct = "pow.select_n_k_length_slices_from_chain: n slices of length k, each from select_slice_from_chain(chained hash, height, getter, k)"
    rets = s.returns()
    from ..engine.terms import untag as _untag
    want_ret = None
    if len(calls) == 1 and ok:
        want_ret = ("call", ("a", C(b""), "join"), (("comp", "list", _untag(ok[0].term), ((sp.loops[0], ()),)),), ())
    if want_ret is not None and len(rets) == 1 and not residual(rets[0], ()) and _untag(rets[0].term) == want_ret:
        ck.ok("R05.7", construct, "the result is the concatenation of exactly these slices, in order", s.fi.loc)
    else:
        ck.violated("R05.7", construct, "sampling loop changed: %s; returns %s" % ("; ".join(e.describe() for e in calls), "; ".join(show(r.term)[:120] for r in rets)),
                    s.fi.loc)
    # hash chaining between samples: current_hash = sha256d(current_hash + b), on every iteration that is followed by another one
    ch = [e for e in s.events if e.kind == "call" and "skepticoin.hash.sha256d" in e.targets and e.term[2] and e.term[2][0][0] == "cat"]
    construct = "pow.select_n_k: next hash = sha256d(current_hash ++ slice), for every sample but (possibly) the last"
    last = sp.term("i != n - 1")
    okc = False
    why = "hash chaining between samples not found"
    if len(ch) == 1 and ok:
        e = ch[0]
        arg = e.term[2][0]
        lv = ok[0].term[2][0]
        conds = {c.term for c in residual(e, ())}
        if list(loop_doms(e)) != sp.loops:
            why = "the chaining is not part of the sampling loop"
        elif _untag(arg) != ("cat", (lv, _untag(ok[0].term))):
            why = "the next hash is sha256d(%s)" % show(arg)[:120]
        elif not conds <= {last}:
            why = "the chaining is skipped when %s" % " and ".join(show(c) for c in conds)
        else:
            # ... and it is assigned to the variable the next sample is drawn with
            import ast as _ast
            raw = ck.repo.raw_function(s.fi)
            names = {t.id for n_ in _ast.walk(raw) if isinstance(n_, _ast.Assign) and isinstance(n_.value, _ast.Call)
                     and (getattr(n_.value.func, "id", None) == "sha256d" or getattr(n_.value.func, "attr", None) == "sha256d")
                     for t in n_.targets if isinstance(t, _ast.Name)}
            if lv[0] == "lv" and lv[1] in names:
                okc = True
            else:
                why = "the chained hash is not assigned to the variable the next sample is drawn with"
    if okc:
        ck.ok("R05.7", construct, "", ch[0].loc)
    else:
        ck.violated("R05.7", construct, why, s.fi.loc)


def r05_8(ck: Check) -> None:
    s = ck.summ(CONS + "construct_minable_summary", 0)
    sp = Spec(s, ("cs", "txs", "now", "nonce"))
    require_returns_table(ck, "R05.8", s, sp, [
        ("cs.current_chain_hash is None", "construct_minable_summary_genesis(txs, now, nonce)"),
        ("cs.current_chain_hash is not None",
         "BlockSummary(height=cs.head().height + 1, previous_block_hash=cs.current_chain_hash, merkle_root_hash=calc_merkle_root_hash(txs), "
         "timestamp=now, target=calc_target(cs, cs.head().height + 1, now, cs.head()), nonce=nonce)"),
    ], "assembly takes height, parent id, merkle root and target from the same functions, with the same argument roles, that validation recomputes")
    s = ck.summ(CONS + "construct_block_pow_evidence_input", 0)
    sp = Spec(s, ("cs", "txs", "pk", "now", "rnd", "nonce"))
    cb = "construct_coinbase_transaction(cs.head().height + 1, txs, cs.unspent_transaction_outs_by_hash[cs.current_chain_hash], rnd, pk)"
    require_return(ck, "R05.8", s, sp,
                   "(construct_minable_summary(cs, [%s] + txs, now, nonce), cs.head().height + 1, [%s] + txs)" % (cb, cb),
                   "candidate = reward transaction (height+1, fees against the head's unspent set) followed by the pool transactions")
    s = ck.summ(CONS + "construct_block_for_mining", 0)
    sp = Spec(s, ("cs", "txs", "pk", "now", "rnd", "nonce"))
    inp = "construct_block_pow_evidence_input(cs, txs, pk, now, rnd, nonce)"
    require_return(ck, "R05.8", s, sp,
                   "Block(BlockHeader(%s[0], construct_pow_evidence(cs, %s[0], %s[1], %s[2])), %s[2])" % (inp, inp, inp, inp, inp),
                   "assembled block uses the validator's own evidence construction with (state, summary, height, transactions)")
    s = ck.summ(CONS + "construct_coinbase_transaction", 0)
    sp = Spec(s, ("h", "txs", "U", "sig", "pk"))
    require_return(ck, "R05.8", s, sp,
                   "Transaction(inputs=[Input(output_reference=construct_reference_to_thin_air(), signature=CoinbaseData(height=h, signature=sig))], "
                   "outputs=[Output(value=get_block_subsidy(h) + get_block_fees(txs, U), public_key=pk)])",
                   "reward transaction records the height and pays subsidy + fees")
    s = ck.summ(CONS + "calc_merkle_root_hash", 0)
    require_return(ck, "R05.8", s, Spec(s, ("txs",)), "get_merkle_root([t.hash() for t in txs])", "merkle root over all ids in order")


def check(ck: Check) -> None:
    ck.explanations.append(
        "C05: presence, operands, direction and reachability of every header guard on the full-validation path; retarget formula as a normalised "
        "integer expression with folded constants; constructor/validator agreement by call identity and argument roles.")
    ck.run("R05.1", "id < target", lambda: r05_1(ck))
    ck.run("R05.2", "timestamp bounds", lambda: (r05_2(ck), r05_2_clock(ck)))
    ck.run("R05.3", "parent known", lambda: r05_3(ck))
    ck.run("R05.4", "stated target = prescribed target", lambda: r05_4(ck))
    ck.run("R05.5", "retarget formula", lambda: r05_5(ck))
    ck.run("R05.6", "height linkage", lambda: r05_6(ck))
    ck.run("R05.7", "evidence recomputed and compared", lambda: r05_7(ck))
    ck.run("R05.8", "assembly agrees with validation", lambda: r05_8(ck))
    from .c02 import r02_7
    ck.run("R02.7", "integer-only arithmetic", lambda: r02_7(ck))
    ck.assume("scrypt / blake2 / SHA-256 outputs are not evaluated; byte-string comparison of two 32-byte values is the numeric comparison")
