"""C12 — Mining: assembled blocks are valid, pay subsidy plus fees, and are adopted."""
from __future__ import annotations

from typing import List, Optional

from ..engine.match import Spec, find_guard, require_guard, require_return, residual
from ..engine.report import Check
from ..engine.terms import C, Term, implies, mk_and, show
from ..engine.walker import Event
from .c02 import U_PARENT
from .common import CONS, HORIZON_CTX, short

MW = "skepticoin.mining.MinerWatcher."
CM = "skepticoin.networking.manager.ChainManager."
NM = "skepticoin.networking.manager.NetworkManager."
DI = "skepticoin.networking.disk_interface.DiskInterface."
CSQ = "skepticoin.coinstate.CoinState."


def r12_1(ck: Check) -> None:
    q = MW + "handle_request_scrypt_input_message"
    summ = ck.summ(q, 0, heap=True)
    sp = Spec(summ, ("self", "miner_id", "data"))
    gs = sp.term("self.network_thread.local_peer.chain_manager.get_state()")
    cs = ("s", gs, C(0))
    txs = ("s", gs, C(1))
    calls = [e for e in summ.events if e.kind == "call" and CONS + "construct_block_pow_evidence_input" in e.targets]
    construct = "miner: candidate time = max(now, head.timestamp + 1), head taken from the same state as the candidate"
    if len(calls) != 1 or len(calls[0].term[2]) != 6:
        ck.violated("R12.1", construct, "candidate assembly call not found (or arity changed)", summ.fi.loc)
        return
    a = calls[0].term[2]
    sp2 = Spec(summ, ("self", "miner_id", "data"), extra={"CS": cs})
    want_time = sp2.term("max(int(time()), CS.head().timestamp + 1)")
    if a[0] == cs and a[3] == want_time and not residual(calls[0], ()):
        ck.ok("R12.1", construct, "strictly later than the parent's timestamp for every clock value", calls[0].loc)
    else:
        ck.violated("R12.1", construct, "time argument is %s over state %s" % (show(a[3])[:90], show(a[0])[:60]), calls[0].loc)
    construct = "miner: candidate = (served state, its pool) from one get_state() call, nonce from the worker, key = self.public_key"
    if a[0] == cs and a[1] == txs and a[5] == sp.term("data") and a[2] == sp.term("SECP256k1PublicKey(self.public_key)"):
        ck.ok("R12.1", construct, "", calls[0].loc)
    else:
        ck.violated("R12.1", construct, "arguments are %s" % ", ".join(show(x)[:50] for x in a), calls[0].loc)
    # the assembled candidate is what is stored for the worker
    st = [e for e in summ.events if e.kind == "store" and e.term == sp.term("self.mining_args[miner_id]")]
    want = ("tuple", tuple(("s", calls[0].term, C(i)) for i in range(3)))
    if len(st) == 1 and st[0].value == want:
        ck.ok("R12.1", "miner: mining_args[miner_id] := the assembled (summary, height, transactions)", "", st[0].loc)
    else:
        ck.violated("R12.1", "miner: mining_args[miner_id] := the assembled (summary, height, transactions)",
                    "stored: %s" % "; ".join(show(e.value)[:100] for e in st), summ.fi.loc)


def r12_5(ck: Check) -> None:
    """the worker process and the plumbing between it and the watcher: the scrypt stage is computed over exactly the summary and height the
    watcher assembled, every nonce is tried in turn, and each kind of worker message reaches its handler"""
    MN = "skepticoin.mining.Miner."
    s = ck.summ(MN + "__call__", 0)
    sp = Spec(s, ("self",))
    inp = [e for e in s.events if e.kind == "call" and not e.chain and MN + "get_scrypt_input" in e.targets]
    hsh = [e for e in s.events if e.kind == "call" and not e.chain and CONS + "construct_summary_hash" in e.targets]
    out = [e for e in s.events if e.kind == "call" and not e.chain and MN + "send_message" in e.targets]
    construct = "Miner: scrypt_output = construct_summary_hash(summary, height) of exactly the pair received for this nonce; nonce += 1 mod 2**32"
    ok = False
    detail = ""
    if len(inp) == 1 and len(hsh) == 1 and len(out) == 1 and len(inp[0].term[2]) == 1 and inp[0].term[2][0][0] == "lv":
        pair = inp[0].term
        from ..engine.terms import mk_sub
        ok = (hsh[0].term[2] == (mk_sub(pair, C(0)), mk_sub(pair, C(1))) and out[0].term[2] == (C("scrypt_output"), hsh[0].term)
              and inp[0].seq < hsh[0].seq < out[0].seq and all(e.loops and not e.loops[-1][2] and not residual(e, ()) for e in (inp[0], hsh[0], out[0])))
        nm = inp[0].term[2][0][1]
        from .common import loop_updates
        head, ups, _fi = loop_updates(ck, MN + "__call__", 0)
        want = Spec(s, ("self",), extra={"n": ("lv", nm, 0)}).term("(n + 1) % (1 << 32)")
        if ups.get(nm) != want:
            ok = False
            detail = "nonce update is %s" % (show(ups[nm]) if nm in ups else None)
    if ok:
        ck.ok("R12.5", construct, "", hsh[0].loc)
    else:
        ck.violated("R12.5", construct, "%s %s" % ([e.describe()[:120] for e in inp + hsh + out], detail), s.fi.loc)
    g = ck.summ(MN + "get_scrypt_input", 0)
    spg = Spec(g, ("self", "nonce"))
    req = [e for e in g.events if e.kind == "call" and not e.chain and MN + "send_message" in e.targets]
    construct = "Miner.get_scrypt_input: asks for the candidate of this nonce and returns the (summary, height) answered"
    from ..engine.match import function_value
    v = function_value(g)
    ans = spg.term("self.wait_for_message('scrypt_input')")
    from ..engine.terms import mk_sub as _ms
    if len(req) == 1 and req[0].term[2] == (C("request_scrypt_input"), spg.term("nonce")) and v in (("tuple", (_ms(ans, C(0)), _ms(ans, C(1)))), ans):
        ck.ok("R12.5", construct, "", g.fi.loc)
    else:
        ck.violated("R12.5", construct, "request %s; returns %s" % ([show(e.term)[:100] for e in req], show(v)[:120] if v is not None else None), g.fi.loc)
    w = ck.summ(MW + "handle_received_message", 0)
    spw = Spec(w, ("self", "item"))
    table = None
    from ..engine.terms import subterms
    for e in w.events:
        for t in subterms(e.term):
            if isinstance(t, tuple) and t and t[0] == "dict" and len(t) > 1:
                table = t
    construct = "MinerWatcher: 'request_scrypt_input' -> handle_request_scrypt_input_message, 'scrypt_output' -> handle_scrypt_output_message"
    want_tab = {C("request_scrypt_input"): ("a", spw.term("self"), "handle_request_scrypt_input_message"),
                C("scrypt_output"): ("a", spw.term("self"), "handle_scrypt_output_message")}
    got_tab = dict(table[1]) if table is not None and isinstance(table[1], tuple) else None
    if got_tab == want_tab:
        ck.ok("R12.5", construct, "", w.fi.loc)
    else:
        ck.violated("R12.5", construct, "dispatch table is %s" % (show(table)[:200] if table is not None else None), w.fi.loc)
    gs = ck.summ(CM + "get_state", 0)
    spg2 = Spec(gs, ("self",))
    v2 = function_value(gs)
    construct = "ChainManager.get_state: (served state, the pool) read together under the lock"
    rets = gs.returns()
    if v2 in (spg2.term("(self.coinstate, self.transaction_pool)"), spg2.term("(self.coinstate, list(self.transaction_pool))"), spg2.term("(self.coinstate, self.transaction_pool[:])"),
              spg2.term("(self.coinstate, self.transaction_pool.copy())")) and rets and all(spg2.term("self.lock") in r.withs for r in rets):
        ck.ok("R12.5", construct, "users of the returned list do not mutate it (R13.2)", gs.fi.loc)
    else:
        ck.violated("R12.5", construct, "returns %s" % (show(v2)[:160] if v2 is not None else None), gs.fi.loc)


def exact_guard(ck: Check, rule: str, summ, spec: Spec, reject: str, what: str, context=()) -> None:  # type: ignore
    """every disjunct of `reject` is rejected, AND no related guard rejects more than `reject` (equality / boundary values are accepted)."""
    from ..engine.match import disj_atoms
    from ..engine.terms import same_operands
    rj = spec.term(reject)
    ctx = [spec.term(c) for c in context]
    construct = "%s: rejects exactly when %s" % (short(summ.fi.qualname), show(rj)[:140])
    parts = list(rj[1]) if rj[0] == "or" else [rj]
    hits = []
    for d in parts:
        res = find_guard(ck.repo, summ, d, spec.loops, ctx)
        if not res.ok:
            ck.violated(rule, construct, "%s — guard missing for %s: %s" % (what, show(d)[:80], res.why), summ.fi.loc)
            return
        hits.append(res.event)
    atoms = disj_atoms(rj)
    too_strict = []
    for ev in summ.raises():
        rest = [c.term for c in residual(ev, ctx)]
        if not rest or list(l[1] for l in ev.loops) != list(spec.loops):
            continue
        code = mk_and(rest)
        rel = any(same_operands(a, b) for a in atoms for b in disj_atoms(code))
        if rel and not implies(code, rj):
            too_strict.append((ev, code))
    if too_strict:
        ev, code = too_strict[0]
        ck.violated(rule, construct, "%s — the validator also rejects cases the property requires it to accept: it rejects when %s" % (
            what, show(code)[:140]), ev.loc)
    else:
        ck.ok(rule, construct, what, hits[0].loc)


def r12_2(ck: Check) -> None:
    s = ck.summ(CONS + "construct_coinbase_transaction", 0)
    sp = Spec(s, ("h", "txs", "U", "sig", "pk"))
    require_return(ck, "R12.2", s, sp,
                   "Transaction(inputs=[Input(output_reference=construct_reference_to_thin_air(), signature=CoinbaseData(height=h, signature=sig))], "
                   "outputs=[Output(value=get_block_subsidy(h) + get_block_fees(txs, U), public_key=pk)])",
                   "one output paying exactly subsidy(height) + fees to the miner's key; one null input recording the height")
    summ = ck.summ(CONS + "validate_block_in_coinstate")
    spv = Spec(summ, ("block", "cs"))
    exact_guard(ck, "R12.2", summ, spv,
                "sum(o.value for o in block.transactions[0].outputs) > get_block_fees(block.transactions[1:], %s) + get_block_subsidy(block.height)" % U_PARENT,
                "a reward of exactly subsidy + fees passes the node's own validation (strict comparator)", context=[HORIZON_CTX])
    spt = Spec(summ, ("block", "cs"), forall=[("t", "block.transactions[1:]")])
    exact_guard(ck, "R12.2", summ, spt,
                "sum(o.value for o in t.outputs) > sum(%s[i.output_reference].value for i in t.inputs)" % U_PARENT,
                "a transaction spending exactly its inputs passes (strict comparator)", context=[HORIZON_CTX])


def r12_4(ck: Check) -> None:
    q = MW + "handle_scrypt_output_message"
    summ = ck.summ(q, 0, heap=True)
    sp = Spec(summ, ("self", "miner_id", "data"))
    args = sp.term("self.mining_args[miner_id]")
    summary, height, txs = (("s", args, C(i)) for i in range(3))
    ev_t = ("call", ("g", CONS + "construct_pow_evidence_after_scrypt"), (sp.term("data"), sp.term("self.coinstate"), summary, height, txs), ())
    blk = ("call", ("g", "skepticoin.datatypes.Block"),
           (("call", ("g", "skepticoin.datatypes.BlockHeader"), (summary, ev_t), ()), txs), ())
    where = summ.fi.loc
    built = [e for e in summ.events if e.kind == "call" and e.term == blk]
    construct = "found-block handler: block = Block(BlockHeader(summary, evidence_after_scrypt(hash, state, summary, height, txs)), txs) from mining_args[miner_id]"
    if built:
        ck.ok("R12.4", construct, "evidence completed with the validator's own function and the stored candidate", built[0].loc)
    else:
        ck.violated("R12.4", construct, "the block is assembled differently", where)
        return
    sp2 = Spec(summ, ("self", "miner_id", "data"), extra={"BLK": blk})
    notfound = sp2.term("BLK.hash() >= BLK.target")
    rets = [r for r in summ.returns() if [c.term for c in r.pc] == [notfound]]
    construct = "found-block handler: nothing happens unless id < target"
    if rets:
        ck.ok("R12.4", construct, "", rets[0].loc)
    else:
        ck.violated("R12.4", construct, "the not-found early return under `hash >= target` is missing", where)
    def only(kind_targets: str, pred=None) -> List[Event]:  # type: ignore
        return [e for e in summ.events if e.kind == "call" and kind_targets in e.targets and (pred is None or pred(e))]
    adds = only(CSQ + "add_block")
    sets = only(CM + "set_coinstate")
    bcs = only(NM + "broadcast_block")
    saves = only(DI + "save_block")
    flushes = only(DI + "flush_blocks")
    construct = "found-block handler: the block is added with full validation (CoinState.add_block) to the miner's state"
    if len(adds) == 1 and adds[0].term[2] and adds[0].term[2][0] == blk and adds[0].parts[0][1] == sp.term("self.coinstate"):
        ck.ok("R12.4", construct, "", adds[0].loc)
    else:
        alt = only(CSQ + "add_block_no_validation")
        ck.violated("R12.4", construct, "add_block(block, now) on self.coinstate not found%s" % (
            " (add_block_no_validation is used: the node's own block skips validation)" if alt else ""), where)
        return
    add = adds[0]
    found_pc = [c.term for c in add.pc]
    problems = []
    if len(sets) != 1:
        problems.append("%d set_coinstate calls" % len(sets))
    elif sets[0].term[2][0] != add.term:
        problems.append("the state handed to the network layer is %s, not the result of add_block — the found block is not part of the served state"
                        % show(sets[0].term[2][0])[:60])
    for name, evs, arg in (("broadcast_block", bcs, blk), ("save_block", saves, blk), ("flush_blocks", flushes, None)):
        if len(evs) != 1:
            problems.append("%d %s calls" % (len(evs), name))
        elif arg is not None and evs[0].term[2] != (arg,):
            problems.append("%s is called with %s" % (name, show(evs[0].term[2][0])[:60]))
    if not problems:
        for name, e in (("set_coinstate", sets[0]), ("broadcast_block", bcs[0]), ("save_block", saves[0]), ("flush_blocks", flushes[0])):
            if e.seq < add.seq:
                problems.append("%s happens before the block has been validated and added" % name)
            if [c.term for c in e.pc] != found_pc or e.loops:
                problems.append("%s is not on every path after the add (condition %s)" % (name, show(e.cond)[:80]))
        if saves[0].seq > flushes[0].seq:
            problems.append("flush before save: the found block is not written")
    construct = "found-block handler: add (validate) -> set served state to the result -> broadcast -> save -> flush, all unconditional after the add"
    if problems:
        ck.violated("R12.4", construct, "; ".join(problems), add.loc)
    else:
        ck.ok("R12.4", construct, "", add.loc)
    # the miner's own state is the result too
    st = [e for e in summ.events if e.kind == "store" and e.term == sp.term("self.coinstate")]
    if len(st) == 1 and st[0].value == add.term:
        ck.ok("R12.4", "found-block handler: self.coinstate := result of add_block", "", st[0].loc)
    else:
        ck.violated("R12.4", "found-block handler: self.coinstate := result of add_block", "stores: %s" % [show(e.value)[:60] for e in st], where)


def check(ck: Check) -> None:
    ck.explanations.append(
        "C12: producer/validator agreement by call identity and argument roles (shared with C05), exact reward formula and strict validator "
        "comparators, timestamp formula, and the ordering / data-flow obligations of the found-block handler (the state handed to the network "
        "layer is the result of add_block; validation precedes publication and storage).")
    ck.run("R12.1", "timestamp and candidate assembly", lambda: r12_1(ck))
    ck.run("R12.2", "exact reward; validator accepts equality", lambda: r12_2(ck))
    from .c05 import r05_8
    ck.run("R05.8", "producer/validator agreement", lambda: r05_8(ck))
    from .c02 import r02_2
    ck.run("R02.2", "fees = sum over ALL included transactions of (inputs - outputs)", lambda: r02_2(ck))
    ck.run("R12.4", "found-block handler: adopt, then publish", lambda: r12_4(ck))
    ck.run("R12.5", "worker loop and watcher plumbing", lambda: r12_5(ck))
    from .c09 import r09_8
    ck.run("R09.8", "broadcast reaches every active peer (a failing peer does not end the fan-out)", lambda: r09_8(ck))
    from .c15 import r15_3
    ck.run("R15.3", "a fresh key is persisted before use (miner call sites)", lambda: r15_3(ck, only_prefix="skepticoin.mining."))
    ck.assume("that assembly succeeds on concrete pools is covered only through C13's premises (pool transactions are valid at the head and mutually compatible)")
