"""C18 — Checkpoints are enforced; table, hash parameters, wire format and genesis have not drifted from the recorded network values.
Not decided: that recorded real blocks pass scrypt-based validation (that needs running scrypt: execution, a different family)."""
from __future__ import annotations

import ast
import hashlib
import json
import os
from typing import Any, Dict, List

from ..engine.codec import show_prim
from ..engine.match import Spec, find_guard, require_guard, require_return, residual
from ..engine.repo import AnalysisError
from ..engine.report import VERIF_ROOT, Check
from ..engine.terms import C, implies, show
from .c07 import CONSENSUS_CLASSES, effective_writer, extractor
from .common import CONS, short

REF = os.path.join(VERIF_ROOT, "reference")


def message_classes(ck: Check) -> List[str]:
    ex = extractor(ck)
    return sorted(q for q in ex.codecs if q.startswith("skepticoin.networking.messages."))


def wire_signature(ck: Check, classes: Any = None) -> Dict[str, Any]:
    ex = extractor(ck)
    sig: Dict[str, Any] = {}

    def enc(p: Any) -> Any:
        return [x.hex() if isinstance(x, bytes) else (short(x) if isinstance(x, str) and x.startswith("skepticoin.") else x) for x in p]

    for q in (classes if classes is not None else CONSENSUS_CLASSES):
        c = ex.codecs.get(q)
        if c is None:
            raise AnalysisError("consensus class %s vanished" % q)
        if c.problems:
            raise AnalysisError("codec of %s left the idiom set: %s" % (short(q), c.problems[0]))
        ent: Dict[str, Any] = {}
        if c.dispatch is not None:
            ent["union"] = {"width": c.dispatch.width, "tags": sorted([t.hex(), short(s_)] for t, s_ in c.dispatch.table)}
        else:
            # the reader's sequence carries widths and classes; the writer's carries the tag
            ent["reader"] = [enc(p[:-1]) if p[0] not in ("const", "ignored", "lenient") else enc(p) for p in (c.reader or [])]
            ent["fields"] = [p[-1] for p in (c.writer or []) if p[0] != "const"]
            tag = ex.tag_of(q)
            if tag is not None:
                ent["tag"] = tag.hex()
        sig[short(q)] = ent
    return sig


def r18_1(ck: Check) -> None:
    summ = ck.summ(CONS + "validate_block_in_coinstate")
    sp = Spec(summ, ("block", "cs"))
    ev = require_guard(ck, "R18.1", summ, sp,
                       "block.height <= MAX_KNOWN_HASH_HEIGHT and block.height in KNOWN_HASHES and block.hash() != computer(KNOWN_HASHES[block.height])",
                       "below the horizon a block at a checkpointed height is rejected unless its id equals the checkpoint")
    # the early return that skips in-state validation is reachable only below the horizon, and after the comparison
    hz = sp.term("block.height <= MAX_KNOWN_HASH_HEIGHT")
    own_returns = [r for r in summ.returns()]
    early = [r for r in own_returns if r is not own_returns[-1] or residual(r, ())]
    construct = "validate_block_in_coinstate: in-state validation is skipped only where block.height <= MAX_KNOWN_HASH_HEIGHT"
    bad = []
    for r in summ.returns():
        rest = residual(r, ())
        if not rest:
            continue   # the final fall-through return after all checks
        if not any(implies(c.term, hz) for c in rest):
            bad.append("a return under %s skips validation above the horizon" % "; ".join(repr(c) for c in rest))
        if ev is not None and r.seq < ev.seq:
            bad.append("validation is skipped before the checkpoint comparison")
    n_skip = len([r for r in summ.returns() if residual(r, ())])
    if bad:
        ck.violated("R18.1", construct, "; ".join(bad), summ.fi.loc)
    elif n_skip >= 1:
        ck.ok("R18.1", construct, "%d early return(s), each under the horizon test and after the comparison" % n_skip, summ.fi.loc)
    else:
        ck.ok("R18.1", construct, "no early return at all", summ.fi.loc)
    # horizon = max key of the table
    m = ck.repo.module("skepticoin.cheating")
    table = ck.repo.const("skepticoin.cheating.KNOWN_HASHES")
    mx = ck.repo.const("skepticoin.cheating.MAX_KNOWN_HASH_HEIGHT")
    construct = "MAX_KNOWN_HASH_HEIGHT == max(KNOWN_HASHES)"
    if isinstance(table, dict) and table and mx == max(table.keys()):
        ck.ok("R18.1", construct, "horizon %s is the highest checkpoint" % mx, m.path)
    else:
        ck.violated("R18.1", construct, "horizon %r, highest checkpoint %r: blocks between them skip validation without being pinned"
                    % (mx, max(table.keys()) if isinstance(table, dict) and table else None), m.path)
    s = ck.summ("skepticoin.humans.computer", 0)
    require_return(ck, "R18.1", s, Spec(s, ("s",)), "unhexlify(s.encode('utf-8'))", "checkpoint strings are compared as the bytes they spell")


def r18_2(ck: Check) -> None:
    from .c01 import r01_1
    r01_1(ck)


def r18_3(ck: Check) -> None:
    path = os.path.join(REF, "known_hashes.json")
    ref = {int(k): v for k, v in json.load(open(path)).items()}
    table = ck.repo.const("skepticoin.cheating.KNOWN_HASHES")
    if not isinstance(table, dict):
        raise AnalysisError("KNOWN_HASHES does not fold to a dict")
    m = ck.repo.module("skepticoin.cheating")
    bad = []
    for h, v in ref.items():
        if h not in table:
            bad.append("checkpoint %d dropped" % h)
        elif table[h] != v:
            bad.append("checkpoint %d changed to %s" % (h, table[h]))
    for h, v in table.items():
        if not (isinstance(h, int) and isinstance(v, str) and len(v) == 64 and all(ch in "0123456789abcdef" for ch in v)):
            bad.append("entry %r is not (int height, 64 hex digits)" % (h,))
    construct = "KNOWN_HASHES contains all %d recorded network checkpoints unchanged" % len(ref)
    if bad:
        ck.violated("R18.3", construct, "; ".join(bad[:5]), m.path)
    else:
        ck.ok("R18.3", construct, "%d entries in the tree, %d recorded" % (len(table), len(ref)), m.path)
    ck.expect_count("R18.3", "checkpoints", len(table), 327)
    td = os.path.join(ck.repo.root, "tests", "testdata", "chain")
    if os.path.isdir(td):
        names = sorted(os.listdir(td))
        ck.stats["recorded_test_blocks"] = names
        for nm in names:
            try:
                h = int(nm.split("-")[0])
            except ValueError:
                continue
            if h in table and table[h] != nm.split("-")[1]:
                ck.violated("R18.3", "recorded block %s vs checkpoint" % nm, "recorded real block at height %d has id %s, checkpoint says %s" % (
                    h, nm.split("-")[1], table[h]), td)


def r18_7(ck: Check) -> None:
    """the horizon below which in-state validation is skipped is the recorded one: no entry beyond the recorded checkpoints"""
    path = os.path.join(REF, "known_hashes.json")
    ref = {int(k): v for k, v in json.load(open(path)).items()}
    table = ck.repo.const("skepticoin.cheating.KNOWN_HASHES")
    mx = ck.repo.const("skepticoin.cheating.MAX_KNOWN_HASH_HEIGHT")
    m = ck.repo.module("skepticoin.cheating")
    if not isinstance(table, dict):
        raise AnalysisError("KNOWN_HASHES does not fold to a dict")
    extra = sorted(h for h in table if h not in ref)
    construct = "checkpoint horizon == %d (the last recorded network checkpoint); the table has no other heights" % max(ref)
    if extra or mx != max(ref):
        ck.violated("R18.7", construct, "horizon %r, heights not among the recorded checkpoints: %s — every block up to the horizon that is not "
                    "itself a checkpoint skips reward, overspend and signature validation" % (mx, extra[:5]), m.path)
    else:
        ck.ok("R18.7", construct, "full validation applies to every height above %d" % max(ref), m.path)
    # the literal must not list a height twice (a later duplicate silently replaces the earlier entry)
    node = m.assign_nodes.get("KNOWN_HASHES")
    if isinstance(node, ast.Dict):
        keys = [k.value for k in node.keys if isinstance(k, ast.Constant)]
        dup = sorted({k for k in keys if keys.count(k) > 1})
        vals = {}
        bad = []
        for k, v in zip(node.keys, node.values):
            if isinstance(k, ast.Constant) and isinstance(v, ast.Constant):
                if k.value in vals and vals[k.value] != v.value:
                    bad.append(k.value)
                vals[k.value] = v.value
        if bad:
            ck.violated("R18.7", "KNOWN_HASHES literal: a height listed twice carries the same id", "heights %s are listed with different ids" % bad, m.path)
        else:
            ck.ok("R18.7", "KNOWN_HASHES literal: a height listed twice carries the same id", "%d duplicated height(s)" % len(dup), m.path)


def r18_8(ck: Check) -> None:
    """during bulk download only every IBD_VALIDATION_SKIP-th height runs the in-state validator, which is where the checkpoint comparison
    lives: each of those heights below the horizon must be a checkpointed height, or an alternative history is never compared at all"""
    skip = ck.repo.const("skepticoin.networking.params.IBD_VALIDATION_SKIP")
    table = ck.repo.const("skepticoin.cheating.KNOWN_HASHES")
    mx = ck.repo.const("skepticoin.cheating.MAX_KNOWN_HASH_HEIGHT")
    m = ck.repo.module("skepticoin.networking.params")
    construct = "every multiple of IBD_VALIDATION_SKIP up to the checkpoint horizon is a checkpointed height (and there is at least one)"
    if not (isinstance(skip, int) and not isinstance(skip, bool) and skip > 0 and isinstance(table, dict) and isinstance(mx, int)):
        ck.violated("R18.8", construct, "IBD_VALIDATION_SKIP = %r" % (skip,), m.path)
        return
    hs = list(range(skip, mx + 1, skip))
    missing = [h for h in hs if h not in table]
    if hs and not missing:
        ck.ok("R18.8", construct, "skip %d: heights %s.. are all checkpoints" % (skip, hs[:3]), m.path)
    else:
        ck.violated("R18.8", construct, "skip %d: %s — a downloaded history is marked validated and stored without ever meeting a checkpoint"
                    % (skip, ("validated heights %s are not checkpoints" % missing[:4]) if hs else "no validated height lies below the horizon"), m.path)


def _scrypt_with_fallback(ck: Check, s: Any, m: Any, local: Any) -> None:
    """`try: from scrypt import hash as scrypt_hash / except ImportError: def scrypt_hash(...)`: the module has two providers of one
    function (RFC 7914; scrypt.hash(password, salt, N, r, p, buflen) and hashlib.scrypt(password, salt=, n=, r=, p=, dklen=) compute the
    same bytes, `maxmem` only decides whether OpenSSL agrees to run). Both must get N=2^15, r=8, p=1, 32 bytes."""
    import ast as _ast
    from ..engine.match import function_value
    construct = "hash.scrypt: scrypt N=2^15, r=8, p=1, 32 bytes of (password, salt) with either provider (scrypt package, hashlib fallback)"
    problems = []
    # the fallback is defined in the ImportError handler of the try that imports the package
    guarded = False
    for st in m.tree.body:
        if isinstance(st, _ast.Try):
            imports = any(isinstance(b, _ast.ImportFrom) and b.module == "scrypt" and any((a.asname or a.name) == "scrypt_hash" and a.name == "hash" for a in b.names)
                          for b in st.body)
            in_handler = any(local.node in list(_ast.walk(h)) and h.type is not None and _ast.unparse(h.type) in ("ImportError", "ModuleNotFoundError")
                             for h in st.handlers)
            guarded = guarded or (imports and in_handler)
    if not guarded:
        problems.append("a local scrypt_hash replaces the scrypt package unconditionally")
    if local.params != ["password", "salt", "N", "r", "p", "buflen"]:
        problems.append("the fallback's parameters %s differ from scrypt.hash(password, salt, N, r, p, buflen)" % local.params)
    # provider 1 (package): the call as written
    rets = [n for n in _ast.walk(s.fi.node) if isinstance(n, _ast.Return)]
    call = rets[0].value if len(rets) == 1 else None
    if not (isinstance(call, _ast.Call) and isinstance(call.func, _ast.Name) and call.func.id == "scrypt_hash"):
        problems.append("scrypt() does not return scrypt_hash(...)")
    else:
        bound: Dict[str, Any] = {}
        names = ["password", "salt", "N", "r", "p", "buflen"]
        for nm, a in list(zip(names, call.args)) + [(k.arg, k.value) for k in call.keywords]:
            if isinstance(a, _ast.Name) and nm in ("password", "salt"):
                bound[nm] = a.id
            else:
                try:
                    bound[nm] = ck.repo.fold(a, m, None, {})
                except AnalysisError:
                    bound[nm] = None
        want = {"password": s.fi.params[0], "salt": s.fi.params[1], "N": 32768, "r": 8, "p": 1, "buflen": 32}
        if bound != want:
            problems.append("scrypt_hash is called with %s" % bound)
    # provider 2 (hashlib): what the function returns with the fallback expanded
    got = function_value(s)
    pw, salt = ("v", s.fi.params[0]), ("v", s.fi.params[1])
    okf = False
    if got is not None and got[0] == "call" and got[1] == ("g", "ext:hashlib.scrypt"):
        kw = dict(got[3])
        pos = list(got[2])
        for nm in ("password", "salt"):
            if nm not in kw and pos:
                kw[nm] = pos.pop(0)
        mm = kw.pop("maxmem", C(0))
        okf = (not pos and kw == {"password": pw, "salt": salt, "n": C(32768), "r": C(8), "p": C(1), "dklen": C(32)}
               and mm[0] == "c" and isinstance(mm[1], int) and mm[1] > 128 * 32768 * 8)
    if not okf:
        problems.append("with the hashlib fallback the function returns %s" % (show(got)[:200] if got is not None else None))
    if problems:
        ck.violated("R18.4", construct, "; ".join(problems), s.fi.loc)
    else:
        ck.ok("R18.4", construct, "both providers checked", s.fi.loc)


def r18_4(ck: Check) -> None:
    s = ck.summ("skepticoin.hash.scrypt", 0)
    m = ck.repo.module("skepticoin.hash")
    imp = m.imports.get("scrypt_hash")
    local = ck.repo.functions.get("skepticoin.hash.scrypt_hash")
    if local is None:
        require_return(ck, "R18.4", s, Spec(s, ("pw", "salt")), "scrypt_hash(pw, salt, N=32768, r=8, p=1, buflen=32)", "scrypt N=2^15, r=8, p=1, 32 bytes")
    else:
        _scrypt_with_fallback(ck, s, m, local)
    if imp == ("sym", "scrypt", "hash"):
        ck.ok("R18.4", "hash.scrypt_hash is scrypt.hash of the external scrypt module", "", m.path)
    else:
        ck.violated("R18.4", "hash.scrypt_hash is scrypt.hash of the external scrypt module", "imported as %s" % (imp,), m.path)
    s = ck.summ(CONS + "construct_summary_hash", 0)
    require_return(ck, "R18.4", s, Spec(s, ("summary", "h")), "scrypt(summary.serialize(), h.to_bytes(8, byteorder='big'))",
                   "scrypt input = serialized summary, salt = 8-byte big-endian height")
    s = ck.summ("skepticoin.hash.blake2", 0)
    require_return(ck, "R18.4", s, Spec(s, ("b",)), "hashlib.blake2b(b, digest_size=32).digest()", "blake2b-256")
    s = ck.summ("skepticoin.hash.sha256d", 0)
    require_return(ck, "R18.4", s, Spec(s, ("b",)), "hashlib.sha256(hashlib.sha256(b).digest()).digest()", "double SHA-256")


def r18_5(ck: Check) -> None:
    path = os.path.join(REF, "wire_format.json")
    ref = json.load(open(path))
    sig = wire_signature(ck)
    sig = json.loads(json.dumps(sig))
    n = 0
    for cls, want in ref["classes"].items():
        n += 1
        got = sig.get(cls)
        construct = "wire format of %s equals the recorded network format" % cls
        if got == want:
            ck.ok("R18.5", construct, json.dumps(want)[:120], "")
        else:
            ck.violated("R18.5", construct, "a self-consistent change of reader and writer passes every round trip and forks the node off the "
                        "network: recorded %s, tree has %s" % (json.dumps(want)[:150], json.dumps(got)[:150]), "")
    ck.expect_count("R18.5", "consensus classes", n, 14)
    # VLQ encoder normal form
    s = ck.summ("skepticoin.serialization.stream_serialize_vlq", 0)
    sp = Spec(s, ("f", "i"), forall=[("j", "reversed(range(i.bit_length() // 7 + 1))")])
    writes = [e for e in s.events if e.kind == "call" and e.parts and e.parts[0] == ("a", ("v", s.fi.params[0]), "write")]
    construct = "stream_serialize_vlq: bit_length//7+1 big-endian base-128 digits, continuation bit on all but the last"
    def canon(t: Any) -> Any:
        if isinstance(t, tuple):
            if t and t[0] == "lv":
                return ("lv", "mod", 0)    # the loop-carried modulus may have any local name
            if t == ("v", "MOD"):
                return ("lv", "mod", 0)
            return tuple(canon(x) for x in t)
        return t
    want = canon(sp.term("struct.pack(b'B', (i % MOD if MOD else i) // pow(128, j) + (128 if j > 0 else 0))"))
    if len(writes) == 1 and [l[1] for l in writes[0].loops] == sp.loops:
        if canon(writes[0].term[2][0]) == want:
            ck.ok("R18.5", construct, "", writes[0].loc)
        else:
            ck.violated("R18.5", construct, "encoder digit expression changed: %s" % show(writes[0].term[2][0])[:160], writes[0].loc)
    elif len(writes) == 1:
        ck.violated("R18.5", construct, "encoder iterates %s" % "; ".join(show(l[1]) for l in writes[0].loops), writes[0].loc)
    else:
        ck.unknown("R18.5", construct, "the VLQ encoder left the recognised shape (one write inside one loop)", s.fi.loc)


def r18_6(ck: Check) -> None:
    data = ck.repo.const("skepticoin.genesis.genesis_block_data")
    want = open(os.path.join(REF, "genesis.sha256")).read().split()[0]
    m = ck.repo.module("skepticoin.genesis")
    construct = "genesis block bytes have the recorded SHA-256 %s.." % want[:16]
    if isinstance(data, bytes) and hashlib.sha256(data).hexdigest() == want:
        ck.ok("R18.6", construct, "%d bytes" % len(data), m.path)
    else:
        ck.violated("R18.6", construct, "the genesis literal changed (digest %s)" % (hashlib.sha256(data).hexdigest() if isinstance(data, bytes) else data), m.path)
    for q in ("skepticoin.coinstate.CoinState.zero", "skepticoin.blockstore.BlockStore.__init__"):
        s = ck.summ(q, 0)
        want_t = ("call", ("a", ("g", "skepticoin.datatypes.Block"), "deserialize"), (C(data),), ()) if isinstance(data, bytes) else None
        hit = [e for e in s.events if e.kind == "call" and e.term == want_t]
        construct = "%s starts from Block.deserialize(genesis_block_data)" % short(q)
        if hit:
            ck.ok("R18.6", construct, "", hit[0].loc)
        else:
            ck.violated("R18.6", construct, "the built-in genesis block is not what this site loads", s.fi.loc)


def check(ck: Check) -> None:
    ck.explanations.append(
        "C18 (partly): checkpoint guard shape and reach (path conditions), checkpoint table ⊇ recorded table, hash parameters, extracted wire "
        "format signature = recorded signature, genesis literal digest = recorded digest. The recorded files under /verif/reference are the "
        "oracle the property itself names (network data).")
    ck.run("R18.1", "checkpoint guard", lambda: r18_1(ck))
    ck.run("R18.2", "guard is on the accepting path of add_block", lambda: r18_2(ck))
    ck.run("R18.3", "checkpoint table has not drifted", lambda: r18_3(ck))
    ck.run("R18.7", "checkpoint horizon has not moved", lambda: r18_7(ck))
    ck.run("R18.8", "bulk download meets the checkpoints", lambda: r18_8(ck))
    ck.run("R18.4", "hash parameters", lambda: r18_4(ck))
    ck.run("R18.5", "wire format has not drifted", lambda: r18_5(ck))
    ck.run("R18.6", "genesis constant", lambda: r18_6(ck))
    from .c05 import r05_4, r05_7
    ck.run("R05.7", "evidence / target of a block are recomputed from ITS OWN ancestors (real blocks arriving as a fork stay valid)",
           lambda: (r05_7(ck), r05_4(ck)))
    ck.assume("/verif/reference/* were recorded from the pinned tree, whose checkpoints / genesis are the real network's")
    ck.note("in bulk download only every 10,000th height runs the checkpoint comparison (provisional acceptance, rolled back) — outside this property's observation point")
