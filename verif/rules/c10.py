"""C10 — (partly) relay at most once, and the arithmetic of the inventory protocol.
Convergence under every interleaving quantifies over schedules and histories: NOT decidable by this technique family and not claimed."""
from __future__ import annotations

import ast
from typing import Any, List, Optional

from ..engine.match import Spec, loop_doms, require_guard, require_return, residual
from ..engine.repo import AnalysisError
from ..engine.report import Check
from ..engine.terms import C, Term, conjuncts, show
from .common import short

CRP = "skepticoin.networking.remote_peer.ConnectedRemotePeer."
CM = "skepticoin.networking.manager.ChainManager."
INV = 500      # "next <=500 ids" from the property's mechanism list


def canon_lv(t: Any, name: str = "S") -> Any:
    if isinstance(t, tuple):
        if t and t[0] == "lv":
            return ("lv", name, 0)
        return tuple(canon_lv(x, name) for x in t)
    return t


def _search_helper_form(ck: Check, s: Any, sp: Spec, start: Term, known: Term, nothing_newer: Term, on_chain_want: Term, where: str) -> bool:
    """the locator search written as a helper that returns from inside its loop: start = first match over the locator ids
    (None = nothing newer, height + 1 = accepted, default 1), the caller answers an empty inventory for None."""
    from ..engine.terms import conjuncts, mk_not, subterms
    firsts = {x for e in s.events for x in subterms(e.term) if isinstance(x, tuple) and x and x[0] == "first"}
    firsts |= {x for e in s.events for c in e.pc for x in subterms(c.term) if isinstance(x, tuple) and x and x[0] == "first"}
    firsts = {x for x in firsts if x[1] == sp.loops[0]}
    if len(firsts) != 1:
        return False
    S = next(iter(firsts))
    exits = [(frozenset(conjuncts(c)), v) for c, v in S[2]]
    c1 = "get-blocks: for the first locator id we know, start = its height + 1; if the active chain has no such height, answer an empty inventory and stop"
    c2 = "get-blocks: a locator id is accepted iff the block after it on the active chain has it as parent; otherwise the next id is tried"
    c3 = "get-blocks: when no locator id is on the active chain, start after genesis (height 1)"
    is_none = lambda t: t[0] == "cmp" and t[1] in ("is", "==") and {t[2], t[3]} == {S, C(None)}   # noqa
    empties = [e for e in s.events if e.kind == "call" and CRP + "send_message" in e.targets and e.term[2]
               and e.term[2][0] == sp.term("InventoryMessage([])")]
    ea = [(c, v) for c, v in exits if v == C(None)]
    okA = (len(ea) == 1 and ea[0][0] == frozenset([known, nothing_newer]) and exits and exits[0] == ea[0] and len(empties) == 1
           and len(empties[0].pc) == 1 and is_none(empties[0].pc[0].term) and not empties[0].loops and empties[0].term[2][1] == sp.term("header")
           and any(r.seq > empties[0].seq and [c.term for c in r.pc] == [empties[0].pc[0].term] for r in s.returns()))
    if okA:
        ck.ok("R10.3", c1, "search helper: exit None -> empty inventory", empties[0].loc)
    else:
        ck.violated("R10.3", c1, "search helper exits: %s; empty-inventory branch: %s" % (show(S)[:300], [e.describe()[:160] for e in empties]), where)
    eb = [(c, v) for c, v in exits if v != C(None)]
    if len(eb) == 1 and eb[0][1] == start and eb[0][0] == frozenset([known, mk_not(nothing_newer), on_chain_want]):
        ck.ok("R10.3", c2, "search helper: accepted exit", where)
    else:
        ck.violated("R10.3", c2, "acceptance exits are %s" % [(sorted(show(x) for x in c), show(v)) for c, v in eb], where)
    if S[3] == C(1):
        ck.ok("R10.3", c3, "search helper default", where)
    else:
        ck.violated("R10.3", c3, "the fallback start is %s" % show(S[3]), where)
    return True


def _subst(t: Any, a: Any, b: Any) -> Any:
    if t == a:
        return b
    if isinstance(t, tuple):
        return tuple(_subst(x, a, b) for x in t)
    return t


def _inline_search_form(ck: Check, s: Any, sp: Spec, start: Term, known: Term, nothing_newer: Term, want: Term, where: str) -> None:
    """the locator search written in the handler itself: for ... (empty answer + return | break) else start = 1"""
    empties = [e for e in s.events if e.kind == "call" and CRP + "send_message" in e.targets and e.term[2]
               and e.term[2][0] == sp.term("InventoryMessage([])")]
    rets = [r for r in s.returns() if [c.term for c in r.pc] == [known, nothing_newer]]
    construct = "get-blocks: for the first locator id we know, start = its height + 1; if the active chain has no such height, answer an empty inventory and stop"
    if len(empties) == 1 and [c.term for c in empties[0].pc] == [known, nothing_newer] and rets and list(loop_doms(empties[0])) == sp.loops \
            and empties[0].term[2][1] == sp.term("header"):
        ck.ok("R10.3", construct, "", empties[0].loc)
    else:
        ck.violated("R10.3", construct, "empty-inventory branch: %s" % [e.describe()[:200] for e in empties], where)
    # accept the locator entry iff it is on the active chain: by_height_at_head()[start].previous_block_hash == p  -> break
    fi = s.fi
    loop = [n for n in ast.walk(fi.node) if isinstance(n, ast.For)]
    on_chain = summ_test_for_break(s, loop[0]) if loop else None
    construct = "get-blocks: a locator id is accepted iff the block after it on the active chain has it as parent; otherwise the next id is tried"
    if on_chain == want:
        ck.ok("R10.3", construct, "", where)
    else:
        ck.violated("R10.3", construct, "acceptance test is %s" % (show(on_chain)[:200] if on_chain is not None else "missing (no break)"), where)
    # no locator id accepted -> start from 1
    orelse_ok = bool(loop) and len(loop[0].orelse) == 1 and isinstance(loop[0].orelse[0], ast.Assign) \
        and isinstance(loop[0].orelse[0].value, ast.Constant) and loop[0].orelse[0].value.value == 1
    construct = "get-blocks: when no locator id is on the active chain, start after genesis (height 1)"
    if orelse_ok:
        ck.ok("R10.3", construct, "", where)
    else:
        ck.violated("R10.3", construct, "the for-else fallback is not `start = 1`", where)


def r10_3(ck: Check) -> None:
    q = CRP + "handle_get_blocks_message_received"
    s = ck.summ(q, 0)
    sp = Spec(s, ("self", "header", "message"), forall=[("p", "message.potential_start_hashes")],
              extra={"CS": Spec(s, ("self", "header", "message")).term("self.local_peer.chain_manager.coinstate")})
    start = sp.term("CS.block_by_hash[p].height + 1")
    known = sp.term("p in CS.block_by_hash")
    where = s.fi.loc
    nothing_newer = ("cmp", "notin", start, sp.term("CS.by_height_at_head()"))
    want = s.norm.mk_cmp_s("==", sp.term("CS.by_height_at_head()[CS.block_by_hash[p].height + 1].previous_block_hash"), sp.term("p"), None)
    helper = _search_helper_form(ck, s, sp, start, known, nothing_newer, want, where)
    if not helper:
        _inline_search_form(ck, s, sp, start, known, nothing_newer, want, where)
    # the items
    from ..engine.terms import subterms
    sends = [e for e in s.events if e.kind == "call" and CRP + "send_message" in e.targets and not e.loops
             and (not residual(e, ()) or (helper and all(c.prov == "ret-surv" for c in e.pc))) and e.term[2] and e.term[2][0] != sp.term("InventoryMessage([])")]
    def items_of(e: Any) -> Any:
        t = e.term[2][0]
        if helper:          # the search value plays the role of the loop-carried start
            for x in list(subterms(t)):
                if isinstance(x, tuple) and x and x[0] == "first":
                    t = _subst(t, x, ("lv", "S", 0))
        return canon_lv(t)
    want_items = Spec(s, ("self", "header", "message"), extra={"CS": sp.term("CS"), "S": ("lv", "S", 0)}).term(
        "InventoryMessage([InventoryItem(DATA_BLOCK, CS.by_height_at_head()[h].hash()) for h in range(S, min(S + %d, CS.head().height + 1))])" % INV)
    construct = "get-blocks: answer = ids of active-chain heights start .. min(start + 500, head height + 1) - 1, in order"
    if len(sends) == 1 and items_of(sends[0]) == want_items and sends[0].term[2][1] == sp.term("header"):
        ck.ok("R10.3", construct, "", sends[0].loc)
    else:
        ck.violated("R10.3", construct, "inventory is %s" % [show(e.term[2][0])[:260] for e in sends], where)
    v = ck.repo.const("skepticoin.networking.params.GET_BLOCKS_INVENTORY_SIZE")
    if v == INV:
        ck.ok("R10.3", "GET_BLOCKS_INVENTORY_SIZE == 500", "", "")
    else:
        ck.violated("R10.3", "GET_BLOCKS_INVENTORY_SIZE == 500", "folds to %r" % (v,), "")


def summ_test_for_break(s: Any, loop: ast.For) -> Optional[Term]:
    for n in ast.walk(loop):
        if isinstance(n, ast.If) and any(isinstance(b, ast.Break) for b in n.body):
            return s.tests.get(id(n))
    return None


def r10_4(ck: Check) -> None:
    q = CRP + "handle_inventory_message_received"
    s = ck.summ(q, 0)
    sp = Spec(s, ("self", "header", "message"))
    require_guard(ck, "R10.4", s, sp, "len(message.items) > %d" % INV, "an inventory of more than 500 items is refused", exact=True)
    empty = sp.term("message.items == []")
    st = {show(e.term): e for e in s.events if e.kind == "store"}
    w = st.get("self.waiting_for_inventory")
    t = st.get("self.last_empty_inventory_response_at")
    nonempty_ = sp.term("message.items != []")
    sends_ = [e for e in s.events if e.kind == "call" and (CRP + "send_message" in e.targets or CRP + "check_inventory_messages" in e.targets)]
    quiet = all(nonempty_ in [c.term for c in e.pc] for e in sends_)      # nothing is sent or requested on the empty path
    construct = "inventory: an empty answer ends the wait (waiting_for_inventory = False, time recorded) and nothing is requested"
    if w is not None and t is not None and w.value == C(False) and empty in [c.term for c in w.pc] and empty in [c.term for c in t.pc] and quiet:
        ck.ok("R10.4", construct, "", w.loc)
    else:
        ck.violated("R10.4", construct, "empty-inventory branch changed", s.fi.loc)
    ap = [e for e in s.events if e.kind == "call" and e.term == sp.term("self.inventory_messages.append(InventoryMessageState(header, message))")]
    chk = [e for e in s.events if e.kind == "call" and CRP + "check_inventory_messages" in e.targets]
    nxt = [e for e in s.events if e.kind == "call" and CRP + "send_message" in e.targets
           and e.term[2] == (sp.term("GetBlocksMessage([message.items[-1].hash])"), sp.term("header"))]
    construct = "inventory: a non-empty answer is queued, its unknown blocks requested, and the next batch asked for from its last id"
    nonempty = sp.term("message.items != []")
    def under(e: Any) -> bool:
        return [c.term for c in residual(e, ())] == [nonempty]
    if len(ap) == 1 and len(chk) == 1 and len(nxt) == 1 and ap[0].seq < chk[0].seq < nxt[0].seq and under(ap[0]) and under(chk[0]) and under(nxt[0]):
        ck.ok("R10.4", construct, "", ap[0].loc)
    else:
        ck.violated("R10.4", construct, "queue %d, check %d, next-batch %d" % (len(ap), len(chk), len(nxt)), s.fi.loc)
    c = ck.summ(CRP + "check_inventory_messages", 0)
    spc = Spec(c, ("self",), forall=[("ms", "self.inventory_messages"), ("it", "ms.message.items")])
    used = [e for e in c.events if e.kind == "store" and e.term == spc.term("ms.actually_used")]
    reqd = [e for e in c.events if e.kind == "store" and e.term == spc.term("it.block_requested")]
    send = [e for e in c.events if e.kind == "call" and CRP + "send_message" in e.targets]
    want_cond = {spc.term("it.hash not in self.local_peer.chain_manager.coinstate.block_by_hash"), spc.term("not it.block_requested")}
    construct = "inventory: each listed block not yet known and not yet requested is requested exactly once (flags set before sending)"
    ok = False
    if len(used) == 1 and len(reqd) == 1 and len(send) == 1:
        have = set()
        for cj in send[0].pc:
            have.update(conjuncts(cj.term))
        ok = (want_cond <= have and spc.term("not ms.actually_used") in have and used[0].value == C(True) and reqd[0].value == C(True)
              and used[0].seq < reqd[0].seq < send[0].seq and list(loop_doms(send[0])) == spc.loops
              and send[0].term[2] == (spc.term("GetDataMessage(DATA_BLOCK, it.hash)"), spc.term("ms.header")))
    if ok:
        ck.ok("R10.4", construct, "", send[0].loc)
    else:
        ck.violated("R10.4", construct, "request loop changed: %s" % [e.describe()[:200] for e in send], c.fi.loc)


def r10_8(ck: Check) -> None:
    """the send side of a connection: every message is framed (magic, 4-byte big-endian length of header+message, header, message) and
    queued; the socket is drained front to back by exactly what `send` reports as sent; messages leave in the order they were queued"""
    s = ck.summ(CRP + "send_message", 0)
    sp = Spec(s, ("self", "message", "prev"))
    hdr = [e for e in s.events if e.kind == "call" and "new:skepticoin.networking.messages.MessageHeader" in e.targets]
    aps = [e for e in s.events if e.kind == "call" and e.parts and e.parts[0] == ("a", sp.term("self.send_backlog"), "append")]
    construct = "send_message: queues MAGIC ++ u32be(len(header ++ message)) ++ header ++ message, unconditionally, once"
    ok = False
    if len(hdr) == 1 and len(aps) == 1 and not residual(aps[0], ()) and not aps[0].loops:
        h = hdr[0].term
        data = ("cat", (("call", ("a", h, "serialize"), (), ()), sp.term("message.serialize()")))
        ln = ("call", ("g", "builtin:len"), (data,), ())
        forms = [("cat", (sp.term("MAGIC"), ("call", ("g", "ext:struct.pack"), (C(fmt), ln), ()), data[1][0], data[1][1])) for fmt in (b">I", b"!I", ">I", "!I")]
        forms += [("cat", (sp.term("MAGIC"), ("call", ("a", ln, "to_bytes"), (C(4), C("big"), C(False)), ()), data[1][0], data[1][1]))]
        ok = aps[0].term[2][0] in forms
    if ok:
        ck.ok("R10.8", construct, "", aps[0].loc)
    else:
        ck.violated("R10.8", construct, "queued: %s" % [show(e.term[2][0])[:260] for e in aps], s.fi.loc)
    buf, backlog = sp.term("self.send_buffer"), sp.term("self.send_backlog")
    st = [e for e in s.events if e.kind == "store" and e.term == buf]
    start = [e for e in s.events if e.kind == "call" and CRP + "start_sending" in e.targets]
    idle = s.norm.mk_cmp_s("==", ("call", ("g", "builtin:len"), (buf,), ()), C(0), None)
    pop0 = ("call", ("a", backlog, "pop"), (C(0),), ())
    popleft = ("call", ("a", backlog, "popleft"), (), ())        # (a deque: the same end)
    construct = "send_message: when nothing is in flight, the oldest queued frame becomes the send buffer and write-readiness is requested"
    if len(st) == 1 and st[0].value in (pop0, popleft) and len(start) == 1 and aps and aps[0].seq < st[0].seq < start[0].seq \
            and {x for c in st[0].pc for x in conjuncts(c.term)} == {idle} == {x for c in start[0].pc for x in conjuncts(c.term)}:
        ck.ok("R10.8", construct, "", st[0].loc)
    else:
        ck.violated("R10.8", construct, "%s" % [e.describe()[:140] for e in st + start], s.fi.loc)
    c = ck.summ(CRP + "handle_can_send", 0)
    spc = Spec(c, ("self", "sock"))
    buf, backlog = spc.term("self.send_buffer"), spc.term("self.send_backlog")
    sends = [e for e in c.events if e.kind == "call" and not e.chain and e.parts and e.parts[0] == ("a", spc.term("sock"), "send")]
    stores = [e for e in c.events if e.kind == "store" and not e.chain and e.term == buf]
    construct = "handle_can_send: sent = sock.send(send_buffer); send_buffer = send_buffer[sent:] (nothing dropped, nothing repeated)"
    if len(sends) == 1 and sends[0].term[2] == (buf,) and not residual(sends[0], ()) and stores and stores[0].value == ("sl", buf, sends[0].term, None, None) \
            and not residual(stores[0], ()) and sends[0].seq < stores[0].seq:
        ck.ok("R10.8", construct, "", sends[0].loc)
    else:
        ck.violated("R10.8", construct, "%s" % [e.describe()[:140] for e in sends + stores], c.fi.loc)
    empty = c.norm.mk_cmp_s("==", ("call", ("g", "builtin:len"), (buf,), ()), C(0), None)     # (read after the store: the remaining bytes)
    noq = c.norm.mk_cmp_s("==", ("call", ("g", "builtin:len"), (backlog,), ()), C(0), None)
    nxt = [e for e in stores[1:] if e.value in (("call", ("a", backlog, "pop"), (C(0),), ()), ("call", ("a", backlog, "popleft"), (), ()))]
    stop = [e for e in c.events if e.kind == "call" and not e.chain and CRP + "stop_sending" in e.targets]
    cs = lambda e: {x for cj in e.pc for x in conjuncts(cj.term)}   # noqa
    from ..engine.terms import mk_not
    construct = "handle_can_send: when the buffer is drained, the next queued frame (oldest first) follows; write-readiness is dropped only when the queue is empty"
    if len(nxt) == 1 and len(stop) == 1 and cs(nxt[0]) == {empty, mk_not(noq)} and cs(stop[0]) == {empty, noq}:
        ck.ok("R10.8", construct, "", nxt[0].loc)
    else:
        ck.violated("R10.8", construct, "next-frame stores %s; stop_sending %s" % ([e.describe()[:160] for e in stores[1:]], [e.describe()[:160] for e in stop]), c.fi.loc)


def r10_8b(ck: Check) -> None:
    """write-readiness is what makes queued frames leave: asked for when there is something to send, dropped (keeping read-readiness) when
    the queue is empty - always for this connection's own socket"""
    for fn, want in (("start_sending", "selectors.EVENT_READ | selectors.EVENT_WRITE"), ("stop_sending", "selectors.EVENT_READ")):
        s = ck.summ(CRP + fn, 0)
        sp = Spec(s, ("self",))
        mods = [e for e in s.events if e.kind == "call" and not e.chain and e.parts and e.parts[0] == ("a", sp.term("self.local_peer.selector"), "modify")]
        construct = "%s: selector.modify(self.sock, %s, data=self)" % (fn, want)
        ok = False
        if len(mods) == 1 and not mods[0].loops and not residual(mods[0], ()):
            t = mods[0].term
            args = list(t[2])
            kw = dict((k_, v) for k_, v in t[3] if isinstance(k_, str))
            data = kw.get("data", args[2] if len(args) > 2 else None)
            ok = len(args) >= 2 and args[0] == sp.term("self.sock") and args[1] == sp.term(want) and data == sp.term("self")
        if ok:
            ck.ok("R10.8", construct, "", mods[0].loc)
        else:
            ck.violated("R10.8", construct, "%s" % [show(e.term)[:160] for e in mods], s.fi.loc)
    g = ck.summ(CRP + "_get_msg_id", 0, heap=True)      # (remembered store: the value read after the increment)
    spg = Spec(g, ("self",))
    st = [e for e in g.events if e.kind == "store" and e.term == spg.term("self._next_msg_id")]
    from ..engine.match import function_value
    v = function_value(g)
    init = ck.summ(CRP + "__init__", 0)
    i0 = [e for e in init.events if e.kind == "store" and e.term == ("a", ("v", init.fi.params[0]), "_next_msg_id")]
    construct = "_get_msg_id: ids count up from 1 (0 stays reserved for 'not a response')"
    if len(st) == 1 and st[0].value == spg.term("self._next_msg_id + 1") and v == spg.term("self._next_msg_id + 1") and len(i0) == 1 and i0[0].value == C(0):
        ck.ok("R10.8", construct, "", g.fi.loc)
    else:
        ck.violated("R10.8", construct, "update %s, returns %s, initial %s" % ([show(e.value) for e in st], show(v) if v is not None else None,
                                                                               [show(e.value) for e in i0]), g.fi.loc)


def r10_5(ck: Check) -> None:
    s = ck.summ("skepticoin.networking.manager.get_recent_block_heights", 0)
    require_return(ck, "R10.5", s, Spec(s, ("h",)),
                   "[x for x in [h - o for o in list(range(10)) + [pow(x, 2) for x in range(4, 64)]] if x >= 0]",
                   "locator heights: the 10 most recent (head first), then quadratically spaced back, never negative")
    g = ck.summ(CM + "get_get_blocks_message", 0)
    require_return(ck, "R10.5", g, Spec(g, ("self",)),
                   "GetBlocksMessage([self.coinstate.by_height_at_head()[k].hash() for k in get_recent_block_heights(self.coinstate.head().height)])",
                   "locator ids are taken from the active chain at those heights, starting from the head's height")


def _int_consts(t: Any) -> List[Any]:
    out: List[Any] = []
    if isinstance(t, tuple):
        if len(t) == 2 and t[0] == "c" and isinstance(t[1], int) and not isinstance(t[1], bool):
            out.append(t)
        elif t and t[0] == "lin" and len(t) == 3 and isinstance(t[2], int):
            out.append(("c", abs(t[2])))
            for a_, _c in t[1]:
                out.extend(_int_consts(a_))
        else:
            for x in t:
                out.extend(_int_consts(x))
    return out


def _conj_set(conds: Any) -> set:
    out = set()
    for c in conds:
        out |= set(c[1]) if isinstance(c, tuple) and c and c[0] == "and" else {c}
    return out


def r10_6(ck: Check) -> None:
    s = ck.summ(CM + "should_actively_fetch_blocks", 0)
    # the three periods are tuning, not part of the property: any positive whole numbers of seconds keep the node fetching
    from ..engine.match import function_value, same_value
    spf = Spec(s, ("self", "now"))
    got = function_value(s)
    ints = sorted({x[1] for x in _int_consts(got)} - {0, 1, -1}) if got is not None else []
    okf = False
    if got is not None and 1 <= len(ints) <= 3:
        import itertools
        for a_, b_, c_ in itertools.product(ints, repeat=3):
            want_f = spf.term("(now > self.coinstate.head().timestamp + %d) or (now <= self.started_at + %d) or (now %% %d == 0)" % (a_, b_, c_))
            if same_value(got, want_f) and min(a_, b_, c_) > 0:
                okf = True
                break
    construct = "should_actively_fetch_blocks: head older than A s, or within B s of start, or once every C s (A, B, C > 0)"
    if okf:
        ck.ok("R10.6", construct, "fetch actively when the head is old, right after start, and periodically", s.fi.loc)
    else:
        ck.violated("R10.6", construct, "returns %s" % (show(got)[:240] if got is not None else None), s.fi.loc)
    st = ck.summ(CM + "step", 0)
    sp = Spec(st, ("self", "now"))
    early = [r for r in st.returns() if [c.term for c in r.pc] == [sp.term("not self.should_actively_fetch_blocks(now)")]]
    mark = [e for e in st.events if e.kind == "store" and e.term[0] == "a" and e.term[2] == "waiting_for_inventory" and e.value == C(True)]
    send = [e for e in st.events if e.kind == "call" and "skepticoin.networking.remote_peer.ConnectedRemotePeer.send_message" in e.targets
            and e.term[2] and e.term[2][0] == sp.term("self.get_get_blocks_message()")]
    construct = "ChainManager.step: nothing unless should_actively_fetch_blocks; the locator goes to one random candidate, which is marked waiting first"
    if early and len(mark) == 1 and len(send) == 1 and mark[0].term[1] == send[0].parts[0][1] and mark[0].seq < send[0].seq \
            and mark[0].term[1][0] == "call" and mark[0].term[1][1] == ("g", "ext:random.choice"):
        ck.ok("R10.6", construct, "", send[0].loc)
    else:
        ck.violated("R10.6", construct, "fetch step changed: %s" % [e.describe()[:160] for e in mark + send], st.fi.loc)
    pruned = [e for e in st.events if e.kind == "store" and e.term == sp.term("self.actively_fetching_blocks_from_peers")]
    want_pruned = sp.term("[(t, p) for (t, p) in self.actively_fetching_blocks_from_peers if now < t and not inventory_batch_handled(p)]")
    construct = "ChainManager.step: a fetch session is kept only while it is neither timed out nor completely handled"
    okp = len(pruned) == 1 and pruned[0].value == want_pruned
    if not okp and len(pruned) == 1:
        # dropping MORE sessions (e.g. those of peers that disconnected) only frees the slot sooner: the kept ones must satisfy both conditions
        v, w = pruned[0].value, want_pruned
        okp = (v is not None and v[0] == "comp" and v[1] == "list" and v[2] == w[2] and len(v[3]) == 1 and v[3][0][0] == w[3][0][0]
               and _conj_set(w[3][0][1]) <= _conj_set(v[3][0][1]))
    if okp:
        ck.ok("R10.6", construct, "", pruned[0].loc)
    else:
        ck.violated("R10.6", construct, "a session that is kept when timed out OR unhandled blocks the fetch slot forever (no further get-blocks is "
                    "ever sent): sessions := %s" % [show(e.value)[:200] for e in pruned], st.fi.loc)
    slot = [r for r in st.returns() if sp.term("len(self.actively_fetching_blocks_from_peers) > MAX_IBD_PEERS") in [c.term for c in r.pc]]
    app = [e for e in st.events if e.kind == "call" and e.parts and e.parts[0] == ("a", sp.term("self.actively_fetching_blocks_from_peers"), "append")]
    construct = "ChainManager.step: at most MAX_IBD_PEERS+1 sessions; a new session is recorded with deadline now + IBD_PEER_TIMEOUT"
    if slot and len(app) == 1 and mark and app[0].term[2] == (("tuple", (sp.term("now + IBD_PEER_TIMEOUT"), mark[0].term[1])),):
        ck.ok("R10.6", construct, "", app[0].loc)
    else:
        ck.violated("R10.6", construct, "%s" % [e.describe()[:160] for e in app], st.fi.loc)
    ib = ck.summ("skepticoin.networking.manager.inventory_batch_handled", 0)
    require_return(ck, "R10.6", ib, Spec(ib, ("p",)), "not p.waiting_for_inventory and p.inventory_messages == []",
                   "a batch is handled when no inventory is awaited and every queued inventory has been consumed")
    cand = mark[0].term[1][2][0] if mark else None
    want = sp.term("[peer for peer in self.local_peer.network_manager.get_active_peers() "
                   "if now > peer.last_empty_inventory_response_at + EMPTY_INVENTORY_BACKOFF]")
    if cand == want:
        ck.ok("R10.6", "ChainManager.step: candidates = active peers not in empty-inventory back-off", "", st.fi.loc)
    else:
        ck.violated("R10.6", "ChainManager.step: candidates = active peers not in empty-inventory back-off", "candidates: %s" % (show(cand)[:200] if cand else None),
                    st.fi.loc)


def r10_7(ck: Check) -> None:
    s = ck.summ(CRP + "remove_from_inventory", 0)
    sp = Spec(s, ("self", "h"), forall=[("(i, ms)", "enumerate(self.inventory_messages)"), ("(j, it)", "enumerate(ms.message.items)")])
    d1 = [e for e in s.events if e.kind == "del" and e.term == sp.term("ms.message.items[j]")]
    spo = Spec(s, ("self", "h"), forall=[("(i, ms)", "enumerate(self.inventory_messages)")])
    d2 = [e for e in s.events if e.kind == "del" and e.term == spo.term("self.inventory_messages[i]")]
    construct = "remove_from_inventory: the received block's item is removed; an inventory with no items left is dropped"
    if len(d1) == 1 and [c.term for c in d1[0].pc] == [sp.term("it.hash == h")] and len(d2) == 1 \
            and [c.term for c in d2[0].pc if c.prov == "branch"] == [spo.term("len(ms.message.items) == 0")]:
        ck.ok("R10.7", construct, "so inventory_batch_handled becomes true exactly when every listed block has arrived", s.fi.loc)
    else:
        ck.violated("R10.7", construct, "%s" % [e.describe()[:160] for e in d1 + d2], s.fi.loc)
    h = ck.summ(CRP + "handle_block_received", 0)
    sph = Spec(h, ("self", "header", "message"))
    rm = [e for e in h.events if e.kind == "call" and CRP + "remove_from_inventory" in e.targets]
    if len(rm) == 1 and rm[0].term[2] == (sph.term("message.data.hash()"),) and not residual(rm[0], ()):
        ck.ok("R10.7", "every received block is struck from the pending inventories, by its id", "", rm[0].loc)
    else:
        ck.violated("R10.7", "every received block is struck from the pending inventories, by its id", "%s" % [e.describe()[:120] for e in rm], h.fi.loc)
    init = ck.summ("skepticoin.networking.messages.InventoryItem.__init__", 0)
    st = {show(e.term): e.value for e in init.events if e.kind == "store"}
    if st.get("self.block_requested") == C(False):
        ck.ok("R10.7", "a fresh inventory item is not yet requested", "", init.fi.loc)
    else:
        ck.violated("R10.7", "a fresh inventory item is not yet requested", "block_requested starts as %s" % show(st.get("self.block_requested", C(None))), init.fi.loc)
    ims = ck.summ("skepticoin.networking.remote_peer.InventoryMessageState.__init__", 0)
    st = {show(e.term): e.value for e in ims.events if e.kind == "store"}
    if st.get("self.actually_used") == C(False) and st.get("self.message") == ("v", "message") and st.get("self.header") == ("v", "header"):
        ck.ok("R10.7", "a queued inventory starts unused, with its message and header", "", ims.fi.loc)
    else:
        ck.violated("R10.7", "a queued inventory starts unused, with its message and header", "%s" % {k: show(v) for k, v in st.items()}, ims.fi.loc)


def check(ck: Check) -> None:
    ck.explanations.append(
        "C10 (partly): decides the local clauses the statement and its mechanism list name — a block is relayed only when new and newly head "
        "(typestate of the relay handler, shared with C09), a transaction only when new and admitted, and the arithmetic of the inventory "
        "service / consumption / locator / active-fetch predicate as normalised formulas. Convergence under every interleaving of deliveries "
        "and timer steps is NOT decided (it needs a model checker or simulator).")
    from .c09 import r09_6, r09_flow
    from .c13 import r13_4
    ck.run("R10.1", "a block is relayed only when new and newly head (R09.1 + R09.6)", lambda: (r09_flow(ck), r09_6(ck)))
    ck.run("R10.2", "a transaction is relayed only when new and admitted", lambda: r13_4(ck))
    ck.run("R10.3", "inventory service", lambda: r10_3(ck))
    ck.run("R10.4", "inventory consumption", lambda: r10_4(ck))
    ck.run("R10.8", "send side: framing, queue order, partial sends, write-readiness, message ids", lambda: (r10_8(ck), r10_8b(ck)))
    ck.run("R10.5", "locator", lambda: r10_5(ck))
    ck.run("R10.6", "active fetching predicate and step", lambda: r10_6(ck))
    ck.run("R10.7", "inventory bookkeeping", lambda: r10_7(ck))
    from .c09 import r09_9
    ck.run("R09.9", "solicited vs unsolicited data", lambda: r09_9(ck))
    ck.assume("NOT decided: convergence of 2-3 nodes under all schedules; completeness of the fetched chain at quiescence")
