"""Rule pieces shared by several properties."""
from __future__ import annotations

import ast
from typing import Any, Dict, List, Optional, Sequence, Set, Tuple

from ..engine.effects import collect_mutations
from ..engine.match import Spec, find_guard, loop_doms, require_call, require_guard, residual
from ..engine.repo import AnalysisError, FuncInfo, Repo, dotted, func_body
from ..engine.report import Check
from ..engine.terms import C, Term, conjuncts, implies, mk_and, show
from ..engine.walker import Event, Summary, swallowed_by

CONS = "skepticoin.consensus."
HORIZON_CTX = "block.height > MAX_KNOWN_HASH_HEIGHT"


def short(q: str) -> str:
    return q.replace("skepticoin.", "")


# --------------------------------------------------------------------------- seen-set idiom
def only_called_from(ck: Check, fn: str, allowed: Set[str], depth: int) -> bool:
    """fn is a helper introduced after the rule tables were written and every (name-matched) call site of it lies in an allowed
    function or in another such helper: its events and values are analysed as part of those callers."""
    if depth > 4 or not ck.walker.transparent(fn):
        return False
    name = fn.split(".")[-1]
    callers = set()
    for fi in ck.repo.all_functions():
        if fi.qualname == fn:
            continue
        for n in ast.walk(fi.node):
            if isinstance(n, ast.Call) and ((isinstance(n.func, ast.Attribute) and n.func.attr == name)
                                            or (isinstance(n.func, ast.Name) and n.func.id == name)):
                callers.add(fi.qualname)
    return bool(callers) and all(c in allowed or only_called_from(ck, c, allowed, depth + 1) for c in callers)


GATE_MODULES = ("skepticoin.consensus", "skepticoin.datatypes", "skepticoin.signing", "skepticoin.serialization", "skepticoin.networking.messages",
                "skepticoin.coinstate", "skepticoin.wallet", "skepticoin.balances", "skepticoin.merkletree", "skepticoin.pow")


def _canon_lv(t: Any) -> Any:
    if isinstance(t, tuple):
        if t and t[0] == "lv":
            return ("lv", "_", 0)
        if t and t[0] == "new" and len(t) == 4:
            return ("new", t[1], 0, ())          # identities are numbered in creation order: not part of the condition
        return tuple(_canon_lv(x) for x in t)
    return t


def rejection_sites(ck: Check, q: str) -> List[str]:
    """the ways function q itself refuses (helpers extracted later count as part of it): its raise statements as `Class: message text`,
    and the validators it hands its input to as `-> validator`"""
    from ..engine.walker import exc_class
    s = ck.summ(q, 0)
    out = set()
    seen_n: Dict[str, int] = {}
    for e in s.events:
        if e.chain:
            continue
        if e.kind == "raise":
            t = e.term
            if t == ("g", "builtin:reraise") or any(c.prov == "handler" for c in e.pc):
                continue        # passes on (or renames) a failure that was on its way out already: not a refusal of its own
            last = [c.term for c in e.pc if c.prov == "branch"][-1:]
            replaces_lookup_failure = False
            if last and last[0][0] == "cmp" and last[0][1] == "notin":
                # `if k not in D: raise X` in front of `D[k]`: the look-up would have raised KeyError for the same inputs
                from ..engine.terms import mentions as _mentions
                sub = ("s", last[0][3], last[0][2])
                if any(x.seq > e.seq and not x.chain and (_mentions(x.term, sub) or (x.value is not None and _mentions(x.value, sub))) for x in s.events):
                    replaces_lookup_failure = True
            msg = ""
            if t[0] == "call" and t[2]:
                a0 = t[2][0]
                if a0[0] == "c":
                    msg = str(a0[1])
                elif a0[0] == "call" and a0[1] == ("g", "builtin:fmt") and a0[2] and a0[2][0][0] == "c":
                    msg = str(a0[2][0][1])
                elif a0[0] == "call" and a0[1] == ("g", "builtin:fstr") and a0[2] and a0[2][0][0] == "c":
                    msg = str(a0[2][0][1])
                elif a0[0] == "call" and a0[1][0] == "a" and a0[1][2] == "format" and a0[1][1][0] == "c":
                    msg = str(a0[1][1][1])
            # the literal text up to the first substituted value identifies the message however it is formatted
            for mark in ("%", "{"):
                if mark in msg:
                    msg = msg[:msg.index(mark)]
            item = "%s: %s" % (exc_class(e).split(".")[-1], msg.strip()[:24].strip())
            # raise statements with the same class and text are counted, not merged (`raise E()` four times is four refusals)
            seen_n[item] = seen_n.get(item, 0) + 1
            if seen_n[item] > 1:
                item = "%s ~%d" % (item, seen_n[item])
            # (marked: counts as new only when a recorded refusal went missing, i.e. when it is an existing raise that was changed)
            out.add(("?" + item) if replaces_lookup_failure else item)
        elif e.kind == "call":
            for tg in e.targets:
                if tg.startswith("skepticoin.consensus.validate_") or tg.endswith(".validate") and tg.startswith("skepticoin.signing."):
                    out.add("-> " + tg.replace("skepticoin.", ""))
    return sorted(out)


def is_gate(fi: FuncInfo) -> bool:
    return fi.module.name in GATE_MODULES or (fi.module.name == "skepticoin.networking.remote_peer"
                                              and (".handle_" in fi.qualname or ".MessageReceiver." in fi.qualname))


def _exc_ancestors(ck: Check, short_name: str) -> List[str]:
    from ..engine.walker import BUILTIN_EXC_BASES
    out = [short_name]
    cur: Optional[str] = short_name
    for _ in range(12):
        nxt = None
        cands = [c for q_, c in ck.repo.classes.items() if q_.split(".")[-1] == cur]
        if cands:
            for b in cands[0].bases:
                if b:
                    nxt = str(b).split(":")[-1].split(".")[-1]
                    break
        elif cur in BUILTIN_EXC_BASES:
            nxt = BUILTIN_EXC_BASES[cur]
        if not nxt:
            break
        out.append(nxt)
        cur = nxt
    return out


def rule_no_new_rejections(ck: Check, rule: str, prefixes: Sequence[str], what: str) -> None:
    """accepting paths stay open: a function that validates, decodes or handles input has no raise statement and no call of a validator
    beyond those recorded for it (raise statements are identified by exception class and message text, so moving, merging or re-formatting
    them changes nothing). The rejections that must be there are separate obligations; this one says that nothing valid is newly refused."""
    import json
    import os
    from ..engine.report import VERIF_ROOT
    ref = json.load(open(os.path.join(VERIF_ROOT, "reference", "rejections.json")))
    n = 0
    for q, want in sorted(ref.items()):
        if not any(q.startswith(p_) for p_ in prefixes) or q not in ck.repo.functions:
            continue
        n += 1
        got = rejection_sites(ck, q)
        plain = [a for a in got if not a.startswith("?")]
        if all(w_ in plain for w_ in want):
            got = plain         # every recorded refusal is still there: a raise in front of the same look-up only renames a KeyError
        else:
            got = [a.lstrip("?") for a in got]
        new = [a for a in got if a not in want]
        # a reworded message is not a new refusal: per exception class, only MORE distinct raise statements than recorded count
        want_classes = {w_.split(":")[0] for w_ in want if not w_.startswith("->")}

        def cls_of(a: str) -> str:
            # a refusal raised as a (new) subclass of the recorded class is the recorded refusal under a more specific name: every handler
            # that caught it still does
            if a.startswith("->"):
                return a
            k = a.split(":")[0]
            for anc in _exc_ancestors(ck, k):
                if anc in want_classes:
                    return anc
            return k
        new = [a for a in new if a.startswith("->")
               or len([g for g in got if cls_of(g) == cls_of(a)]) > len([w_ for w_ in want if cls_of(w_) == cls_of(a)])]
        construct = "%s has no new way to refuse its input" % short(q)
        if new:
            ck.violated(rule, construct, "%s — new: %s" % (what, "; ".join(x[:120] for x in new[:4])), ck.repo.functions[q].loc)
        else:
            ck.ok(rule, construct, "%d recorded" % len(want), ck.repo.functions[q].loc)
    if n == 0:
        ck.unknown(rule, "rejection inventory", "no recorded function matches %s" % list(prefixes))


def functions_mentioning(ck: Check, needle: str) -> List[FuncInfo]:
    """recorded (non-transparent) functions whose source mentions `needle`, directly or through the name of a helper that was
    introduced after the rule tables were written (such helpers are analysed as part of their callers, never on their own)."""
    w = ck.walker
    fns = list(ck.repo.all_functions())
    srcs = {fi.qualname: ck.repo.src(fi.node) for fi in fns}
    needles = {needle}
    changed = True
    while changed:
        changed = False
        for fi in fns:
            if w.transparent(fi.qualname) and fi.name not in needles and any(n in srcs[fi.qualname] for n in needles):
                needles.add(fi.name)
                changed = True
    return [fi for fi in fns if not w.transparent(fi.qualname) and any(n in srcs[fi.qualname] for n in needles)]


def require_seen_set(ck: Check, rule: str, summ: Summary, spec: Spec, key_expr: str, what: str,
                     set_scope_loops: int = 0) -> bool:
    """`S = set()` created outside the innermost `len(spec.loops) - set_scope_loops` loops; for every element:
    `if K in S: raise` then unconditionally `S.add(K)`. Equivalent to "the keys K over the iteration domain are pairwise distinct"."""
    fi = summ.fi
    k = spec.term(key_expr)
    lp = list(spec.loops)
    construct = "%s: distinct(%s ∀ %s)" % (short(fi.qualname), show(k), "; ".join(show(d) for d in lp))
    why = "no `if key in seen: raise` over this domain"
    for ev in summ.raises():
        rest = residual(ev, ())
        if len(rest) != 1:
            continue
        c = rest[0].term
        if not (c[0] == "cmp" and c[1] == "in" and c[2] == k):
            continue
        s = c[3]
        if s[0] != "new" or s[1] != "set":
            why = "membership is tested against %s, which is not a set created once before the loops" % show(s)
            continue
        if list(loop_doms(ev)) != lp:
            why = "duplicate test runs over [%s] instead of [%s]" % ("; ".join(show(d) for d in loop_doms(ev)), "; ".join(show(d) for d in lp))
            continue
        # the set must have been created outside all the loops it is meant to span
        created_in = list(s[3])
        outer = list(loop_doms(ev))[:len(loop_doms(ev)) - len(lp)] if lp else []
        if created_in != outer:
            why = "the seen-set is re-created inside the loop over %s, so duplicates across iterations are not seen" % (
                "; ".join(show(d) for d in created_in[len(outer):]) or "?")
            continue
        if any(l[2] for l in ev.loops):
            why = "loop can exit early"
            continue
        if swallowed_by(ck.repo, ev) is not None:
            why = "the duplicate exception is caught and dropped"
            continue
        # the add
        adds = [e for e in summ.events if e.kind == "call" and e.parts and e.parts[0] == ("a", s, "add") and list(e.parts[1]) == [k]
                and e.seq > ev.seq and list(loop_doms(e)) == list(loop_doms(ev))]
        adds = [e for e in adds if all(c2.prov == "raise-surv" or c2 in ev.pc for c2 in e.pc)]
        if not adds:
            why = "the key is never added to the seen-set on the non-raising path"
            continue
        ck.ok(rule, construct, what, ev.loc)
        return True
    if summ.unknown:
        ck.unknown(rule, construct, "unanalysed constructs: %s" % "; ".join(summ.unknown[:3]), fi.loc)
    else:
        ck.violated(rule, construct, "%s — %s" % (what, why), fi.loc)
    return False


# --------------------------------------------------------------------------- R01.8 coinbase/rest split
SPLIT_FILES = ("skepticoin.consensus", "skepticoin.balances", "skepticoin.coinstate")


def rule_split_agreement(ck: Check, rule: str) -> None:
    """every constant subscript / slice of a `.transactions` list is [0] or [1:]; a function that uses [0] as the reward
    uses exactly [1:] for the rest."""
    n = 0
    per_func: Dict[str, List[str]] = {}
    for mn in SPLIT_FILES:
        m = ck.repo.module(mn)
        owner: Dict[int, str] = {}
        for fi in ck.repo.all_functions():
            if fi.module is m:
                for node in ast.walk(fi.node):
                    owner.setdefault(id(node), fi.qualname)
        for node in ast.walk(m.tree):
            if not (isinstance(node, ast.Subscript) and isinstance(node.value, ast.Attribute) and node.value.attr == "transactions"):
                continue
            sl = node.slice
            desc = None
            if isinstance(sl, ast.Constant) and isinstance(sl.value, int):
                desc = "[%d]" % sl.value
            elif isinstance(sl, ast.Slice):
                try:
                    lo = ck.repo.fold(sl.lower, m, None, {}) if sl.lower is not None else None
                    hi = ck.repo.fold(sl.upper, m, None, {}) if sl.upper is not None else None
                    st = ck.repo.fold(sl.step, m, None, {}) if sl.step is not None else None
                except AnalysisError:
                    continue
                desc = "[%s:%s%s]" % ("" if lo in (None, 0) else lo, "" if hi is None else hi, "" if st in (None, 1) else ":%s" % st)
            if desc is None:
                continue
            n += 1
            fn = owner.get(id(node), mn)
            per_func.setdefault(fn, []).append(desc)
            where = "%s:%d" % (m.path, node.lineno)
            construct = "%s: transactions%s" % (short(fn), desc)
            if desc in ("[0]", "[1:]"):
                ck.ok(rule, construct, "reward/rest split is [0] / [1:]", where)
            else:
                ck.violated(rule, construct, "a transaction list is split at %s; every sibling site uses [0] for the reward and [1:] for the rest"
                            % desc, where)
    n_funcs = len(per_func)
    # sites inside a helper that was extracted later belong to the recorded functions that use the helper
    for fn in [f for f in per_func if ck.walker.transparent(f)]:
        ds = per_func.pop(fn)
        for caller in functions_mentioning(ck, fn.split(".")[-1] + "("):
            per_func.setdefault(caller.qualname, []).extend(ds)
    for fn, ds in per_func.items():
        if "[0]" in ds and "[1:]" not in ds and fn.split(".")[-1] not in ("validate_coinbase_transaction_by_itself",):
            # a function that singles out the reward must also process the rest
            ck.violated(rule, "%s: reward without rest" % short(fn),
                        "uses transactions[0] but never transactions[1:] — the non-reward transactions are not processed here", "")
    # (the floor is on functions, not occurrences: slicing once into a local name and using it thrice is the same split)
    ck.stats["transactions subscripts"] = n
    ck.expect_count(rule, "functions that split a .transactions list at a constant", n_funcs, 3)


# --------------------------------------------------------------------------- R01.9 effect freedom
def _is_counter(m: Any) -> bool:
    """a statistics counter: a store to a module-level container of the form X = X + <number> (nothing that depends on the arguments is kept)"""
    from ..engine.terms import lin_parts
    ev = m.ev
    if m.root[0] != "g" or ev.kind != "store" or ev.value is None:
        return False
    atoms, _k = lin_parts(ev.value)
    return set(atoms) == {ev.term} and atoms[ev.term] == 1


ONE_SHOT_BUILTINS = {"zip", "map", "filter", "iter", "reversed", "enumerate"}


def one_shot_reuse(fn: ast.AST, generator_names: Set[str]) -> List[Tuple[str, int, str]]:
    """(name, line, why) for every local name bound to a one-shot iterator (generator expression, zip / map / filter / iter / reversed /
    enumerate, a call of a generator function) that can be consumed more than once: two uses not in opposite branches of one `if`, or
    a use inside a loop that the binding is outside of. The second consumer sees an exhausted iterator (an empty sum, a loop that
    does not run)."""
    parents: Dict[int, ast.AST] = {}
    for n in ast.walk(fn):
        for c in ast.iter_child_nodes(n):
            parents[id(c)] = n

    def own(n: ast.AST) -> bool:
        p_ = parents.get(id(n))
        while p_ is not None and p_ is not fn:
            if isinstance(p_, (ast.FunctionDef, ast.AsyncFunctionDef, ast.Lambda, ast.ClassDef)):
                return False
            p_ = parents.get(id(p_))
        return True

    def one_shot(v: ast.AST) -> bool:
        if isinstance(v, ast.GeneratorExp):
            return True
        if isinstance(v, ast.Call):
            d = dotted(v.func) or ""
            return d in ONE_SHOT_BUILTINS or d.split(".")[-1] in generator_names
        return False

    binds: Dict[str, List[ast.AST]] = {}
    for n in ast.walk(fn):
        if not own(n):
            continue
        if isinstance(n, ast.Assign) and len(n.targets) == 1 and isinstance(n.targets[0], ast.Name):
            binds.setdefault(n.targets[0].id, []).append(n)
        elif isinstance(n, ast.AnnAssign) and isinstance(n.target, ast.Name) and n.value is not None:
            binds.setdefault(n.target.id, []).append(n)
        elif isinstance(n, (ast.AugAssign, ast.For, ast.With, ast.NamedExpr)):
            for nm in [x.id for x in ast.walk(n.target if hasattr(n, "target") else n) if isinstance(x, ast.Name) and isinstance(x.ctx, ast.Store)]:
                binds.setdefault(nm, []).append(n)
    out: List[Tuple[str, int, str]] = []
    for nm, bs in binds.items():
        if len(bs) != 1 or not isinstance(bs[0], (ast.Assign, ast.AnnAssign)) or not one_shot(bs[0].value):     # type: ignore[attr-defined]
            continue
        b = bs[0]
        uses = sorted([n for n in ast.walk(fn) if isinstance(n, ast.Name) and n.id == nm and isinstance(n.ctx, ast.Load) and own(n)],
                      key=lambda n: (n.lineno, n.col_offset))

        def chain(n: ast.AST) -> List[ast.AST]:
            c_ = []
            while n is not None and n is not fn:
                c_.append(n)
                n = parents.get(id(n))     # type: ignore[assignment]
            return c_
        bchain = {id(x) for x in chain(b)}
        for u in uses:
            loops = [x for x in chain(u) if isinstance(x, (ast.For, ast.While, ast.ListComp, ast.SetComp, ast.DictComp, ast.GeneratorExp)) and id(x) not in bchain]
            # being the iterable of a loop / the first iterable of a comprehension is one consumption, not a repeated one
            loops = [x for x in loops if not (isinstance(x, ast.For) and any(y is u for y in ast.walk(x.iter)))
                     and not (not isinstance(x, (ast.For, ast.While)) and any(y is u for y in ast.walk(x.generators[0].iter)))]
            if loops:
                out.append((nm, u.lineno, "used inside a loop that starts after it was created (line %d)" % b.lineno))
        for i, u in enumerate(uses):
            for v in uses[i + 1:]:
                cu, cv = chain(u), chain(v)
                ids_v = {id(x): x for x in cv}
                exclusive = False
                for x in cu:
                    if id(x) in ids_v and isinstance(x, ast.If):
                        in_body_u = any(any(y is u for y in ast.walk(s_)) for s_ in x.body)
                        in_body_v = any(any(y is v for y in ast.walk(s_)) for s_ in x.body)
                        in_else_u = any(any(y is u for y in ast.walk(s_)) for s_ in x.orelse)
                        in_else_v = any(any(y is v for y in ast.walk(s_)) for s_ in x.orelse)
                        if (in_body_u and in_else_v) or (in_else_u and in_body_v):
                            exclusive = True
                        break
                if not exclusive:
                    out.append((nm, v.lineno, "consumed at line %d and again at line %d" % (u.lineno, v.lineno)))
    return out


EAGER_CONSUMERS = {"list", "tuple", "set", "frozenset", "sorted", "sum", "any", "all", "max", "min", "dict", "len", "next", "bytes", "bytearray", "Counter"}
EAGER_METHODS = {"join", "extend", "update", "executemany", "writelines", "union", "intersection", "difference"}


def late_binding(fn: ast.AST) -> List[Tuple[int, str, str]]:
    """generator expressions and lambdas that read a name which changes per iteration of an enclosing loop / comprehension, and that are
    not consumed (called) on the spot: by the time they run, the name has its LAST value. (line, name, text)"""
    parents: Dict[int, ast.AST] = {}
    for n in ast.walk(fn):
        for c in ast.iter_child_nodes(n):
            parents[id(c)] = n
    out: List[Tuple[int, str, str]] = []

    def stored_names(node: ast.AST) -> Set[str]:
        return {x.id for x in ast.walk(node) if isinstance(x, ast.Name) and isinstance(x.ctx, ast.Store)}

    for node in ast.walk(fn):
        if not isinstance(node, (ast.GeneratorExp, ast.Lambda)):
            continue
        # names the deferred code reads that it does not bind itself
        if isinstance(node, ast.GeneratorExp):
            bound = set()
            for g in node.generators:
                bound |= stored_names(g.target)
            deferred: List[ast.AST] = [node.elt] + [c for g in node.generators for c in g.ifs] + [g.iter for g in node.generators[1:]]
        else:
            bound = {a.arg for a in node.args.args + node.args.kwonlyargs} | ({node.args.vararg.arg} if node.args.vararg else set()) \
                | ({node.args.kwarg.arg} if node.args.kwarg else set())
            deferred = [node.body]
        free = {x.id for d in deferred for x in ast.walk(d) if isinstance(x, ast.Name) and isinstance(x.ctx, ast.Load)} - bound
        # default-argument capture (lambda x=x: ..) binds at creation
        if not free:
            continue
        # consumed on the spot?
        p = parents.get(id(node))
        immediate = False
        if isinstance(p, ast.Call):
            if p.func is node:
                immediate = True            # (lambda ..)(..)
            elif node in p.args and isinstance(p.func, ast.Name) and p.func.id in EAGER_CONSUMERS:
                immediate = True
            elif node in p.args and isinstance(p.func, ast.Attribute) and p.func.attr in EAGER_METHODS:
                immediate = True
        if isinstance(p, ast.keyword) and p.arg == "key":
            immediate = True                # sort / min / max / groupby keys are applied by the call they are handed to
        if isinstance(p, (ast.For, ast.comprehension)) and getattr(p, "iter", None) is node:
            immediate = True                # iterated right here
        # a deferred piece nested in another deferred piece (a lambda inside a generator expression) is judged against the loops of both
        varying: Dict[str, int] = {}
        cur = parents.get(id(node))
        inner: ast.AST = node
        while cur is not None and cur is not fn:
            if isinstance(cur, (ast.For, ast.While)) and any(inner is x or any(inner is y for y in ast.walk(x)) for x in cur.body):
                names = stored_names(cur.target) if isinstance(cur, ast.For) else set()
                for st in cur.body:
                    for x in ast.walk(st):
                        if isinstance(x, (ast.Assign, ast.AugAssign, ast.AnnAssign, ast.For, ast.With)):
                            names |= stored_names(x if not isinstance(x, (ast.For,)) else x.target)
                for nm in names & free:
                    varying.setdefault(nm, cur.lineno)
            if isinstance(cur, (ast.GeneratorExp, ast.ListComp, ast.SetComp, ast.DictComp)) and cur is not node:
                comp_names = set()
                for g in cur.generators:
                    comp_names |= stored_names(g.target)
                for nm in comp_names & free:
                    # inside a comprehension the deferred piece outlives the iteration unless it is called on the spot
                    varying.setdefault(nm, cur.lineno)
            if isinstance(cur, (ast.FunctionDef, ast.AsyncFunctionDef)):
                break
            inner = cur
            cur = parents.get(id(cur))
        if varying and not immediate:
            nm = sorted(varying)[0]
            out.append((node.lineno, nm, ast.unparse(node)[:70]))
    return out


def mutated_while_iterated(fn: ast.AST) -> List[Tuple[int, str]]:
    """`for x in xs:` whose body changes the length of xs (remove / pop / insert / append / extend / del xs[i] / clear): the iteration skips
    or repeats elements. Iterating a copy (`list(xs)`, `xs[:]`, `sorted(xs)`, `enumerate(list(xs))`) is fine; so is a change immediately
    followed by leaving the loop (`del xs[i]; break`)."""
    out = []
    grow = {"remove", "pop", "insert", "append", "extend", "clear", "popleft", "appendleft", "discard", "add", "update", "setdefault", "popitem"}
    for loop in ast.walk(fn):
        if not isinstance(loop, ast.For):
            continue
        it = loop.iter
        if isinstance(it, ast.Call) and isinstance(it.func, ast.Name) and it.func.id == "enumerate" and it.args:
            it = it.args[0]
        if isinstance(it, ast.Call) and isinstance(it.func, ast.Attribute) and it.func.attr in ("items", "keys", "values") and not it.args:
            it = it.func.value
        if not isinstance(it, (ast.Name, ast.Attribute)):
            continue        # a copy / a call / a slice: not the container itself
        key = ast.unparse(it)

        def scan(body: List[ast.stmt]) -> None:
            for i, st in enumerate(body):
                nxt = body[i + 1] if i + 1 < len(body) else None
                leaves = isinstance(nxt, (ast.Break, ast.Return)) or isinstance(st, (ast.Break, ast.Return))
                hit = None
                for n in ([st] if not isinstance(st, (ast.If, ast.For, ast.While, ast.With, ast.Try)) else []):
                    for x in ast.walk(n):
                        if isinstance(x, ast.Call) and isinstance(x.func, ast.Attribute) and x.func.attr in grow and ast.unparse(x.func.value) == key:
                            hit = x
                        if isinstance(x, ast.Delete):
                            for t in x.targets:
                                if isinstance(t, ast.Subscript) and ast.unparse(t.value) == key:
                                    hit = x
                if hit is not None and not leaves:
                    out.append((hit.lineno, "%s changes %s while `for %s in %s` is running" % (ast.unparse(hit)[:50], key, ast.unparse(loop.target), key)))
                for fld in ("body", "orelse", "finalbody"):
                    sub = getattr(st, fld, None)
                    if isinstance(sub, list) and sub and isinstance(sub[0], ast.stmt) and not isinstance(st, (ast.For, ast.While, ast.FunctionDef)):
                        scan(sub)
                if isinstance(st, ast.Try):
                    for h in st.handlers:
                        scan(h.body)
        scan(loop.body)
    return out


def rule_one_shot_iterators(ck: Check, rule: str, files: Sequence[str]) -> None:
    """premise of every value-level rule: an expression the rules read as a sequence is not a half-consumed iterator"""
    gens = {fi.name for fi in ck.repo.all_functions()
            if any(isinstance(n, (ast.Yield, ast.YieldFrom)) for n in ast.walk(fi.node))}
    ctl = ast.parse("def f(xs):\n    g = (x for x in xs)\n    if xs:\n        print(list(g))\n    return sum(g)\n").body[0]
    if len(one_shot_reuse(ctl, set())) != 1:
        ck.unknown(rule, "positive control", "the one-shot iterator scan did not flag its control snippet")
        return
    n = bad = 0
    for fi in ck.repo.all_functions():
        if fi.module.path.replace(ck.repo.root + "/", "") not in files and not any(fi.module.path.endswith(f) for f in files):
            continue
        n += 1
        for nm, line, why in one_shot_reuse(fi.node, gens):
            bad += 1
            ck.violated(rule, "%s: the one-shot iterator `%s` is consumed once" % (short(fi.qualname), nm),
                        "%s — the second consumer gets nothing (a sum of 0, a loop that never runs, a check that never happens)" % why,
                        "%s:%d" % (fi.module.path, line))
    if not bad:
        ck.ok(rule, "no generator / zip / map / filter object is consumed twice", "%d functions of the property's files scanned" % n, "")
    ck.stats["one-shot scan functions"] = n
    # the other half of the premise: deferred code sees the values it was written against
    ctl2 = ast.parse("def f(xs, out):\n    rows = []\n    for x in xs:\n        rows.append((x, y) for y in x.ys)\n    out.executemany('q', chain.from_iterable(rows))\n").body[0]
    ctl2_ok = ast.parse("def f(xs, out):\n    for x in xs:\n        out.extend((x, y) for y in x.ys)\n").body[0]
    if len(late_binding(ctl2)) != 1 or late_binding(ctl2_ok):
        ck.unknown(rule, "positive control (late binding)", "the late-binding scan did not behave on its control snippets")
        return
    bad2 = 0
    for fi in ck.repo.all_functions():
        if fi.module.path.replace(ck.repo.root + "/", "") not in files and not any(fi.module.path.endswith(f) for f in files):
            continue
        src_fi = ck.repo.raw_function(fi) if hasattr(ck.repo, "raw_function") else fi.node
        for line, nm, text in late_binding(src_fi):
            bad2 += 1
            ck.violated(rule, "%s: deferred code sees `%s` as it was when the code was written down" % (short(fi.qualname), nm),
                        "`%s` is created inside a loop over `%s` but runs later: every copy then reads the LAST value of `%s` (rows filed under "
                        "the last key, checks run on the last element only)" % (text, nm, nm), "%s:%d" % (fi.module.path, line))
    if not bad2:
        ck.ok(rule, "no generator expression / lambda created in a loop outlives the iteration it reads", "", "")
    # third: a loop visits the elements its domain had - the domain is not resized underneath it
    ctl3 = ast.parse("def f(items, have):\n    for item in items:\n        if item in have:\n            items.remove(item)\n").body[0]
    ctl3_ok = ast.parse("def f(items, have):\n    for i, item in enumerate(items):\n        if item in have:\n            del items[i]\n            break\n").body[0]
    if len(mutated_while_iterated(ctl3)) != 1 or mutated_while_iterated(ctl3_ok):
        ck.unknown(rule, "positive control (resized while iterated)", "the scan did not behave on its control snippets")
        return
    bad3 = 0
    for fi in ck.repo.all_functions():
        if fi.module.path.replace(ck.repo.root + "/", "") not in files and not any(fi.module.path.endswith(f) for f in files):
            continue
        for line, text in mutated_while_iterated(ck.repo.raw_function(fi)):
            bad3 += 1
            ck.violated(rule, "%s: the loop's domain keeps its length while the loop runs" % short(fi.qualname),
                        "%s — the iteration then skips the element after each removal (or never ends)" % text, "%s:%d" % (fi.module.path, line))
    if not bad3:
        ck.ok(rule, "no loop resizes the container it iterates", "", "")


def rule_decorators_followed(ck: Check, rule: str, files: Sequence[str]) -> None:
    """premise of every rule that reads a function from its `def`: nothing wrapped around the function changes what it does. The
    repository's own decorators of the simple wrapper shape are expanded at load time (engine/deccanon.py); builtin ones are understood;
    `lru_cache` is accepted on a function of its arguments alone; anything else cannot be analysed."""
    from ..engine.deccanon import unfollowed_decorators, canon_decorators
    ctl = ast.parse("def deco(fn):\n    def w(self, *a, **k):\n        with self.lock:\n            return fn(self, *a, **k)\n    return w\n"
                    "class C:\n    @deco\n    def m(self, x):\n        return x\n")
    canon_decorators([ctl])
    m = ctl.body[1].body[0]       # type: ignore[attr-defined]
    if m.decorator_list or not isinstance(m.body[0], ast.With) or unfollowed_decorators(ast.parse("@foo\ndef f(): pass\n")) == []:
        ck.unknown(rule, "positive control", "the decorator expansion did not behave on its control snippet")
        return
    n = bad = 0
    mutable_globals: Dict[str, Set[str]] = {}
    for m_ in ck.repo.modules.values():
        rel = m_.path.replace(ck.repo.root + "/", "")
        if rel not in files and not any(m_.path.endswith(f) for f in files):
            continue
        muts = set()
        for st in m_.tree.body:
            if isinstance(st, (ast.Assign, ast.AnnAssign)) and st.value is not None and \
                    isinstance(st.value, (ast.Dict, ast.List, ast.Set, ast.ListComp, ast.DictComp, ast.SetComp)) or \
                    (isinstance(st, (ast.Assign, ast.AnnAssign)) and isinstance(st.value, ast.Call) and isinstance(st.value.func, ast.Name)
                     and st.value.func.id in ("dict", "list", "set", "defaultdict", "OrderedDict", "deque", "Counter")):
                tg = st.targets if isinstance(st, ast.Assign) else [st.target]
                for t in tg:
                    muts |= {x.id for x in ast.walk(t) if isinstance(x, ast.Name)}
        mutable_globals[m_.name] = muts
        for node in ast.walk(m_.tree):
            if not isinstance(node, (ast.FunctionDef, ast.AsyncFunctionDef, ast.ClassDef)):
                continue
            n += 1
        for name, dec, line in unfollowed_decorators(m_.tree):
            loc = "%s:%d" % (m_.path, line)
            if dec.split(".")[-1] in ("lru_cache", "cache"):
                fn = next((x for x in ast.walk(m_.tree) if isinstance(x, ast.FunctionDef) and x.name == name
                           and any(getattr(d, "lineno", -1) == line for d in x.decorator_list)), None)
                why = _not_memoisable(fn, muts) if fn is not None else "definition not found"
                if why is None:
                    continue
                bad += 1
                ck.violated(rule, "%s: memoised results are those a fresh call would give" % name,
                            "@%s on a function whose result does not depend on its arguments alone — %s: later calls get the answer "
                            "computed for an earlier state" % (dec, why), loc)
                continue
            bad += 1
            ck.unknown(rule, "%s: decorator @%s" % (name, dec),
                       "the decorator is neither a builtin one nor of the wrapper shape the analysis expands — what the decorated function "
                       "does cannot be read from its definition", loc)
    if not bad:
        ex = getattr(ck.repo, "decorators_expanded", {}) or {}
        ck.ok(rule, "every decorator in the property's files is understood",
              "%d definitions scanned%s" % (n, ("; expanded: " + ", ".join("%s (%s)" % kv for kv in sorted(ex.items()))) if ex else ""), "")
    ck.stats["definitions scanned for decorators"] = n


def _not_memoisable(fn: ast.FunctionDef, mutable_globals: Set[str]) -> Optional[str]:
    params = [a.arg for a in fn.args.args]
    if params and params[0] == "self":
        return "it is a method: the object's state is part of the answer but not of the cache key"
    if fn.args.vararg is None and not params and not fn.args.kwonlyargs:
        return "it takes no arguments: one answer for ever"
    local = set(params) | {a.arg for a in fn.args.kwonlyargs} | {n.id for n in ast.walk(fn) if isinstance(n, ast.Name) and isinstance(n.ctx, ast.Store)}
    for n in ast.walk(fn):
        if isinstance(n, (ast.Global, ast.Nonlocal)):
            return "it declares %s" % ", ".join(n.names)
        if isinstance(n, ast.Name) and isinstance(n.ctx, ast.Load) and n.id in mutable_globals and n.id not in local:
            return "it reads the mutable module-level `%s`" % n.id
        if isinstance(n, ast.Call) and isinstance(n.func, ast.Attribute) and n.func.attr in ("time", "now", "random", "randint", "urandom", "token_bytes"):
            return "it calls %s()" % n.func.attr
        if isinstance(n, ast.Call) and isinstance(n.func, ast.Name) and n.func.id in ("open", "input"):
            return "it calls %s()" % n.func.id
    # arguments that are mutable objects whose state the function reads: annotated as CoinState / Block ... are immutable here; lists /
    # dicts / the managers are not
    for a in fn.args.args + fn.args.kwonlyargs:
        ann = ast.unparse(a.annotation) if a.annotation is not None else ""
        if any(t in ann for t in ("List", "Dict", "Set[", "list", "dict", "Manager", "LocalPeer", "Wallet", "RemotePeer", "BinaryIO", "IO[")):
            return "the argument `%s: %s` is a mutable object" % (a.arg, ann)
    return None


def partial_on_empty(fn: ast.AST, with_choice: bool = False) -> List[Tuple[int, str]]:
    """max(xs) / min(xs) / next(it) without a default, where nothing on the way establishes that xs is non-empty: they raise on an empty
    argument. (line, text)"""
    parents: Dict[int, ast.AST] = {}
    for n in ast.walk(fn):
        for c in ast.iter_child_nodes(n):
            parents[id(c)] = n
    out = []
    for n in ast.walk(fn):
        if not (isinstance(n, ast.Call) and len(n.args) == 1 and not isinstance(n.args[0], ast.Starred)
                and ((isinstance(n.func, ast.Name) and n.func.id in ("max", "min", "next") and not any(k.arg == "default" for k in n.keywords))
                     or (with_choice and isinstance(n.func, ast.Attribute) and n.func.attr == "choice" and not n.keywords))):
            continue
        arg = n.args[0]
        name = arg.id if isinstance(arg, ast.Name) else None
        guarded = False
        if isinstance(arg, (ast.List, ast.Tuple, ast.Set)) and arg.elts:
            guarded = True          # a non-empty display
        cur: Optional[ast.AST] = n
        while cur is not None and cur is not fn and not guarded and name is not None:
            par = parents.get(id(cur))
            if isinstance(par, (ast.If, ast.IfExp, ast.While)):
                in_body = cur in par.body if isinstance(par.body, list) else cur is par.body
                t = par.test
                if in_body and any(isinstance(x, ast.Name) and x.id == name for x in ast.walk(t)) and not isinstance(t, ast.UnaryOp):
                    guarded = True
            if isinstance(par, ast.BoolOp) and isinstance(par.op, ast.And) and cur is not par.values[0]:
                if any(isinstance(x, ast.Name) and x.id == name for v in par.values[:par.values.index(cur)] for x in ast.walk(v)):
                    guarded = True
            cur = par
        if not guarded and name is not None:
            # an earlier `if not xs: return / raise / continue` in an enclosing block
            cur = n
            while cur is not None and cur is not fn and not guarded:
                par = parents.get(id(cur))
                for fld in ("body", "orelse", "finalbody"):
                    lst = getattr(par, fld, None)
                    if isinstance(lst, list) and cur in lst:
                        for st in lst[:lst.index(cur)]:
                            if isinstance(st, ast.If) and any(isinstance(x, ast.Name) and x.id == name for x in ast.walk(st.test)) \
                                    and st.body and isinstance(st.body[-1], (ast.Return, ast.Raise, ast.Continue, ast.Break)):
                                guarded = True
                cur = par
        if not guarded:
            out.append((n.lineno, ast.unparse(n)[:80]))
    return out


def rule_no_partial_builtins(ck: Check, rule: str, prefixes: Sequence[str], what: str) -> None:
    """accepting paths stay open (2): code that handles what honest peers send gets no operation that fails on an empty argument"""
    ctl = ast.parse("def f(xs):\n    ys = [x for x in xs if x]\n    return max(ys)\n").body[0]
    ctl_ok = ast.parse("def f(xs):\n    ys = [x for x in xs if x]\n    if not ys:\n        return 0\n    return max(ys)\n").body[0]
    if len(partial_on_empty(ctl)) != 1 or partial_on_empty(ctl_ok):
        ck.unknown(rule, "positive control", "the scan for max()/min()/next() of a possibly empty argument did not behave on its control snippets")
        return
    n = bad = 0
    for fi in ck.repo.all_functions():
        if not any(fi.qualname.startswith(p_) for p_ in prefixes):
            continue
        n += 1
        for line, text in partial_on_empty(fi.node):
            bad += 1
            ck.violated(rule, "%s: %s has a non-empty argument" % (short(fi.qualname), text),
                        "%s — it raises ValueError / StopIteration when the argument is empty, and nothing before it rules that out" % what,
                        "%s:%d" % (fi.module.path, line))
    if not bad:
        ck.ok(rule, "no max() / min() / next() of a possibly empty argument in %d functions" % n, what, "")


def worker_of(ck: Check, q: str) -> str:
    """`def f(a, b): [argument checks that raise]; return _f(a, b)` where _f is a function added after the rule tables were written
    (typically the recursive part, split off so that the checks run once): the rules about f's result are about _f."""
    s = ck.summ(q, 0)
    rets = s.returns()
    if len(rets) != 1 or rets[0].term[0] != "call" or rets[0].term[1][0] != "g":
        return q
    tgt = rets[0].term[1][1]
    fi = ck.repo.functions.get(tgt)
    if fi is None or tgt == q or (ck.walker.api is not None and tgt in ck.walker.api) or fi.module is not s.fi.module:
        return q
    if rets[0].term[2] != tuple(("v", p_) for p_ in s.fi.params) or rets[0].term[3] or fi.params != s.fi.params:
        return q
    if any(e.kind in ("store", "del") for e in s.events if not e.chain):
        return q
    ck.note("%s hands its arguments unchanged to %s, added later: analysed in its place" % (short(q), short(tgt)))
    return tgt


def is_counter_store(ev: Event) -> bool:
    """X = X + <number> for an attribute or module-level name X: a tally (what it counts is the rule's business, not its value)"""
    from ..engine.terms import lin_parts
    if ev.kind != "store" or ev.value is None or ev.term[0] not in ("a", "g"):
        return False
    atoms, _k = lin_parts(ev.value)
    return set(atoms) == {ev.term} and atoms[ev.term] == 1


def rule_effect_free(ck: Check, rule: str, qualnames: Sequence[str], what: str) -> None:
    for q in qualnames:
        reach: List[str] = []
        muts = collect_mutations(ck.walker, q, set(), reach)
        ck.analysed(*[r for r in reach if not r.startswith("new:")])
        construct = "%s and its %d reachable callees mutate nothing reachable from their arguments" % (short(q), max(len(set(reach)) - 1, 0))
        # (the exception object a handler caught was created by the failing validation itself: annotating it touches no prior state)
        bad = [m for m in muts if m.root[0] in ("v", "e", "g") and not _is_counter(m) and not (m.root[0] == "v" and str(m.root[1]).startswith("exc:"))]
        if not bad:
            ck.ok(rule, construct, what, ck.repo.func(q).loc)
        else:
            for m in bad[:5]:
                ck.violated(rule, "%s: %s" % (short(q), m.what), "%s — %s (in %s)" % (what, m.what, short(m.ev.func)), m.ev.loc)
        ck.stats.setdefault("reachable", {})[short(q)] = len(set(reach))


# --------------------------------------------------------------------------- R01.10 apply mirrors validate
def rule_uto_apply(ck: Check, rule: str) -> None:
    q = "skepticoin.balances.uto_apply_transaction"
    summ = ck.summ(q)
    sp = Spec(summ, ("U", "tx", "is_cb"))
    handle = sp.term("U.mutate()")
    # spent outputs are deleted for every input of a non-coinbase transaction
    sp_in = Spec(summ, ("U", "tx", "is_cb"), forall=[("i", "tx.inputs")])
    want = ("s", handle, sp_in.term("i.output_reference"))
    ncb = sp.term("not is_cb")
    dels = [e for e in summ.events if e.kind == "del" and e.term == want]
    construct = "uto_apply_transaction: del m[i.output_reference] ∀ i ∈ tx.inputs if not is_coinbase"
    ok = False
    why = "no deletion of the spent reference from the unspent map"
    for e in dels:
        rest = [c.term for c in residual(e, ())]
        if list(loop_doms(e)) != sp_in.loops:
            why = "deletion iterates %s" % "; ".join(show(d) for d in loop_doms(e))
        elif rest != [ncb]:
            why = "deletion happens under %s (expected: exactly when the transaction is not the reward)" % show(mk_and(rest))
        elif any(l[2] for l in e.loops):
            why = "loop can exit early"
        else:
            ok = True
            ck.ok(rule, construct, "spent outputs are removed (a missing one raises KeyError)", e.loc)
            break
    if not ok:
        ck.violated(rule, construct, "applying a transaction must remove every spent output — " + why, summ.fi.loc)
    # created outputs are added under OutputReference(tx.hash(), index)
    sp_out = Spec(summ, ("U", "tx", "is_cb"), forall=[("(k, o)", "enumerate(tx.outputs)")])
    keyt = sp_out.term("OutputReference(tx.hash(), k)")
    tgt = ("s", handle, keyt)
    val = sp_out.term("o")
    construct = "uto_apply_transaction: m[OutputReference(tx.hash(), k)] = o ∀ (k, o) ∈ enumerate(tx.outputs)"
    stores = [e for e in summ.events if e.kind == "store" and e.term == tgt and e.value == val]
    good = [e for e in stores if not residual(e, ()) and list(loop_doms(e)) == sp_out.loops and not any(l[2] for l in e.loops)]
    if good:
        ck.ok(rule, construct, "every created output is added under (transaction id, position)", good[0].loc)
    else:
        near = [e for e in summ.events if e.kind == "store"]
        ck.violated(rule, construct, "created outputs must be stored under (transaction id, position), unconditionally, for all outputs — found: %s"
                    % ("; ".join(e.describe() for e in near) or "no store"), summ.fi.loc)
    # the function returns the finished handle
    rets = summ.returns()
    construct = "uto_apply_transaction returns m.finish()"
    if len(rets) == 1 and rets[0].term == ("call", ("a", handle, "finish"), (), ()):
        ck.ok(rule, construct, "result is the mutated copy", rets[0].loc)
    else:
        ck.violated(rule, construct, "must return the finished mutation handle; returns %s" % "; ".join(show(r.term) for r in rets), summ.fi.loc)
    # block level: reward flag exactly for position 0
    qb = "skepticoin.balances.uto_apply_block"
    sb = ck.summ(qb, 0)
    spb = Spec(sb, ("U", "block"))
    calls = [e for e in sb.events if e.kind == "call" and q in e.targets]
    first = [e for e in calls if len(e.term[2]) == 3 and e.term[2][1] == spb.term("block.transactions[0]") and e.term[2][2] == C(True)
             and not residual(e, ()) and not e.loops]
    spl = Spec(sb, ("U", "block"), forall=[("t", "block.transactions[1:]")])
    rest = [e for e in calls if len(e.term[2]) == 3 and e.term[2][1] == spl.term("t") and e.term[2][2] == C(False)
            and not residual(e, ()) and list(loop_doms(e)) == spl.loops and not any(l[2] for l in e.loops)]
    construct = "uto_apply_block: apply(transactions[0], reward=True); apply(t, reward=False) ∀ t ∈ transactions[1:]"
    if first and rest and len(calls) == 2 and first[0].seq < rest[0].seq:
        ck.ok(rule, construct, "reward flag is set exactly for the first transaction", sb.fi.loc)
    else:
        ck.violated(rule, construct, "the block-level updater must treat exactly transaction 0 as the reward — calls found: %s" % (
            "; ".join(e.describe() for e in calls) or "none"), sb.fi.loc)
    rets = sb.returns()
    if not (len(rets) == 1 and rets[0].term[0] in ("lv", "call")):
        ck.violated(rule, "uto_apply_block returns the accumulated map", "returns %s" % "; ".join(show(r.term) for r in rets), sb.fi.loc)


# --------------------------------------------------------------------------- loop body normal form
def loop_updates(ck: Check, qualname: str, which: int = 0) -> Tuple[Optional[Term], Dict[str, Term], FuncInfo]:
    """For the `which`-th loop (source order) of a function: (normalised loop condition / domain, {name: normalised update term}).
    Loop-carried names appear as ('lv', name, 0), so renaming locals consistently does not matter only through the spec's own names:
    the caller compares against a spec written over the function's own carried names."""
    import ast as _ast
    from ..engine.terms import Norm, Scope
    fi = ck.repo.func(qualname)
    summ = ck.summ(qualname, 0)
    loops = [n for n in _ast.walk(fi.node) if isinstance(n, (_ast.While, _ast.For))]
    loops.sort(key=lambda n: (n.lineno, n.col_offset))
    if which >= len(loops):
        raise AnalysisError("%s has no loop #%d" % (qualname, which))
    lp = loops[which]
    from ..engine.walker import assigned_names
    carried = assigned_names(lp.body)
    scope = Scope(fi.module, fi)
    for p_ in fi.params:
        scope.env[p_] = ("v", p_)
    for n in carried:
        if not n.startswith("@"):
            scope.env[n] = ("lv", n, 0)
    norm = summ.norm
    saved = norm.on_call
    norm.on_call = None
    ups: Dict[str, Term] = {}
    try:
        head = norm.norm(lp.test, scope) if isinstance(lp, _ast.While) else norm.norm(lp.iter, scope)
        if isinstance(lp, _ast.For):
            norm.bind_target(lp.target, head, scope)
        for st in lp.body:
            if isinstance(st, _ast.Assign) and len(st.targets) == 1 and isinstance(st.targets[0], _ast.Name):
                v = norm.norm(st.value, scope)
                ups[st.targets[0].id] = v
                scope.env[st.targets[0].id] = v
            elif isinstance(st, _ast.AugAssign) and isinstance(st.target, _ast.Name):
                cur = scope.env.get(st.target.id, ("lv", st.target.id, 0))
                v = norm.mk_binop(st.op, cur, norm.norm(st.value, scope), scope)
                ups[st.target.id] = v
                scope.env[st.target.id] = v
    finally:
        norm.on_call = saved
    return head, ups, fi


# --------------------------------------------------------------------------- equality / hashing of value types
def rule_eq(ck: Check, rule: str, cls_q: str, attrs: Sequence[str], why: str) -> None:
    """`__eq__` compares exactly the given attributes (plus an isinstance test); a `__hash__`, if defined, depends only on self."""
    ci = ck.repo.cls(cls_q)
    eq = ci.methods.get("__eq__")
    construct = "%s.__eq__ compares %s" % (short(cls_q), list(attrs))
    if eq is None:
        ck.violated(rule, construct, "%s — __eq__ is gone: values are compared by identity" % why, ci.module.path)
        return
    s = ck.summ(eq.qualname, 0)
    sp = Spec(s, ("self", "other"))
    rets = s.returns()
    # `other` is usually annotated `object`/`Any`; give it the class type so that typed comparisons normalise identically
    s.norm.var_types.setdefault(sp.term("other"), ("C", cls_q))
    want = set()
    for a in attrs:
        want.add(sp.term("self.%s == other.%s" % (a, a)))
    alt = {s.norm.mk_cmp_s("==", sp.term("self." + a), sp.term("other." + a), None) for a in attrs}
    ok = len(rets) == 1
    got = set()
    if ok:
        for cj in conjuncts(rets[0].term):
            if (cj[0] == "cmp" and cj[1] == "==") or (cj[0] == "cmpz" and cj[1] == "=="):
                got.add(cj)
            elif cj[0] == "call" and cj[1] == ("g", "builtin:isinstance"):
                continue
            else:
                ok = False
    if ok and (got == want or got == alt or (len(got) == len(want) and got <= (want | alt))):
        ck.ok(rule, construct, why, s.fi.loc)
    else:
        ck.violated(rule, construct, "%s — __eq__ returns %s" % (why, "; ".join(show(r.term)[:160] for r in rets)), s.fi.loc)
    h = ci.methods.get("__hash__")
    if h is not None:
        sh = ck.summ(h.qualname, 0)
        from ..engine.terms import free_vars
        rs = sh.returns()
        fv = set()
        for r in rs:
            fv |= free_vars(r.term)
        construct = "%s.__hash__ is a function of the object alone" % short(cls_q)
        if rs and fv <= {sh.fi.params[0]} and not any(t[0] == "g" and ("random" in t[1] or "time" in t[1] or t[1] == "builtin:id") for r in rs
                                                      for t in __import__("verif.engine.terms", fromlist=["subterms"]).subterms(r.term)):
            ck.ok(rule, construct, "", sh.fi.loc)
        else:
            ck.violated(rule, construct, "hash depends on %s" % sorted(fv), sh.fi.loc)


def rule_ctor_identity(ck: Check, rule: str, cls_q: str, attrs: Sequence[str]) -> None:
    """the constructor stores each listed parameter under the attribute of the same name, unconditionally"""
    mi = ck.repo.find_method(cls_q, "__init__")
    if mi is None:
        raise AnalysisError("%s has no __init__" % cls_q)
    s = ck.summ(mi.qualname, 0)
    for a in attrs:
        st = [e for e in s.events if e.kind == "store" and e.term == ("a", ("v", mi.params[0]), a)]
        construct = "%s.__init__: self.%s = %s" % (short(cls_q), a, a)
        if len(st) == 1 and st[0].value == ("v", a) and not [c for c in st[0].pc if c.prov not in ("raise-surv",)]:
            ck.ok(rule, construct, "", st[0].loc)
        else:
            ck.violated(rule, construct, "the parameter is not stored under its own name (stored: %s)" % [show(e.value)[:60] for e in st], s.fi.loc)
