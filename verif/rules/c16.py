"""C16 — Monetary schedule matches the documented parameters (decided for every height by an era partition)."""
from __future__ import annotations

import ast
import os
import re
from decimal import Decimal
from typing import Any, Dict, List, Optional, Set, Tuple

from ..engine.match import Spec, require_guard
from ..engine.repo import AnalysisError, FuncInfo, func_body
from ..engine.report import Check
from .common import CONS

# oracle: the numbers in the property statement / docs
COIN = 100_000_000
SUBSIDY0 = 10 * COIN
INTERVAL = 1_050_000
MAX_SUPPLY = 2_099_999_986_350_000
H_MAX = 2 ** 32 - 1     # largest height CoinbaseData can carry


def r16_1(ck: Check) -> None:
    for name, want, what in (("SASHIMI_PER_COIN", COIN, "sashimi per coin"), ("INITIAL_SUBSIDY", SUBSIDY0, "initial subsidy = 10 coin"),
                             ("SUBSIDY_HALVING_INTERVAL", INTERVAL, "halving interval"), ("MAX_SASHIMI", MAX_SUPPLY, "maximum supply")):
        v = ck.repo.const("skepticoin.params." + name)
        construct = "params.%s == %s" % (name, format(want, ","))
        if v == want and isinstance(v, int) and not isinstance(v, bool):
            ck.ok("R16.1", construct, what, ck.repo.module("skepticoin.params").path)
        else:
            ck.violated("R16.1", construct, "%s folds to %r, the documented value is %s" % (name, v, format(want, ",")),
                        ck.repo.module("skepticoin.params").path)


def r16_2(ck: Check) -> None:
    path = os.path.join(ck.repo.root, "docs", "params.md")
    if not os.path.isfile(path):
        raise AnalysisError("docs/params.md not found")
    text = open(path, encoding="utf-8").read()
    pats = [
        ("subsidy", r"\*\s*([0-9][0-9,\.]*)\s+coin subsidy", Decimal(ck.repo.const("skepticoin.params.INITIAL_SUBSIDY")) / Decimal(ck.repo.const("skepticoin.params.SASHIMI_PER_COIN"))),
        ("halving interval", r"\*\s*([0-9][0-9,]*)\s+block halving interval", Decimal(ck.repo.const("skepticoin.params.SUBSIDY_HALVING_INTERVAL"))),
        ("maximum", r"\*\s*([0-9][0-9,\.]*)\s+maximum total amount", Decimal(ck.repo.const("skepticoin.params.MAX_SASHIMI")) / Decimal(ck.repo.const("skepticoin.params.SASHIMI_PER_COIN"))),
    ]
    for what, pat, code_val in pats:
        m = re.search(pat, text)
        if not m:
            ck.unknown("R16.2", "docs/params.md: %s" % what, "the documentation bullet for the %s could not be parsed" % what, path)
            continue
        doc_val = Decimal(m.group(1).replace(",", ""))
        construct = "docs/params.md %s = %s" % (what, m.group(1))
        if doc_val == code_val:
            ck.ok("R16.2", construct, "documentation agrees with the folded constant", path)
        else:
            ck.violated("R16.2", construct, "documentation says %s, params.py folds to %s" % (doc_val, code_val), path)


class _Raised(Exception):
    pass


def _callee(ck: Check, fi: FuncInfo, call: ast.Call) -> Optional[FuncInfo]:
    if isinstance(call.func, ast.Name):
        return ck.repo.functions.get("%s.%s" % (fi.module.name, call.func.id))
    return None


class _Ret(Exception):
    def __init__(self, v: Any):
        self.v = v


def eval_body(ck: Check, fi: FuncInfo, stmts: List[ast.stmt], env: Dict[str, Any]) -> None:
    for st in stmts:
        if isinstance(st, ast.Return):
            raise _Ret(ck.repo.fold(st.value, fi.module, fi, env) if st.value is not None else None)
        elif isinstance(st, ast.Assign) and len(st.targets) == 1 and isinstance(st.targets[0], ast.Name):
            env[st.targets[0].id] = ck.repo.fold(st.value, fi.module, fi, env)
        elif isinstance(st, ast.AnnAssign) and isinstance(st.target, ast.Name) and st.value is not None:
            env[st.target.id] = ck.repo.fold(st.value, fi.module, fi, env)
        elif isinstance(st, ast.If):
            if ck.repo.fold(st.test, fi.module, fi, env):
                eval_body(ck, fi, st.body, env)
            else:
                eval_body(ck, fi, st.orelse, env)
        elif isinstance(st, ast.Expr) and isinstance(st.value, ast.Constant):
            continue
        elif isinstance(st, ast.Pass):
            continue
        elif isinstance(st, ast.Raise):
            raise _Raised(ast.unparse(st)[:100])
        elif isinstance(st, ast.Assert):
            if not ck.repo.fold(st.test, fi.module, fi, env):
                raise _Raised(ast.unparse(st)[:100])
        elif isinstance(st, ast.Expr) and isinstance(st.value, ast.Call) and _callee(ck, fi, st.value) is not None:
            # a helper called for its checks: run its body on the argument values
            cf = _callee(ck, fi, st.value)
            args = [ck.repo.fold(a, fi.module, fi, env) for a in st.value.args]        # type: ignore[union-attr]
            if st.value.keywords or len(args) != len(cf.params):                        # type: ignore[union-attr]
                raise AnalysisError("call of %s with keywords / defaults is outside the evaluated sublanguage" % cf.name)
            try:
                eval_body(ck, cf, func_body(cf), dict(zip(cf.params, args)))
            except _Ret:
                pass
        else:
            raise AnalysisError("get_block_subsidy uses a statement outside the evaluated sublanguage: %s" % type(st).__name__)


def cut_constants(ck: Check, fi: FuncInfo, seen: Optional[Set[str]] = None) -> Tuple[Set[int], Set[int], Set[Tuple[int, int]]]:
    """every positive constant something is floor-divided by, every constant something is compared with, every (C, k) of `x % C <op> k`,
    in the function and the same-module functions it calls: the heights where its value can change are among their multiples /
    neighbours (more cuts than needed are harmless; each cell is probed at both ends and in the middle)."""
    seen = seen if seen is not None else set()
    divisors: Set[int] = set()
    cmps: Set[int] = set()
    mods: Set[Tuple[int, int]] = set()
    if fi.qualname in seen:
        return divisors, cmps, mods
    seen.add(fi.qualname)

    def const(n: ast.AST) -> Any:
        try:
            return ck.repo.fold(n, fi.module, fi, {})
        except AnalysisError:
            return None
    for n in ast.walk(fi.node):
        if isinstance(n, ast.BinOp) and isinstance(n.op, (ast.FloorDiv, ast.Div)):
            c = const(n.right)
            if isinstance(c, int) and not isinstance(c, bool) and c > 0:
                divisors.add(c)
        elif isinstance(n, ast.BinOp) and isinstance(n.op, ast.RShift):
            c = const(n.right)
            if isinstance(c, int) and 0 < c < 64:
                divisors.add(1 << c)
        elif isinstance(n, ast.Compare):
            parts = [n.left] + list(n.comparators)
            for a, b in zip(parts, parts[1:]):
                for x, other in ((a, b), (b, a)):
                    c = const(x)
                    if isinstance(c, int) and not isinstance(c, bool):
                        if isinstance(other, ast.BinOp) and isinstance(other.op, ast.Mod):
                            m_ = const(other.right)
                            if isinstance(m_, int) and m_ > 0:
                                mods.add((m_, c))
                                continue
                        cmps.add(c)
        elif isinstance(n, ast.Call):
            cf = _callee(ck, fi, n)
            if cf is not None:
                d2, c2, m2 = cut_constants(ck, cf, seen)
                divisors |= d2
                cmps |= c2
                mods |= m2
    return divisors, cmps, mods


def height_uses(ck: Check, fi: FuncInfo, pname: str) -> Tuple[Set[int], Set[int], Set[Tuple[int, int]]]:
    """divisors C of `height // C`, constants c of `height <op> c`, and (C, k) of `height % C <op> k`;
    anything else is outside the fragment."""
    divisors: Set[int] = set()
    cmps: Set[int] = set()
    mods: Set[Tuple[int, int]] = set()
    parents: Dict[int, ast.AST] = {}
    for n in ast.walk(fi.node):
        for ch in ast.iter_child_nodes(n):
            parents[id(ch)] = n
    # names that are mere copies of the parameter are not supported: direct uses only
    for n in ast.walk(fi.node):
        if isinstance(n, ast.Name) and n.id == pname and isinstance(n.ctx, ast.Load):
            p = parents.get(id(n))
            if isinstance(p, ast.BinOp) and isinstance(p.op, ast.FloorDiv) and p.left is n:
                c = ck.repo.fold(p.right, fi.module, fi, {})
                if not (isinstance(c, int) and c > 0):
                    raise AnalysisError("height // %r: divisor is not a positive integer constant" % (c,))
                divisors.add(c)
            elif isinstance(p, ast.BinOp) and isinstance(p.op, ast.Mod) and p.left is n:
                c = ck.repo.fold(p.right, fi.module, fi, {})
                pp = parents.get(id(p))
                if not (isinstance(c, int) and c > 0 and isinstance(pp, ast.Compare) and len(pp.ops) == 1
                        and (pp.left is p or pp.comparators[0] is p)):
                    raise AnalysisError("`height %% C` is used outside a comparison with a constant")
                other = pp.comparators[0] if pp.left is p else pp.left
                k_ = ck.repo.fold(other, fi.module, fi, {})
                if not isinstance(k_, int):
                    raise AnalysisError("height %% C compared with a non-integer")
                mods.add((c, k_))
            elif isinstance(p, ast.Compare) and len(p.ops) == 1 and (p.left is n or p.comparators[0] is n):
                other = p.comparators[0] if p.left is n else p.left
                c = ck.repo.fold(other, fi.module, fi, {})
                if not isinstance(c, int):
                    raise AnalysisError("height compared with a non-integer")
                cmps.add(c)
            elif isinstance(p, ast.Call) and n in p.args and not p.keywords and _callee(ck, fi, p) is not None:
                cf = _callee(ck, fi, p)
                d2, c2, m2 = height_uses(ck, cf, cf.params[p.args.index(n)])       # type: ignore[union-attr]
                divisors |= d2
                cmps |= c2
                mods |= m2
            else:
                raise AnalysisError("get_block_subsidy uses `height` outside `height // C` / `height <op> C` (%s); the era partition "
                                    "cannot be derived" % ast.unparse(p) if p is not None else "?")
        elif isinstance(n, ast.Name) and n.id == pname and isinstance(n.ctx, ast.Store):
            raise AnalysisError("get_block_subsidy reassigns its height parameter")
    return divisors, cmps, mods


def r16_34(ck: Check) -> None:
    fi = ck.repo.func(CONS + "get_block_subsidy")
    ck.analysed(fi.qualname)
    if len(fi.params) != 1:
        raise AnalysisError("get_block_subsidy should take exactly one parameter")
    pname = fi.params[0]
    stateful = [n for n in ast.walk(fi.node) if isinstance(n, (ast.Global, ast.Nonlocal))]
    construct = "get_block_subsidy is a function of the height alone (no state kept between calls)"
    if stateful:
        ck.violated("R16.4", construct, "it declares `%s %s`: what it returns for a height depends on the heights it was asked about before "
                    "(a reorganisation or out-of-order validation across a halving gets another era's subsidy)"
                    % ("global" if isinstance(stateful[0], ast.Global) else "nonlocal", ", ".join(stateful[0].names)),
                    "%s:%d" % (fi.module.path, stateful[0].lineno))
        return
    ck.ok("R16.4", construct, "", fi.loc)
    divisors, cmps, mods = cut_constants(ck, fi)
    if not divisors and not cmps and not mods:
        raise AnalysisError("get_block_subsidy contains no division, remainder or comparison with a constant: no height partition")
    cuts: Set[int] = {0, H_MAX + 1}
    for d in divisors:
        if (H_MAX // d) > 2_000_000:
            continue        # (a small divisor that is not about eras; the probes inside each cell below would show a dependence)
        cuts.update(range(0, H_MAX + 1, d))
    for (c, k_) in mods:
        if (H_MAX // c) > 1_000_000:
            continue
        for r in {0, k_ % c, (k_ + 1) % c}:
            cuts.update(range(r, H_MAX + 1, c))
    for c in cmps:
        for x in (c, c + 1):
            if 0 <= x <= H_MAX:
                cuts.add(x)
    bounds = sorted(cuts)
    cells = [(bounds[i], bounds[i + 1]) for i in range(len(bounds) - 1)]
    values: List[int] = []
    from ..engine.repo import FoldRaised
    for lo, hi in cells:
        probes = sorted({lo, (lo + hi) // 2, hi - 1})
        got = []
        for h in probes:
            try:
                done, v = ck.repo.eval_statements(fi, func_body(fi), {pname: h})
            except FoldRaised as r2:
                ck.violated("R16.4", "get_block_subsidy is defined (and zero after exhaustion) for every encodable height 0..2^32-1",
                            "for height %d (cell [%d, %d)) it raises (%s): the schedule has no value there, and assembling or validating a block "
                            "at such a height fails instead of yielding a subsidy of 0" % (h, lo, hi, str(r2)[:100]), fi.loc)
                return
            if not done:
                ck.violated("R16.4", "get_block_subsidy is defined (and zero after exhaustion) for every encodable height 0..2^32-1",
                            "for height %d (cell [%d, %d)) no return statement is reached: the function yields None, and the reward check "
                            "`outputs > fees + subsidy` fails with a TypeError instead of comparing with 0" % (h, lo, hi), fi.loc)
                return
            got.append(v)
        v = got[0]
        if not isinstance(v, int) or isinstance(v, bool):
            ck.violated("R16.4", "get_block_subsidy is integer-valued", "returns %r for heights [%d, %d)" % (v, lo, hi), fi.loc)
            return
        if any(x != v for x in got):
            raise AnalysisError("get_block_subsidy is not constant on the cell [%d, %d) of the derived partition (values %s at %s)" % (lo, hi, got, probes))
        values.append(v)
    ck.stats["era_cells"] = len(cells)
    where = fi.loc
    # value on every cell equals floor halving of 10 coin
    bad = None
    for (lo, hi), v in zip(cells, values):
        k_lo, k_hi = lo // INTERVAL, (hi - 1) // INTERVAL
        want = SUBSIDY0 // (2 ** k_lo) if k_lo < 4096 else 0
        if k_lo != k_hi or v != want:
            bad = (lo, hi, v, want)
            break
    construct = "subsidy(h) == 10 coin // 2**(h // 1,050,000) on every cell of the height partition"
    if bad is None:
        ck.ok("R16.4", construct, "%d cells cover heights 0..2^32-1; the function is constant on each" % len(cells), where)
    else:
        ck.violated("R16.4", construct, "for heights [%d, %d) the subsidy is %d, the schedule prescribes %d" % bad, where)
    # monotone, zero tail
    mono = all(values[i] >= values[i + 1] for i in range(len(values) - 1))
    construct = "subsidy never increases with height"
    if mono:
        ck.ok("R16.4", construct, "", where)
    else:
        i = next(i for i in range(len(values) - 1) if values[i] < values[i + 1])
        ck.violated("R16.4", construct, "subsidy rises from %d to %d at height %d" % (values[i], values[i + 1], cells[i + 1][0]), where)
    first_zero = next((i for i, v in enumerate(values) if v == 0), None)
    construct = "subsidy is zero from the point where halving exhausts it"
    if first_zero is not None and all(v == 0 for v in values[first_zero:]) and cells[first_zero][0] == 30 * INTERVAL:
        ck.ok("R16.4", construct, "zero from height %d on (30 halvings), including beyond 64 halvings" % cells[first_zero][0], where)
    else:
        ck.violated("R16.4", construct, "first zero cell: %r (the schedule reaches zero at height 31,500,000)" % (
            (cells[first_zero],) if first_zero is not None else (None,)), where)
    total = sum((hi - lo) * v for (lo, hi), v in zip(cells, values))
    construct = "sum over all heights of subsidy == 2,099,999,986,350,000 == MAX_SASHIMI"
    mx = ck.repo.const("skepticoin.params.MAX_SASHIMI")
    if total == MAX_SUPPLY == mx:
        ck.ok("R16.4", construct, "Σ width × value over %d cells" % len(cells), where)
    else:
        ck.violated("R16.4", construct, "the schedule sums to %s; documented maximum %s; params.MAX_SASHIMI %s" % (
            format(total, ","), format(MAX_SUPPLY, ","), format(mx, ",") if isinstance(mx, int) else mx), where)
    ck.stats["evaluations_per_cell"] = len(cells)


def r16_5(ck: Check) -> None:
    from .c12 import exact_guard
    fi0 = ck.repo.func(CONS + "validate_sashimi_range")
    a0 = fi0.node.args      # type: ignore[attr-defined]
    if a0.vararg is not None and not a0.args:
        # the validator takes all amounts at once: decided by evaluating it (constant evaluator, explicit sublanguage) on the corner
        # tuples - every amount must be in (0, max], whatever the others are
        from ..engine.repo import FoldRaised
        body = func_body(fi0)
        mx = MAX_SUPPLY
        cases = [((1,), False), ((mx,), False), ((0,), True), ((mx + 1,), True), ((1, mx + 1), True), ((mx + 1, 1), True), ((1, 0, 1), True),
                 ((1, mx, 5), False), ((-1, 1), True)]
        construct = "validate_sashimi_range(*amounts): refuses exactly when some amount is outside (0, %s]" % format(mx, ",")
        for vals, want_raise in cases:
            try:
                ck.repo.eval_statements(fi0, body, {a0.vararg.arg: vals})
                raised = False
            except FoldRaised:
                raised = True
            if raised != want_raise:
                ck.violated("R16.5", construct, "for the amounts %s it %s — the limit is then not a limit on ANY amount (a transaction with one amount "
                            "in range carries the others through)" % (vals, "raises" if raised else "does not raise"), fi0.loc)
                return
        ck.ok("R16.5", construct, "%d corner tuples evaluated" % len(cases), fi0.loc)
        return
    s = ck.summ(CONS + "validate_sashimi_range", 0)
    require_guard(ck, "R16.5", s, Spec(s, ("v",)), "v > %d" % MAX_SUPPLY, "the validator's amount limit is the documented maximum supply")
    exact_guard(ck, "R16.5", s, Spec(s, ("v",)), "v <= 0 or v > %d" % MAX_SUPPLY,
                "the limit is inclusive: exactly the maximum supply (and every amount in (0, max]) is a valid amount")


def r16_schedule(ck: Check) -> None:
    r16_1(ck)
    r16_34(ck)


def check(ck: Check) -> None:
    ck.explanations.append(
        "C16: constant folding of params.py, comparison with docs/params.md, and an abstract evaluation of get_block_subsidy over the finite "
        "partition of [0, 2^32-1] induced by how the function uses `height` (only `height // C` and comparisons), so every height is covered "
        "without enumeration; the evaluator is the checker's own, over an explicit integer sublanguage.")
    ck.run("R16.1", "constants fold to the documented values", lambda: r16_1(ck))
    ck.run("R16.2", "docs/params.md agrees with the folded constants", lambda: r16_2(ck))
    ck.run("R16.4", "era partition and per-cell abstract evaluation", lambda: r16_34(ck))
    ck.run("R16.5", "the same constant bounds the validator", lambda: r16_5(ck))
