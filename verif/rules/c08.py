"""C08 — Persistence fidelity: the block store returns what was written."""
from __future__ import annotations

import ast
from typing import Any, Dict, List, Optional, Tuple

from ..engine.effects import typed_writes
from ..engine.match import Spec, loop_doms, require_return, residual
from ..engine.repo import AnalysisError
from ..engine.report import Check
from ..engine.sql import Schema, _tokens
from ..engine.terms import C, Term, mk_and, show
from ..engine.walker import Event, Summary
from .c07 import DT, SG, extractor
from .common import short

BS = "skepticoin.blockstore."
STORE = BS + "BlockStore."

_SCHEMA: Dict[int, Schema] = {}


# sort keys that order (position, value) pairs of a dict's items() by position: lambda i: i[0], operator.itemgetter(0), or the default
# tuple order (positions are dict keys, hence distinct, so the values are never compared)
POSITION_KEYS = (("lam", 1, ("s", ("v", "λ0"), C(0))), ("call", ("g", "ext:operator.itemgetter"), (C(0),), ()), None)


def schema(ck: Check) -> Schema:
    k = id(ck.repo)
    if k not in _SCHEMA:
        _SCHEMA.clear()
        _SCHEMA[k] = Schema(ck.repo.module("skepticoin.blockstore"), ck.repo)
    return _SCHEMA[k]


def select_cols(text: str) -> Optional[Tuple[str, List[str]]]:
    toks = _tokens(text)
    low = [t.lower() for t in toks]
    if not low or low[0] != "select" or "from" not in low:
        return None
    f = low.index("from")
    return toks[f + 1], [x for x in toks[1:f] if x != ","]


def row_col(t: Term) -> Optional[Tuple[str, str]]:
    """('s', ('e', self.sql(<select text>), 'elem'), i)  ->  (table, column)"""
    if t[0] == "e" and len(t) == 3 and isinstance(t[2], int) and not isinstance(t[2], bool):
        t = ("s", ("e", t[1], "elem"), C(t[2]))         # the unpacked form of row[i]
    if t[0] == "s" and t[1][0] == "e" and t[2][0] == "c" and isinstance(t[2][1], int):
        it = t[1][1]
        if it[0] == "call" and it[2] and it[2][0][0] == "c" and isinstance(it[2][0][1], str):
            sc = select_cols(it[2][0][1])
            if sc and 0 <= t[2][1] < len(sc[1]):
                return sc[0], sc[1][t[2][1]]
    return None


def unwrap(t: Term, fn: str) -> Tuple[Term, bool]:
    if t[0] == "call" and t[1] == ("g", fn) and len(t[2]) == 1:
        return t[2][0], True
    return t, False


def rel_path(t: Term, root: Term) -> Optional[str]:
    parts: List[str] = []
    while t != root:
        if t[0] == "a":
            parts.append(t[2])
            t = t[1]
        else:
            return None
    return ".".join(reversed(parts))


def ctor_leaves(ck: Check, t: Term, path: str, out: Dict[str, Term]) -> None:
    ex = extractor(ck)
    if t[0] == "call" and t[1][0] == "g" and t[1][1] in ex.codecs and ex.codecs[t[1][1]].ctor:
        c = ex.codecs[t[1][1]]
        for i, a in enumerate(t[2]):
            if i < len(c.ctor_params):
                attr = c.ctor.get(c.ctor_params[i], c.ctor_params[i])
                ctor_leaves(ck, a, (path + "." if path else "") + attr, out)
        for k_, a in t[3]:
            attr = c.ctor.get(k_, k_)
            ctor_leaves(ck, a, (path + "." if path else "") + attr, out)
        return
    out[path] = t


class Writer:
    def __init__(self, ck: Check):
        self.summ: Summary = ck.summ(STORE + "write_blocks_to_disk", 0)
        self.rows: Dict[str, Tuple[Tuple[Term, ...], Event]] = {}
        self.row_doms: Dict[str, List[Term]] = {}
        self.execs: List[Event] = []
        self.filtered: Dict[str, Tuple[str, str]] = {}     # table -> (condition under which a row is written, location)
        self.reordered: Dict[str, Tuple[str, str]] = {}    # table -> (what changed the finished row list, location)
        self.empty: Dict[str, str] = {}                    # table -> location of an INSERT whose row list is never filled
        s = self.summ
        appends: Dict[Term, List[Event]] = {}
        for e in s.events:
            if e.kind == "call" and e.parts and e.parts[0][0] == "a" and e.parts[0][2] == "append" and e.parts[0][1][0] == "new":
                appends.setdefault(e.parts[0][1], []).append(e)
            if e.kind == "call" and e.parts and e.parts[0][0] == "a" and e.parts[0][2] in ("execute", "executemany", "executescript"):
                self.execs.append(e)
        sch = schema(ck)
        for e in self.execs:
            if e.parts[0][2] != "executemany" or len(e.term[2]) != 2 or e.term[2][0][0] != "c":
                continue
            text = e.term[2][0][1]
            ins = [i for i in sch.inserts if sch.text_of.get(id(i.node)) == text]
            if not ins:
                continue
            lst = e.term[2][1]
            while lst[0] == "call" and lst[1][0] == "g" and (lst[1][1] == "builtin:sorted" or lst[1][1].startswith("builtin:changed_by_")) and lst[2]:
                self.reordered[ins[0].table] = (lst[1][1].split(":")[-1].replace("changed_by_", "."), e.loc)
                lst = lst[2][0]
            if lst[0] == "comp" and lst[1] == "list" and lst[2][0] == "tuple":
                # rows built by a loop of appends (normalised) or written as a comprehension
                self.rows[ins[0].table] = (lst[2][1], e)
                self.row_doms[ins[0].table] = [g[0] for g in lst[3]]
                if any(g[1] for g in lst[3]):
                    self.filtered[ins[0].table] = (show(mk_and([c for g in lst[3] for c in g[1]]))[:160], e.loc)
                continue
            aps = appends.get(lst, [])
            if not aps and lst[0] == "new":
                # the list handed to the INSERT is never filled: nothing is written to this table
                self.empty[ins[0].table] = e.loc
                continue
            if len(aps) != 1 or aps[0].term[2][0][0] != "tuple":
                raise AnalysisError("rows for table %s are not built by a single append of a tuple" % ins[0].table)
            self.rows[ins[0].table] = (aps[0].term[2][0][1], aps[0])
            self.row_doms[ins[0].table] = list(loop_doms(aps[0]))
            if residual(aps[0], ()):
                self.filtered[ins[0].table] = (show(mk_and([c.term for c in residual(aps[0], ())]))[:160], aps[0].loc)


def col_index(ck: Check, table: str, col: str) -> int:
    sch = schema(ck)
    ins = [i for i in sch.inserts if i.table == table]
    cols = ins[0].columns if ins and ins[0].columns else sch.tables[table].columns
    return cols.index(col)


def r08_1(ck: Check) -> None:
    sch = schema(ck)
    if sch.unparsed:
        ck.unknown("R08.1", "SQL", "statements outside the tokenizer's fragment: %s" % sch.unparsed)
    w = Writer(ck)
    # arity
    for ins in sch.inserts:
        t = sch.tables.get(ins.table)
        construct = "INSERT into %s supplies %d values for its %d columns" % (ins.table, ins.arity, len(t.columns) if t else -1)
        where = "%s:%d" % (sch.module.path, ins.line)
        ncols = len(ins.columns) if ins.columns else (len(t.columns) if t else -1)
        rows = w.rows.get(ins.table)
        if t is not None and ins.arity == ncols and rows is not None and len(rows[0]) == ncols:
            ck.ok("R08.1", construct, "", where)
        else:
            ck.violated("R08.1", construct, "placeholders %d, columns %d, tuple elements %s" % (ins.arity, ncols, len(rows[0]) if rows else None), where)
    ck.expect_count("R08.1", "INSERT statements", len(sch.inserts), 4)
    for table, where in sorted(w.empty.items()):
        ck.violated("R08.1", "%s: a row is written for every element of the batch" % table,
                    "the list handed to the INSERT is created and never filled: nothing of the batch reaches this table, and what is read back "
                    "lacks it", where)
    for table, (cond, where) in sorted(w.filtered.items()):
        ck.violated("R08.1", "%s: a row is written for every element of the batch" % table,
                    "rows are written only when %s — whatever the batch holds must come back on reload: a block left out here is never stored "
                    "(the buffer is cleared after the flush) and its descendants fail the foreign key" % cond, where)
    blocks = ("v", w.summ.fi.params[1])
    b = ("e", blocks, "elem")
    tx = ("e", ("a", b, "transactions"), "elem")
    inp = ("e", ("a", tx, "inputs"), "elem")
    outp = ("e", ("a", tx, "outputs"), "elem")
    sp = Spec(w.summ, ("self", "blocks"))
    txid = sp.term("sha256d(t.serialize())") if False else ("call", ("g", "skepticoin.hash.sha256d"), (("call", ("a", tx, "serialize"), (), ()),), ())
    bid = ("call", ("a", b, "hash"), (), ())

    # ---- chain table vs the yielded Block(...)
    rs = ck.summ(STORE + "read_blocks_from_disk", 0)
    ys = [e for e in rs.events if e.kind == "yield"]
    if len(ys) != 1:
        raise AnalysisError("read_blocks_from_disk: expected one yield, found %d" % len(ys))
    leaves: Dict[str, Term] = {}
    ctor_leaves(ck, ys[0].term, "", leaves)
    chain_row, chain_ev = w.rows["chain"]
    want_leaves = ["header.summary.height", "header.summary.previous_block_hash", "header.summary.merkle_root_hash", "header.summary.timestamp",
                   "header.summary.target", "header.summary.nonce", "header.pow_evidence.summary_hash", "header.pow_evidence.chain_sample",
                   "header.pow_evidence.block_hash"]
    n = 0
    for path in want_leaves + ["cached_hash"]:
        construct = "chain: Block.%s is read back from the column it was written to" % path
        where = ys[0].loc
        if path not in leaves:
            ck.violated("R08.1", construct, "the reader does not reconstruct this field", where)
            continue
        val, zeroified = unwrap(leaves[path], BS + "zeroify_nulls")
        rc = row_col(val)
        if rc is None or rc[0] != "chain":
            ck.violated("R08.1", construct, "the value passed is %s, not a column of the chain SELECT" % show(leaves[path])[:80], where)
            continue
        try:
            wi = col_index(ck, "chain", rc[1])
        except ValueError:
            ck.violated("R08.1", construct, "column %s does not exist in table chain" % rc[1], where)
            continue
        wt, nullified = unwrap(chain_row[wi], BS + "nullify_zeros")
        wpath = "cached_hash" if wt == bid else rel_path(wt, b)
        n += 1
        if wpath != path:
            ck.violated("R08.1", construct, "read from column chain.%s, into which the writer puts Block.%s" % (rc[1], wpath), where)
        elif nullified != zeroified:
            ck.violated("R08.2", "chain.%s: nullify_zeros on write <-> zeroify_nulls on read" % rc[1],
                        "the NULL<->zero transform is applied on one side only (write %s, read %s)" % (nullified, zeroified), where)
        else:
            ck.ok("R08.1", construct, "column chain.%s%s" % (rc[1], " (NULL<->32 zero bytes on both sides)" if nullified else ""), where)
    ck.expect_count("R08.1", "chain leaves", n, 10)

    # ---- inputs / outputs
    for (table, fn, elem, coll, fields) in (
            ("transaction_inputs", "load_inputs", inp, "inputs",
             {"output_reference.hash": ("a", ("a", inp, "output_reference"), "hash"),
              "output_reference.index": ("a", ("a", inp, "output_reference"), "index"),
              "signature": ("a", inp, "signature")}),
            ("transaction_outputs", "load_outputs", outp, "outputs",
             {"value": ("a", outp, "value"), "public_key": ("a", outp, "public_key")})):
        if table not in w.rows:
            continue          # (reported above: the row list of this table is never filled)
        row, ev = w.rows[table]
        ls = ck.summ(STORE + fn, 0)
        stores = [e for e in ls.events if e.kind == "store"]
        where = ls.fi.loc
        if len(stores) != 1:
            ck.violated("R08.1", "%s: one store per row" % fn, "found %d stores" % len(stores), where)
            continue
        st = stores[0]
        # target: builders[row.tx][coll][row.seq]
        tgt = st.term
        okt = tgt[0] == "s" and tgt[1][0] == "a" and tgt[1][2] == coll and tgt[1][1][0] == "s"
        kseq = row_col(tgt[2]) if okt else None
        ktx = row_col(tgt[1][1][2]) if okt else None
        construct = "%s: row goes to builders[transaction_hash].%s[seq]" % (table, coll)
        if okt and kseq == (table, "seq") and ktx == (table, "transaction_hash") \
                and row[col_index(ck, table, "transaction_hash")] == txid \
                and row[col_index(ck, table, "seq")] == ("e", ("a", tx, coll), "idx") \
                and w.row_doms[table] == [blocks, ("a", b, "transactions"), ("a", tx, coll)]:
            ck.ok("R08.1", construct, "written with the canonical transaction id and the enumerate() position; read back under the same two columns", st.loc)
        else:
            ck.violated("R08.1", construct, "keys on read: %s / %s; written id %s, position %s" % (
                ktx, kseq, show(row[0])[:50], show(row[1])[:50]), st.loc)
        lv: Dict[str, Term] = {}
        ctor_leaves(ck, st.value, "", lv)  # type: ignore
        for path, wexpr in fields.items():
            construct = "%s: %s is read back from the column it was written to" % (table, path)
            if path not in lv:
                ck.violated("R08.1", construct, "field not reconstructed", st.loc)
                continue
            rv = lv[path]
            transform = ""
            # optional `X.deserialize(col) if col else None`
            if rv[0] == "ife" and rv[3] == C(None):
                rv = rv[2]
            if rv[0] == "call" and rv[1][0] == "a" and rv[1][2] == "deserialize" and len(rv[2]) == 1:
                transform = "deserialize:" + show(rv[1][1])
                rv = rv[2][0]
            rv, zer = unwrap(rv, BS + "zeroify_nulls")
            rc = row_col(rv)
            if rc is None or rc[0] != table:
                ck.violated("R08.1", construct, "value is %s" % show(lv[path])[:80], st.loc)
                continue
            we = row[col_index(ck, table, rc[1])]
            if we[0] == "ife" and we[3] == C(None):
                we = we[2]
            wtransform = ""
            if we[0] == "call" and we[1][0] == "a" and we[1][2] == "serialize" and not we[2]:
                wtransform = "serialize"
                we = we[1][1]
            we, nul = unwrap(we, BS + "nullify_zeros")
            if we != wexpr:
                ck.violated("R08.1", construct, "read from column %s, into which the writer puts %s" % (rc[1], show(we)[:80]), st.loc)
            elif nul != zer:
                ck.violated("R08.2", "%s.%s: nullify_zeros on write <-> zeroify_nulls on read" % (table, rc[1]),
                            "transform applied on one side only", st.loc)
            elif bool(transform) != bool(wtransform):
                ck.violated("R08.1", construct, "serialize()/deserialize() applied on one side only", st.loc)
            elif transform and not transform.endswith({"signature": "Signature", "public_key": "PublicKey"}[path]):
                ck.violated("R08.1", construct, "decoded with %s" % transform, st.loc)
            else:
                ck.ok("R08.1", construct, "column %s.%s%s" % (table, rc[1], " via serialize()/deserialize()" if transform else ""), st.loc)

    # ---- list order: positions sorted by seq on read
    t = ys[0].term
    txs = t[2][1] if t[0] == "call" and len(t[2]) >= 2 else None
    construct = "read_blocks_from_disk: inputs and outputs are re-assembled sorted by their stored position"
    ok = False
    detail = "transaction list is not a comprehension over the block's builders"
    if txs is not None and txs[0] == "comp" and txs[2][0] == "call" and txs[2][1] == ("g", DT + "Transaction") and len(txs[2][2]) == 3:
        a_in, a_out, a_id = txs[2][2]
        dom = txs[3][0][0]
        good = True
        for coll, a in (("inputs", a_in), ("outputs", a_out)):
            if not (a[0] == "comp" and len(a[3]) == 1):
                good = False
                detail = "%s are not rebuilt by a comprehension" % coll
                break
            it = a[3][0][0]
            d_ = ("a", ("e", dom, 1), coll)
            # the same order written over the keys: [d[k] for k in sorted(d)]
            by_keys = (it[0] == "call" and it[1] == ("g", "builtin:sorted") and len(it[2]) == 1 and not it[3]
                       and it[2][0] in (d_, ("call", ("a", d_, "keys"), (), ())) and a[2] == ("s", d_, ("e", it, "elem")) and not a[3][0][1])
            if not by_keys and not (it[0] == "call" and it[1] == ("g", "builtin:sorted") and len(it[2]) == 1
                                    and it[2][0] == ("call", ("a", ("a", ("e", dom, 1), coll), "items"), (), ())
                                    and dict(it[3]).get("key") in POSITION_KEYS and a[2] == ("e", it, 1)):
                good = False
                detail = "%s are not taken from sorted(builder.%s.items(), key=position) values" % (coll, coll)
                break
        if good and a_id != ("e", dom, 0):
            good = False
            detail = "the id passed to Transaction(...) is not the builder's key"
        ok = good
        if good:
            # dom = block_builders[row.block_hash]
            rc = row_col(dom[2]) if dom[0] == "s" else None
            if rc != ("chain", "block_hash"):
                ok = False
                detail = "the block's transactions are not looked up by chain.block_hash"
    if ok:
        ck.ok("R08.1", construct, "", ys[0].loc)
    else:
        ck.violated("R08.1", construct, detail, ys[0].loc)


def r08_2(ck: Check) -> None:
    s = ck.summ(BS + "nullify_zeros", 0)
    require_return(ck, "R08.2", s, Spec(s, ("v",)), "v if v != b'\\x00' * 32 else None", "32 zero bytes are stored as NULL")
    s = ck.summ(BS + "zeroify_nulls", 0)
    require_return(ck, "R08.2", s, Spec(s, ("v",)), "v if v else b'\\x00' * 32", "NULL is read back as 32 zero bytes (inverse on 32-byte values)")


def r08_3(ck: Check) -> None:
    w = Writer(ck)
    blocks = ("v", w.summ.fi.params[1])
    b = ("e", blocks, "elem")
    tx = ("e", ("a", b, "transactions"), "elem")
    txid = ("call", ("g", "skepticoin.hash.sha256d"), (("call", ("a", tx, "serialize"), (), ()),), ())
    bid = ("call", ("a", b, "hash"), (), ())
    row, ev = w.rows["transaction_locator"]
    construct = "transaction_locator rows = (sha256d(transaction.serialize()), block.hash()) for every transaction of every block"
    if row == (txid, bid) and w.row_doms["transaction_locator"] == [blocks, ("a", b, "transactions")]:
        ck.ok("R08.3", construct, "the stored transaction id is the canonical id", ev.loc)
    else:
        ck.violated("R08.3", construct, "row is %s" % show(("tuple", row))[:120], ev.loc)
    crow, cev = w.rows["chain"]
    construct = "chain.block_hash = block.hash()"
    if crow[col_index(ck, "chain", "block_hash")] == bid and w.row_doms["chain"] == [blocks]:
        ck.ok("R08.3", construct, "", cev.loc)
    else:
        ck.violated("R08.3", construct, "chain key is %s" % show(crow[0])[:80], cev.loc)
    s = ck.summ(STORE + "load_transaction_builders", 0)
    rets = s.returns()
    construct = "load_transaction_builders: {locator.transaction_hash: TransactionBuilder(locator.block_hash)}"
    ok = False
    if len(rets) == 1 and rets[0].term[0] == "comp" and rets[0].term[1] == "dict":
        k_, v = rets[0].term[2][1]
        if row_col(k_) == ("transaction_locator", "transaction_hash") and v[0] == "call" and v[1] == ("g", BS + "TransactionBuilder") \
                and len(v[2]) == 1 and row_col(v[2][0]) == ("transaction_locator", "block_hash"):
            ok = True
    if ok:
        ck.ok("R08.3", construct, "", s.fi.loc)
    else:
        ck.violated("R08.3", construct, "returns %s" % "; ".join(show(r.term)[:100] for r in rets), s.fi.loc)


def r08_4(ck: Check) -> None:
    sch = schema(ck)
    # the SELECT the reader iterates to rebuild blocks (count / max helpers over the same table are not it)
    sel = [s for s in sch.selects if s.table == "chain" and len(s.columns) >= 5]
    construct = "chain SELECT is ordered by height ascending (parents before children)"
    if len(sel) == 1 and sel[0].order_by and sel[0].order_by[0] == ("height", "ASC"):
        ck.ok("R08.4", construct, "", "%s:%d" % (sch.module.path, sel[0].line))
    else:
        ck.violated("R08.4", construct, "ORDER BY is %s" % (sel[0].order_by if sel else None), sch.module.path)
    # every stored block is read back: the reader yields for every row of the chain table - the only rows it may pass over are those
    # no transaction was found for (a block always carries its reward transaction, so that test selects nothing that was written whole)
    rs = ck.summ(STORE + "read_blocks_from_disk", 0)
    ys = [e for e in rs.events if e.kind == "yield"]
    construct = "read_blocks_from_disk yields a block for every chain row that has transactions, whatever they look like"
    if len(ys) == 1:
        conds = residual(ys[0], ())
        extra = [c for c in conds if not (c.term[0] == "cmp" and c.term[1] == "in" and row_col(c.term[2]) == ("chain", "block_hash"))]
        early = any(l[2] for l in ys[0].loops)
        if extra or early or len(conds) > 1:
            from ..engine.terms import show as _show
            ck.violated("R08.4", construct, "a stored block is passed over on reload %s — its descendants then arrive without their parent and the "
                        "restarted node ends on a lower head" % ("when not (%s)" % _show(extra[0].term)[:160] if extra else "(the row loop can end early)"),
                        ys[0].loc)
        else:
            ck.ok("R08.4", construct, "", ys[0].loc)
    else:
        ck.violated("R08.4", construct, "%d yields" % len(ys), rs.fi.loc)
    # ... and is put together from all three row sources: the collectors created from the locator rows are filled with the input rows and
    # the output rows before the first block is handed out
    if len(ys) == 1:
        tb = [e for e in rs.events if e.kind == "call" and STORE + "load_transaction_builders" in e.targets and not e.chain]
        for name in ("load_inputs", "load_outputs"):
            construct = "read_blocks_from_disk fills the transaction collectors through %s before it yields" % name
            calls = [e for e in rs.events if e.kind == "call" and STORE + name in e.targets and not e.chain]
            okc = [e for e in calls if not residual(e, ()) and not e.loops and e.seq < ys[0].seq and len(tb) == 1 and e.term[2] == (tb[0].term,)]
            if okc:
                ck.ok("R08.4", construct, "", okc[0].loc)
            else:
                ck.violated("R08.4", construct, "%s — every stored transaction then comes back without its %s (another content under the stored id)" % (
                    "no call" if not calls else "the call is conditional, late or made on other collectors: %s" % calls[0].describe()[:120],
                    name.split("_")[1]), rs.fi.loc)
    q = "skepticoin.scripts.utils.read_chain_from_disk"
    s = ck.summ(q, 0)
    it = ("call", ("a", ("a", ("g", BS + "DefaultBlockStore"), "instance"), "read_blocks_from_disk"), (), ())
    adds = [e for e in s.events if e.kind == "call" and "skepticoin.coinstate.CoinState.add_block_no_validation" in e.targets]
    empty = [e for e in s.events if e.kind == "call" and "skepticoin.coinstate.CoinState.empty" in e.targets and not e.loops]
    rets = s.returns()
    construct = "read_chain_from_disk folds add_block_no_validation over the stored blocks, in order, from the empty state"
    if len(adds) == 1 and list(loop_doms(adds[0])) == [it] and adds[0].term[2] == (("e", it, "elem"),) and empty and len(rets) == 1 \
            and not any(l[2] for l in adds[0].loops) and not residual(adds[0], ()):
        ck.ok("R08.4", construct, "", adds[0].loc)
    else:
        ck.violated("R08.4", construct, "reload loop changed: %s" % "; ".join(e.describe() for e in adds), s.fi.loc)


def r08_5(ck: Check) -> None:
    w = Writer(ck)
    # what runs in an exception handler is not part of the batch: there only a ROLLBACK may be issued
    in_handler = [e for e in w.execs if any(c.prov == "handler" for c in e.pc)]
    ex = [e for e in w.execs if e not in in_handler]
    for e in in_handler:
        txt = e.term[2][0][1].strip().lower() if e.term[2] and e.term[2][0][0] == "c" else "?"
        if not txt.startswith("rollback"):
            ck.violated("R08.5", "write_blocks_to_disk: a failure handler issues nothing but ROLLBACK", "it executes %r" % txt[:60], e.loc)
    # what runs in a `finally` also runs when a statement of the batch failed: a COMMIT there makes half a batch durable
    for e in ex:
        txt = e.term[2][0][1].strip().lower() if e.term[2] and e.term[2][0][0] == "c" else "?"
        if e.finally_of and not txt.startswith("rollback") and any(x is not e and ti in x.tries for x in ex for ti in e.finally_of):
            ck.violated("R08.5", "write_blocks_to_disk: nothing is committed after a statement of the batch failed",
                        "%r sits in a `finally:` — it also runs when an insert raised, and the rows inserted up to that point (blocks without "
                        "their transactions, transactions without their inputs) become permanent" % txt[:40], e.loc)
    construct = "write_blocks_to_disk: BEGIN; all INSERTs; COMMIT on one cursor, once"
    texts = [(e.parts[0][2], e.term[2][0][1].strip().lower() if e.term[2] and e.term[2][0][0] == "c" else "?") for e in ex]
    curs = {e.parts[0][1] for e in ex}
    begins = [i for i, t in enumerate(texts) if t[1].startswith("begin")]
    commits = [i for i, t in enumerate(texts) if t[1].startswith("commit")]
    inserts = [i for i, t in enumerate(texts) if t[0] == "executemany"]
    # an empty batch may be skipped altogether; any other condition on a statement splits or drops a batch
    nonempty = {Spec(w.summ, ("self", "blocks")).term("len(blocks) != 0")}
    # a failure of any statement must reach the caller (which clears the buffer only after a normal return)
    quiet = [e for e in ex for ti in e.tries for _types, reraises in ti.handlers if not reraises]
    good = (len(begins) == 1 and len(commits) == 1 and len(curs) == 1 and inserts and begins[0] < min(inserts) and max(inserts) < commits[0]
            and all({c.term for c in residual(e, ())} <= nonempty and not e.loops for e in ex) and len(inserts) == 4 and not quiet
            and len({tuple(c.term for c in residual(e, ())) for e in ex}) == 1)
    if good:
        ck.ok("R08.5", construct, "%d inserts between BEGIN and COMMIT" % len(inserts), w.summ.fi.loc)
    else:
        ck.violated("R08.5", construct, "statement sequence: %s" % [t[1][:30] for t in texts], w.summ.fi.loc)
    # rows are inserted parents-first with respect to the foreign keys (foreign_keys = ON, immediate checking)
    sch = schema(ck)
    order: Dict[str, int] = {}
    for i, e in enumerate(ex):
        if e.parts[0][2] == "executemany" and e.term[2] and e.term[2][0][0] == "c":
            for ins in sch.inserts:
                if sch.text_of.get(id(ins.node)) == e.term[2][0][1]:
                    order.setdefault(ins.table, i)
    for t in sch.tables.values():
        for cols, rt, rcols in t.fks:
            if rt == t.name or t.name not in order or rt not in order:
                continue
            construct = "write_blocks_to_disk: rows of %s are inserted before the rows of %s that reference them" % (rt, t.name)
            if order[rt] < order[t.name]:
                ck.ok("R08.5", construct, "", w.summ.fi.loc)
            else:
                ck.violated("R08.5", construct, "with foreign keys enforced, a batch in which a %s row references a %s row of the same batch "
                            "fails with an IntegrityError, nothing of the batch is stored and later flushes fail too" % (t.name, rt), w.summ.fi.loc)
    s = ck.summ(STORE + "flush_blocks_to_disk", 0)
    lock = ("a", ("v", s.fi.params[0]), "lock")
    buf = ("a", ("v", s.fi.params[0]), "write_buffer")
    wr = [e for e in s.events if e.kind == "call" and STORE + "write_blocks_to_disk" in e.targets]
    cl = [e for e in s.events if e.kind == "call" and e.parts and e.parts[0] == ("a", buf, "clear")]
    construct = "flush_blocks_to_disk: under the lock, write the buffer, then clear it (cleared only after the write returned)"
    if len(wr) == 1 and len(cl) == 1 and wr[0].term[2] == (buf,) and lock in wr[0].withs and lock in cl[0].withs and wr[0].seq < cl[0].seq \
            and [c.term for c in wr[0].pc] == [c.term for c in cl[0].pc]:
        ck.ok("R08.5", construct, "", s.fi.loc)
    else:
        ck.violated("R08.5", construct, "flush sequence changed: %s" % "; ".join(e.describe() for e in wr + cl), s.fi.loc)
    s = ck.summ(STORE + "add_block_to_buffer", 0)
    lock = ("a", ("v", s.fi.params[0]), "lock")
    buf = ("a", ("v", s.fi.params[0]), "write_buffer")
    ap = [e for e in s.events if e.kind == "call" and e.parts and e.parts[0] == ("a", buf, "append")]
    construct = "add_block_to_buffer appends the block under the same lock"
    if len(ap) == 1 and lock in ap[0].withs and ap[0].term[2] == (("v", s.fi.params[1]),) and not residual(ap[0], ()):
        ck.ok("R08.5", construct, "", s.fi.loc)
    else:
        ck.violated("R08.5", construct, "%s" % "; ".join(e.describe() for e in ap), s.fi.loc)


def r08_6(ck: Check) -> None:
    """a table whose rows say 'X belongs to block B' (it has a column referencing chain.block_hash besides its own id) must either key on
    both ids or not silently drop / replace conflicting rows: the same transaction may be part of two competing blocks."""
    sch = schema(ck)
    n = 0
    for t in sch.tables.values():
        if t.name == "chain":
            continue
        member_cols = [cols[0] for cols, rt, rcols in t.fks if rt == "chain" and len(cols) == 1]
        if not member_cols:
            continue
        n += 1
        ins = [i for i in sch.inserts if i.table == t.name]
        conflict = ins[0].conflict if ins else None
        construct = "%s pk=(%s) conflict=%s" % (t.name, ",".join(t.pk), conflict)
        where = "%s:%d" % (sch.module.path, t.line)
        if all(mc in t.pk for mc in member_cols):
            ck.ok("R08.6", construct, "membership rows are keyed by both ids", where)
        elif conflict in ("IGNORE", "REPLACE"):
            ck.violated("R08.6", construct,
                        "a row states 'transaction T is in block B' but the key is T alone and conflicts are resolved by %s: when two competing "
                        "blocks contain the same transaction, the second membership is silently %s — after reload that block lacks the "
                        "transaction" % (conflict, "dropped" if conflict == "IGNORE" else "moved"), where)
        else:
            ck.ok("R08.6", construct, "a conflicting second membership raises instead of being dropped", where)
    ck.expect_count("R08.6", "membership tables", n, 1)
    # every uniqueness constraint of a table written with OR IGNORE / OR REPLACE must contain the content id of the object the row
    # belongs to; otherwise two DIFFERENT rows (e.g. two fork transactions spending the same output) collide and one is silently lost
    w = Writer(ck)
    blocks = ("v", w.summ.fi.params[1])
    b = ("e", blocks, "elem")
    tx = ("e", ("a", b, "transactions"), "elem")
    txid = ("call", ("g", "skepticoin.hash.sha256d"), (("call", ("a", tx, "serialize"), (), ()),), ())
    bid = ("call", ("a", b, "hash"), (), ())
    for t in sch.tables.values():
        ins = [i for i in sch.inserts if i.table == t.name]
        if not ins or ins[0].conflict not in ("IGNORE", "REPLACE") or t.name not in w.rows:
            continue
        row = w.rows[t.name][0]
        cols = ins[0].columns or t.columns
        id_cols = {c for c, e in zip(cols, row) if e in (txid, bid)}
        keys = [("primary key", t.pk)] + [("unique", u) for u in t.uniques] + [("unique index", u) for (tn, u, _l) in sch.unique_indexes if tn == t.name]
        for kind, key in keys:
            if not key:
                continue
            construct = "%s %s(%s) identifies the row's content under INSERT OR %s" % (t.name, kind, ",".join(key), ins[0].conflict)
            where = "%s:%d" % (sch.module.path, t.line)
            if set(key) & id_cols:
                ck.ok("R08.6", construct, "contains the content id column(s) %s" % sorted(set(key) & id_cols), where)
            else:
                ck.violated("R08.6", construct, "the key contains no content id: two different rows (for instance from two competing blocks) can "
                            "collide on it and INSERT OR %s silently drops or replaces one" % ins[0].conflict, where)
    lt = [s for s in sch.selects if s.table == "transaction_locator"]
    if lt and not lt[0].order_by:
        ck.assume("A1: transaction_locator is read without ORDER BY; the order of transactions inside a block and the itertools.groupby grouping "
                  "rely on SQLite returning rows in insertion order (static analysis sees the missing ORDER BY, it cannot decide the scan order)")


def r08_8(ck: Check) -> None:
    """scan order = insertion order only holds for rowid tables: a table that is read without ORDER BY must not be WITHOUT ROWID
    (its rows would come back in primary-key order, e.g. a block's transactions sorted by id instead of by position)"""
    sch = schema(ck)
    n = 0
    for sel in sch.selects:
        if sel.order_by:
            continue
        t = sch.tables.get(sel.table)
        if t is None:
            continue
        n += 1
        construct = "%s is read without ORDER BY, so it is a rowid table (rows come back in insertion order)" % t.name
        where = "%s:%d" % (sch.module.path, t.line)
        if t.without_rowid:
            ck.violated("R08.8", construct, "the table is declared WITHOUT ROWID: a scan returns rows in primary-key order, so what is rebuilt from "
                        "the scan order (the order of a block's transactions, the grouping by block) differs from what was written", where)
        else:
            ck.ok("R08.8", construct, "", where)
    ck.expect_count("R08.8", "unordered SELECTs", n, 3)
    # ... and insertion order is the order of the batch: the row lists handed to executemany are filled by append only
    w = Writer(ck)
    from ..engine.walker import MUTATORS
    m = 0
    for e in w.execs:
        if e.parts[0][2] != "executemany" or len(e.term[2]) < 2:
            continue
        m += 1
        rows = e.term[2][1]
        construct = "write_blocks_to_disk: rows for %r go in in the order they were collected (blocks in batch order, transactions in block order)" % (
            e.term[2][0][1].split(" values")[0][-40:] if e.term[2][0][0] == "c" else "?")
        if rows[0] != "new" and not (rows[0] == "comp" and rows[1] == "list"):
            ck.violated("R08.8", construct, "the rows are passed as %s, not as the list the loop filled: the tables are read back in rowid "
                        "order without ORDER BY, so a block's transactions come back permuted or split" % show(rows)[:80], e.loc)
            continue
        other = [x for x in w.summ.events if x.kind == "call" and x.parts and x.parts[0][0] == "a" and x.parts[0][1] == rows
                 and x.parts[0][2] in MUTATORS and x.parts[0][2] != "append"]
        if other:
            ck.violated("R08.8", construct, "the row list is also changed by .%s(): the tables are read back in rowid order without ORDER BY, so a "
                        "block's transactions come back permuted or split" % other[0].parts[0][2], other[0].loc)
        else:
            ck.ok("R08.8", construct, "", e.loc)
    ck.expect_count("R08.8", "bulk inserts", m, 4)


def r08_9(ck: Check) -> None:
    """everything an object's encoder writes from its attributes is given back to the constructor where the block store re-creates the
    object: an encoded attribute that is neither stored nor passed is silently reset to its default on reload (and the id changes)"""
    from .c07 import extractor
    ex = extractor(ck)
    sites = 0
    for fn in (STORE + "read_blocks_from_disk", STORE + "load_inputs", STORE + "load_outputs"):
        s = ck.summ(fn, 0)
        for e in s.events:
            if e.kind != "call":
                continue
            for t in e.targets:
                if not t.startswith("new:") or t[4:] not in ex.codecs:
                    continue
                c = ex.codecs[t[4:]]
                if c.writer is None or e.term[0] != "call":
                    continue
                sites += 1
                npos = len(e.term[2])
                given = set(c.ctor_params[:npos]) | {k for k, _ in e.term[3] if isinstance(k, str)}
                attrs = {c.ctor.get(p_, p_) for p_ in given}
                need = {p_[-1] for p_ in c.writer if p_[0] not in ("const", "ignored") and isinstance(p_[-1], str)}
                missing = sorted(need - attrs)
                construct = "%s: %s(...) is re-created with every attribute its encoder writes" % (short(fn), t.split(".")[-1])
                if missing:
                    ck.violated("R08.9", construct, "encoded attribute(s) %s are not passed: a reloaded object differs from the stored one" % missing, e.loc)
                else:
                    ck.ok("R08.9", construct, "%s" % sorted(need), e.loc)
    ck.expect_count("R08.9", "re-creation sites of encoded classes", sites, 8)


def r08_7(ck: Check, rule: str = "R08.7") -> None:
    """the per-transaction row collectors are per-instance containers: a class-level mutable default would be shared by all builders"""
    tw = typed_writes(ck.walker, ck.repo)
    owners = {}
    for w in tw:
        if w.func.startswith(STORE) and w.kind in ("item-store", "item-del") or (w.func.startswith(STORE) and w.kind.startswith("call:")):
            if w.owner.startswith(BS) and w.owner != BS + "BlockStore":
                owners.setdefault((w.owner, w.attr), w)
    n = 0
    for (owner, attr), w in sorted(owners.items()):
        n += 1
        ci = ck.repo.cls(owner)
        init = ci.methods.get("__init__")
        fresh = False
        if init is not None:
            s = ck.summ(init.qualname, 0)
            for e in s.events:
                if e.kind == "store" and e.term == ("a", ("v", init.params[0]), attr) and e.value is not None and e.value[0] in ("new", "dict", "list", "set") \
                        and not e.loops:
                    fresh = True
        construct = "%s.%s is a fresh container per instance (filled by %s)" % (short(owner), attr, short(w.func).split(".")[-1])
        if fresh:
            ck.ok(rule, construct, "", ci.module.path)
        else:
            shared = attr in ci.class_attrs
            ck.violated(rule, construct, "the container is %s, so rows of different transactions overwrite each other and every transaction read "
                        "back carries the same inputs/outputs under its own stored id" % ("a class-level attribute shared by all instances" if shared
                                                                                          else "not created in __init__"), ci.module.path)
    ck.expect_count(rule, "row-collector containers", n, 2)


def check(ck: Check) -> None:
    ck.explanations.append(
        "C08: the writer's row tuples, the DDL and the reader's reconstruction are extracted (event summaries + SQL reader) and compared "
        "column by column for every leaf field of a block; ids stored are the canonical ids; blocks come back ordered by height; one SQL "
        "transaction per flush; the schema's key structure is checked against the multiplicity of the domain (forks sharing a transaction).")
    ck.run("R08.1", "column mirror", lambda: r08_1(ck))
    ck.run("R08.2", "NULL <-> zero transforms are inverse and paired", lambda: r08_2(ck))
    ck.run("R08.3", "ids", lambda: r08_3(ck))
    ck.run("R08.4", "parents first; reload by re-adding from the empty state", lambda: r08_4(ck))
    ck.run("R08.5", "one SQL transaction per flush; buffer handling under the lock", lambda: r08_5(ck))
    ck.run("R08.6", "key multiplicity vs domain multiplicity", lambda: r08_6(ck))
    ck.run("R08.7", "row collectors are per-instance", lambda: r08_7(ck))
    ck.run("R08.8", "unordered reads rely on rowid (insertion) order", lambda: r08_8(ck))
    ck.run("R08.9", "reload re-creates every encoded attribute", lambda: r08_9(ck))
    from .c07 import r07_1_2, r07_5
    ck.run("R07.1", "codec mirror of consensus classes (signature/public-key blobs round-trip)", lambda: r07_1_2(ck, True, "R07.1"))
    ck.assume("SQLite semantics (primary keys, OR IGNORE, ORDER BY) as documented")
