"""Load-time scalar replacement of small private helper objects.

    acc = _Total()                         _acc_total = 0
    for v in xs:                 ->        for v in xs:
        acc.add(v)                             _acc_total = _acc_total + v
    acc.validate()                         if _acc_total > MAX: raise ...

A local name that is bound once to `_K(args)` - _K a class of the same package whose name starts with an underscore, without base
classes other than `object`, whose members are plain methods, static methods, properties and field declarations - and that is used only
as `name.field`, `name.method(..)` or `name.property` never leaves the function: its fields are local variables and its methods are
code of the function. The rewrite expands exactly that (methods whose body ends in a single `return <expr>`, or has no return at all,
or is a chain of `if c: return a` ... `return b`); anything else - the object passed on, returned, captured by a closure, a method with
returns in the middle of loops - leaves the function untouched, and the summariser sees an opaque object as before."""
from __future__ import annotations

import ast
import copy
from typing import Any, Dict, List, Optional, Set, Tuple

MAX_ROUNDS = 6


def _dotted(n: ast.AST) -> Optional[str]:
    parts = []
    while isinstance(n, ast.Attribute):
        parts.append(n.attr)
        n = n.value
    if isinstance(n, ast.Name):
        parts.append(n.id)
        return ".".join(reversed(parts))
    return None


def _body(fn: ast.FunctionDef) -> List[ast.stmt]:
    b = list(fn.body)
    if b and isinstance(b[0], ast.Expr) and isinstance(b[0].value, ast.Constant) and isinstance(b[0].value.value, str):
        b = b[1:]
    return b


def _own(node: ast.AST):
    stack = list(ast.iter_child_nodes(node))
    while stack:
        n = stack.pop()
        yield n
        if isinstance(n, (ast.FunctionDef, ast.AsyncFunctionDef, ast.Lambda, ast.ClassDef)):
            continue
        stack.extend(ast.iter_child_nodes(n))


class KInfo:
    def __init__(self, node: ast.ClassDef):
        self.node = node
        self.name = node.name
        self.methods: Dict[str, ast.FunctionDef] = {}
        self.static: Set[str] = set()
        self.props: Set[str] = set()
        self.fields: Set[str] = set()
        self.ok = True
        if any(not (isinstance(b, ast.Name) and b.id == "object") for b in node.bases) or node.keywords:
            self.ok = False
        for st in node.body:
            if isinstance(st, ast.FunctionDef):
                decs = [(_dotted(d.func) if isinstance(d, ast.Call) else _dotted(d)) or "?" for d in st.decorator_list]
                if "staticmethod" in decs:
                    self.static.add(st.name)
                elif "property" in decs:
                    self.props.add(st.name)
                elif "classmethod" in decs:
                    self.static.add(st.name)          # never expanded; calls go to the class as before
                elif decs:
                    self.ok = False
                if st.name.startswith("__") and st.name not in ("__init__", "__post_init__", "__repr__", "__str__"):
                    self.ok = False
                self.methods[st.name] = st
                if st.name not in self.static:
                    for n in ast.walk(st):
                        if isinstance(n, ast.Attribute) and isinstance(n.value, ast.Name) and n.value.id == "self" and isinstance(n.ctx, ast.Store):
                            self.fields.add(n.attr)
            elif isinstance(st, ast.AnnAssign) and isinstance(st.target, ast.Name):
                self.fields.add(st.target.id)
            elif isinstance(st, ast.Assign) and len(st.targets) == 1 and isinstance(st.targets[0], ast.Name) and st.targets[0].id == "__slots__":
                pass
            elif isinstance(st, ast.Expr) and isinstance(st.value, ast.Constant):
                pass
            elif isinstance(st, ast.Pass):
                pass
            else:
                self.ok = False
        for m in self.methods.values():
            if any(isinstance(n, (ast.Yield, ast.YieldFrom, ast.Global, ast.Nonlocal)) for n in _own(m)) and m.name not in self.static:
                self.ok = False


class _Bail(Exception):
    pass


class _Self(ast.NodeTransformer):
    """method body -> caller's terms: self.f -> <var>.f (expanded further by the next round), parameters -> arguments, locals -> fresh names"""

    def __init__(self, var: str, ren: Dict[str, Any], k: KInfo):
        self.var, self.ren, self.k = var, ren, k

    def visit_Name(self, node: ast.Name) -> ast.AST:
        if node.id == "self":
            return ast.copy_location(ast.Name(id=self.var, ctx=node.ctx), node)
        r = self.ren.get(node.id)
        if r is None:
            return node
        if isinstance(r, str):
            return ast.copy_location(ast.Name(id=r, ctx=node.ctx), node)
        if isinstance(node.ctx, ast.Load):
            return ast.copy_location(copy.deepcopy(r), node)
        raise _Bail()

    def visit_Attribute(self, node: ast.Attribute) -> ast.AST:
        # self.static_method -> K.static_method
        if isinstance(node.value, ast.Name) and node.value.id == "self" and node.attr in self.k.static:
            return ast.copy_location(ast.Attribute(value=ast.Name(id=self.k.name, ctx=ast.Load()), attr=node.attr, ctx=node.ctx), node)
        self.generic_visit(node)
        return node

    def visit_FunctionDef(self, node: ast.FunctionDef) -> ast.AST:
        raise _Bail()

    def visit_Lambda(self, node: ast.Lambda) -> ast.AST:
        if any(isinstance(n, ast.Name) and n.id == "self" for n in ast.walk(node)):
            raise _Bail()
        return node


def _simple(n: ast.AST) -> bool:
    if isinstance(n, (ast.Name, ast.Constant)):
        return True
    if isinstance(n, ast.Attribute):
        return _simple(n.value)
    return False


def _single_value(body: List[ast.stmt]) -> Optional[Tuple[List[ast.stmt], ast.AST]]:
    """(prelude, value) of a method body"""
    if not body:
        return [], ast.Constant(value=None)
    rets = [n for st in body for n in ([st] if isinstance(st, ast.Return) else []) + [x for x in _own(st) if isinstance(x, ast.Return)]]
    if not rets:
        return list(body), ast.Constant(value=None)
    if len(rets) == 1 and rets[0] is body[-1]:
        return list(body[:-1]), (rets[0].value if rets[0].value is not None else ast.Constant(value=None))
    # if c: return a / [elif ...] / return b   (nothing else)
    def chain(stmts: List[ast.stmt]) -> Optional[ast.AST]:
        if len(stmts) == 1 and isinstance(stmts[0], ast.Return):
            return stmts[0].value if stmts[0].value is not None else ast.Constant(value=None)
        if stmts and isinstance(stmts[0], ast.If):
            a = chain(stmts[0].body)
            rest = stmts[0].orelse if stmts[0].orelse else stmts[1:]
            if stmts[0].orelse and len(stmts) > 1:
                return None
            b = chain(list(rest))
            if a is None or b is None:
                return None
            return ast.IfExp(test=stmts[0].test, body=a, orelse=b)
        return None
    v = chain(list(body))
    if v is not None:
        return [], v
    return None


class Expander:
    def __init__(self, fn: ast.AST, var: str, k: KInfo, serial: int):
        self.fn, self.var, self.k, self.serial = fn, var, k, serial
        self.n = 0

    def field(self, f: str) -> str:
        return "_%s_%s" % (self.var.strip("_"), f)

    def bind(self, m: ast.FunctionDef, call_args: List[ast.AST], keywords: List[ast.keyword]) -> Tuple[List[ast.stmt], Dict[str, Any]]:
        a = m.args
        if a.vararg or a.kwarg or a.kwonlyargs or a.posonlyargs or any(isinstance(x, ast.Starred) for x in call_args) or any(k.arg is None for k in keywords):
            raise _Bail()
        params = [p.arg for p in a.args][1:]
        if len(call_args) > len(params):
            raise _Bail()
        actual: Dict[str, ast.AST] = dict(zip(params, call_args))
        for k in keywords:
            if k.arg not in params or k.arg in actual:
                raise _Bail()
            actual[k.arg] = k.value       # type: ignore[index]
        defaults = dict(zip(params[len(params) - len(a.defaults):], a.defaults))
        for p in params:
            if p not in actual:
                if p not in defaults:
                    raise _Bail()
                actual[p] = defaults[p]
        self.n += 1
        tag = "_%s%d_%s_" % (self.var.strip("_"), self.n, m.name.strip("_"))
        stored = {n.id for st in m.body for n in ast.walk(st) if isinstance(n, ast.Name) and isinstance(n.ctx, ast.Store)}
        pre: List[ast.stmt] = []
        ren: Dict[str, Any] = {}
        for p in params:
            if _simple(actual[p]) and p not in stored:
                ren[p] = actual[p]
            else:
                ren[p] = tag + p
                pre.append(ast.Assign(targets=[ast.Name(id=tag + p, ctx=ast.Store())], value=actual[p], lineno=getattr(actual[p], "lineno", 0)))
        for nm in stored:
            if nm not in ren:
                ren[nm] = tag + nm
        return pre, ren

    def inline(self, m: ast.FunctionDef, call: ast.Call) -> Tuple[List[ast.stmt], ast.AST]:
        sv = _single_value(_body(m))
        if sv is None:
            raise _Bail()
        prelude, value = sv
        pre, ren = self.bind(m, list(call.args), list(call.keywords))
        tr = _Self(self.var, ren, self.k)
        out = pre + [tr.visit(copy.deepcopy(st)) for st in prelude]
        val = tr.visit(copy.deepcopy(value))
        for st in out:
            for n in ast.walk(st):
                if hasattr(n, "lineno"):
                    n.lineno = call.lineno        # type: ignore[attr-defined]
            ast.fix_missing_locations(ast.copy_location(st, call))
        ast.fix_missing_locations(ast.copy_location(val, call))
        return out, val

    # one round: expand every `var.method(..)` / `var.prop` found in simple statements; returns True if something changed
    def round(self) -> bool:
        changed = False

        def is_var(n: ast.AST) -> bool:
            return isinstance(n, ast.Name) and n.id == self.var

        def expand_in_stmt(st: ast.stmt) -> Optional[List[ast.stmt]]:
            """statements to run before `st` (st is edited in place), or None when nothing applies"""
            nonlocal changed
            # where may we look: the expressions of this statement that are evaluated exactly once, before the statement's own body
            if isinstance(st, (ast.Expr, ast.Assign, ast.AugAssign, ast.AnnAssign, ast.Return, ast.Raise, ast.Assert, ast.Delete)):
                hosts: List[ast.AST] = [st]
            elif isinstance(st, ast.If):
                hosts = [st.test]
            elif isinstance(st, ast.For):
                hosts = [st.iter]
            elif isinstance(st, ast.With):
                hosts = [i.context_expr for i in st.items]
            else:
                return None
            pre: List[ast.stmt] = []
            for host in hosts:
                slots: List[Tuple[ast.AST, str]] = []
                if host is st:
                    slots += [(st, f_) for f_, _v in ast.iter_fields(st) if f_ not in ("body", "orelse", "finalbody", "handlers")]
                else:
                    slots += [(st, f_) for f_, v_ in ast.iter_fields(st) if v_ is host]
                    slots += [(i_, "context_expr") for i_ in getattr(st, "items", []) if getattr(i_, "context_expr", None) is host]
                slots += [(n_, f_) for n_ in _own(host) for f_, _v in ast.iter_fields(n_)]
                for parent, fld in slots:
                        val = getattr(parent, fld, None)
                        cands = val if isinstance(val, list) else [val]
                        for idx, c in enumerate(cands):
                            new: Optional[ast.AST] = None
                            if isinstance(c, ast.Call) and isinstance(c.func, ast.Attribute) and is_var(c.func.value) \
                                    and c.func.attr in self.k.methods and c.func.attr not in self.k.static and c.func.attr not in self.k.props:
                                if _under_lazy(host, c):
                                    raise _Bail()
                                p2, new = self.inline(self.k.methods[c.func.attr], c)
                                pre.extend(p2)
                            elif isinstance(c, ast.Attribute) and is_var(c.value) and c.attr in self.k.props and isinstance(c.ctx, ast.Load):
                                if _under_lazy(host, c):
                                    raise _Bail()
                                fake = ast.Call(func=c, args=[], keywords=[])
                                ast.copy_location(fake, c)
                                p2, new = self.inline(self.k.methods[c.attr], fake)
                                pre.extend(p2)
                            if new is not None:
                                changed = True
                                if isinstance(val, list):
                                    val[idx] = new
                                else:
                                    setattr(parent, fld, new)
            return pre

        def walk_block(block: List[ast.stmt]) -> List[ast.stmt]:
            out: List[ast.stmt] = []
            for st in block:
                if isinstance(st, ast.While) and any(isinstance(n, ast.Attribute) and is_var(n.value) and (n.attr in self.k.methods) for n in ast.walk(st.test)):
                    # while COND(var.m()): B   ->   while True: <prelude>; if not COND': break; B
                    guard = ast.If(test=ast.UnaryOp(op=ast.Not(), operand=st.test), body=[ast.Break()], orelse=[])
                    ast.copy_location(guard, st)
                    if st.orelse:
                        raise _Bail()
                    st = ast.copy_location(ast.While(test=ast.Constant(value=True), body=[guard] + st.body, orelse=[]), st)
                    ast.fix_missing_locations(st)
                pre = expand_in_stmt(st)
                if pre:
                    out.extend(pre)
                # `var.m(..)` as a whole statement whose value is dropped: keep only the effects
                if isinstance(st, ast.Expr) and isinstance(st.value, (ast.Constant, ast.Name)):
                    continue
                for fld in ("body", "orelse", "finalbody"):
                    sub = getattr(st, fld, None)
                    if isinstance(sub, list) and sub and isinstance(sub[0], ast.stmt):
                        setattr(st, fld, walk_block(sub) or [ast.copy_location(ast.Pass(), st)])
                if isinstance(st, ast.Try):
                    for h in st.handlers:
                        h.body = walk_block(h.body) or [ast.copy_location(ast.Pass(), st)]
                out.append(st)
            return out

        self.fn.body = walk_block(self.fn.body)      # type: ignore[attr-defined]
        return changed


def _under_lazy(host: ast.AST, node: ast.AST) -> bool:
    """is `node` inside a part of `host` that is not evaluated exactly once (lambda, comprehension, right side of and/or, conditional arm)?"""
    def find(n: ast.AST, lazy: bool) -> Optional[bool]:
        if n is node:
            return lazy
        for fld, val in ast.iter_fields(n):
            for c in (val if isinstance(val, list) else [val]):
                if not isinstance(c, ast.AST):
                    continue
                l2 = lazy
                if isinstance(n, (ast.Lambda, ast.ListComp, ast.SetComp, ast.DictComp, ast.GeneratorExp)):
                    l2 = True
                if isinstance(n, ast.BoolOp) and c is not n.values[0]:
                    l2 = True
                if isinstance(n, ast.IfExp) and c is not n.test:
                    l2 = True
                r = find(c, l2)
                if r is not None:
                    return r
        return None
    return bool(find(host, False))


def _name_temporaries(fn: ast.AST, classes: Dict[str, KInfo], serial: List[int]) -> None:
    """`_K(a).m(b)` used directly in a simple statement: give the object a name first"""
    def visit_block(block: List[ast.stmt]) -> List[ast.stmt]:
        out: List[ast.stmt] = []
        for st in block:
            if isinstance(st, (ast.Expr, ast.Assign, ast.AnnAssign, ast.Return)):
                for n in list(_own(st)):
                    if isinstance(n, ast.Attribute) and isinstance(n.value, ast.Call) and isinstance(n.value.func, ast.Name) and n.value.func.id in classes \
                            and not _under_lazy(st, n):
                        serial[0] += 1
                        tmp = "_obj%d" % serial[0]
                        a0 = ast.Assign(targets=[ast.Name(id=tmp, ctx=ast.Store())], value=n.value, lineno=st.lineno)
                        ast.fix_missing_locations(ast.copy_location(a0, st))
                        out.append(a0)
                        n.value = ast.copy_location(ast.Name(id=tmp, ctx=ast.Load()), n)
            for fld in ("body", "orelse", "finalbody"):
                sub = getattr(st, fld, None)
                if isinstance(sub, list) and sub and isinstance(sub[0], ast.stmt) and not isinstance(st, (ast.FunctionDef, ast.ClassDef)):
                    setattr(st, fld, visit_block(sub))
            out.append(st)
        return out
    fn.body = visit_block(fn.body)        # type: ignore[attr-defined]


def _try_function(fn: ast.AST, classes: Dict[str, KInfo], serial: List[int]) -> bool:
    """expand one helper object of this function, if there is one that qualifies"""
    # candidates: name = K(..) once, at statement level
    assigns: Dict[str, List[ast.stmt]] = {}
    for n in _own(fn):
        if isinstance(n, ast.Assign) and len(n.targets) == 1 and isinstance(n.targets[0], ast.Name):
            assigns.setdefault(n.targets[0].id, []).append(n)
        elif isinstance(n, ast.AnnAssign) and isinstance(n.target, ast.Name) and n.value is not None:
            assigns.setdefault(n.target.id, []).append(n)
        elif isinstance(n, (ast.For, ast.AugAssign, ast.With, ast.NamedExpr)):
            for x in ast.walk(n.target if hasattr(n, "target") else n):
                if isinstance(x, ast.Name) and isinstance(x.ctx, ast.Store):
                    assigns.setdefault(x.id, []).append(n)          # type: ignore[arg-type]
    for var, sts in assigns.items():
        if len(sts) != 1 or not isinstance(sts[0], (ast.Assign, ast.AnnAssign)):
            continue
        val = sts[0].value
        if not (isinstance(val, ast.Call) and isinstance(val.func, ast.Name) and val.func.id in classes):
            continue
        k = classes[val.func.id]
        if not k.ok:
            continue
        # every other use of the name: var.attr
        parents: Dict[int, ast.AST] = {}
        for n in ast.walk(fn):
            for c in ast.iter_child_nodes(n):
                parents[id(c)] = n
        ok = True
        for n in ast.walk(fn):
            if isinstance(n, ast.Name) and n.id == var:
                p = parents.get(id(n))
                if p is sts[0] or (isinstance(p, ast.Attribute) and p.value is n):
                    if isinstance(p, ast.Attribute):
                        pp = parents.get(id(p))
                        is_call = isinstance(pp, ast.Call) and pp.func is p
                        if p.attr in k.methods and p.attr not in k.props and not is_call and p.attr not in k.static:
                            ok = False      # a bound method taken as a value
                        if p.attr not in k.methods and p.attr not in k.fields:
                            ok = False
                    # inside a nested function / lambda: captured
                    q = parents.get(id(n))
                    while q is not None and q is not fn:
                        if isinstance(q, (ast.FunctionDef, ast.AsyncFunctionDef, ast.Lambda)):
                            ok = False
                        q = parents.get(id(q))
                    continue
                ok = False
        if not ok:
            continue
        snapshot = copy.deepcopy(fn.body)          # type: ignore[attr-defined]
        try:
            serial[0] += 1
            ex = Expander(fn, var, k, serial[0])
            # the constructor
            init = k.methods.get("__init__")
            st0 = sts[0]
            pre: List[ast.stmt] = []
            if init is not None:
                p2, _v = ex.inline(init, val)
                pre = p2
            elif val.args or val.keywords:
                raise _Bail()
            _replace_stmt(fn, st0, pre)
            for _ in range(MAX_ROUNDS):
                if not ex.round():
                    break
            # what is left must be field accesses only
            for n in ast.walk(fn):
                if isinstance(n, ast.Attribute) and isinstance(n.value, ast.Name) and n.value.id == var:
                    if n.attr in k.methods and n.attr not in k.static:
                        raise _Bail()
            _FieldsToLocals(var, ex).visit(fn)
            if any(isinstance(n, ast.Name) and n.id == var for n in ast.walk(fn)):
                raise _Bail()
            ast.fix_missing_locations(fn)
            return True
        except _Bail:
            fn.body = snapshot      # type: ignore[attr-defined]
            continue
    return False


class _FieldsToLocals(ast.NodeTransformer):
    def __init__(self, var: str, ex: Expander):
        self.var, self.ex = var, ex

    def visit_Attribute(self, node: ast.Attribute) -> ast.AST:
        if isinstance(node.value, ast.Name) and node.value.id == self.var:
            if node.attr in self.ex.k.static:
                return ast.copy_location(ast.Attribute(value=ast.Name(id=self.ex.k.name, ctx=ast.Load()), attr=node.attr, ctx=node.ctx), node)
            return ast.copy_location(ast.Name(id=self.ex.field(node.attr), ctx=node.ctx), node)
        self.generic_visit(node)
        return node


def _replace_stmt(fn: ast.AST, old: ast.stmt, new: List[ast.stmt]) -> None:
    for n in ast.walk(fn):
        for fld in ("body", "orelse", "finalbody"):
            lst = getattr(n, fld, None)
            if isinstance(lst, list) and old in lst:
                i = lst.index(old)
                lst[i:i + 1] = new or [ast.copy_location(ast.Pass(), old)]
                return
    raise _Bail()


def canon_helper_objects(trees: List[ast.Module]) -> Dict[str, int]:
    """rewrites the trees in place; {class name: number of functions in which an object of it was expanded}"""
    classes: Dict[str, List[KInfo]] = {}
    for tree in trees:
        for c in ast.walk(tree):
            if isinstance(c, ast.ClassDef) and c.name.startswith("_") and not c.name.startswith("__"):
                classes.setdefault(c.name, []).append(KInfo(c))
    uniq = {k: v[0] for k, v in classes.items() if len(v) == 1 and v[0].ok}
    done: Dict[str, int] = {}
    if not uniq:
        return done
    serial = [0]
    for tree in trees:
        for fn in [n for n in ast.walk(tree) if isinstance(n, ast.FunctionDef)]:
            _name_temporaries(fn, uniq, serial)
            for _ in range(4):
                before = {k: 0 for k in uniq}
                if not _try_function(fn, uniq, serial):
                    break
                done["*"] = done.get("*", 0) + 1
    return done


# --------------------------------------------------------------------------- per-object memo attributes
def canon_memo_attributes(trees: List[ast.Module]) -> Dict[str, str]:
    """`self._h = None` in __init__ and, in methods of the same class, `if self._h is None: self._h = E` followed by uses of `self._h`,
    with E reading only attributes that are assigned nowhere but in __init__: the attribute remembers E. Every store to `._h` in the
    package must be one of those two forms. The memo is removed: the `if` goes, later reads of `self._h` in that method become E."""
    stores: Dict[str, List[Tuple[ast.AST, Optional[ast.ClassDef], Optional[ast.FunctionDef]]]] = {}
    for tree in trees:
        def visit(node: ast.AST, cls: Optional[ast.ClassDef], fn: Optional[ast.FunctionDef]) -> None:
            for c in ast.iter_child_nodes(node):
                if isinstance(c, ast.ClassDef):
                    visit(c, c, None)
                elif isinstance(c, (ast.FunctionDef, ast.AsyncFunctionDef)):
                    visit(c, cls, c if fn is None else fn)       # type: ignore[arg-type]
                else:
                    if isinstance(c, ast.Attribute) and isinstance(c.ctx, (ast.Store, ast.Del)):
                        stores.setdefault(c.attr, []).append((c, cls, fn))
                    visit(c, cls, fn)
        visit(tree, None, None)
    done: Dict[str, str] = {}
    for tree in trees:
        for cls in [c for c in ast.walk(tree) if isinstance(c, ast.ClassDef)]:
            init = next((m for m in cls.body if isinstance(m, ast.FunctionDef) and m.name == "__init__"), None)
            if init is None:
                continue
            for st in init.body:
                tgt = st.targets[0] if isinstance(st, ast.Assign) and len(st.targets) == 1 else (st.target if isinstance(st, ast.AnnAssign) else None)
                val = getattr(st, "value", None)
                if not (isinstance(tgt, ast.Attribute) and isinstance(tgt.value, ast.Name) and tgt.value.id == "self"
                        and isinstance(val, ast.Constant) and val.value is None):
                    continue
                attr = tgt.attr
                sites = stores.get(attr, [])
                memo_ifs: List[Tuple[ast.FunctionDef, ast.If]] = []
                ok = True
                for node, c_, f_ in sites:
                    if node is tgt:
                        continue
                    if c_ is not cls or f_ is None or not (isinstance(node.value, ast.Name) and node.value.id == "self"):     # type: ignore[attr-defined]
                        ok = False
                        break
                    found = None
                    for n in ast.walk(f_):
                        if isinstance(n, ast.If) and not n.orelse and len(n.body) == 1 and isinstance(n.body[0], ast.Assign) \
                                and n.body[0].targets == [node] and isinstance(n.test, ast.Compare) and len(n.test.ops) == 1 \
                                and isinstance(n.test.ops[0], ast.Is) and ast.unparse(n.test.left) == "self.%s" % attr \
                                and isinstance(n.test.comparators[0], ast.Constant) and n.test.comparators[0].value is None:
                            found = n
                    if found is None:
                        ok = False
                        break
                    memo_ifs.append((f_, found))
                if not ok or not memo_ifs:
                    continue
                exprs = {ast.unparse(i.body[0].value) for _f, i in memo_ifs}          # type: ignore[attr-defined]
                if len(exprs) != 1:
                    continue
                expr = memo_ifs[0][1].body[0].value          # type: ignore[attr-defined]
                # E reads only attributes fixed at construction
                frozen = True
                for n in ast.walk(expr):
                    if isinstance(n, ast.Attribute) and isinstance(n.value, ast.Name) and n.value.id == "self":
                        for node, c_, f_ in stores.get(n.attr, []):
                            if not (c_ is cls and f_ is init):
                                frozen = False
                if not frozen:
                    continue
                for f_, memo in memo_ifs:
                    class R(ast.NodeTransformer):
                        def visit_If(self, node: ast.If) -> Any:
                            if node is memo:
                                return None
                            self.generic_visit(node)
                            return node

                        def visit_Attribute(self, node: ast.Attribute) -> ast.AST:
                            if isinstance(node.ctx, ast.Load) and node.attr == attr and isinstance(node.value, ast.Name) and node.value.id == "self":
                                return ast.copy_location(copy.deepcopy(expr), node)
                            self.generic_visit(node)
                            return node
                    # only reads after the memo statement see the remembered value; reads before it are left (they see None or E)
                    seen_memo = False
                    new_body: List[ast.stmt] = []
                    for st2 in f_.body:
                        if any(n is memo for n in ast.walk(st2)):
                            seen_memo = True
                            r = R().visit(st2)
                            if r is not None:
                                new_body.append(r)
                        elif seen_memo:
                            new_body.append(R().visit(st2))
                        else:
                            new_body.append(st2)
                    f_.body = new_body or [ast.Pass()]
                    ast.fix_missing_locations(f_)
                done["%s.%s" % (cls.name, attr)] = "memo of %s" % ast.unparse(expr)[:60]
    return done
