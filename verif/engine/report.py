"""E13: obligations, verdicts, evidence, known findings, exit codes."""
from __future__ import annotations

import json
import os
import sys
import time
import traceback
from typing import Any, Callable, Dict, List, Optional

from .repo import AnalysisError, Repo

VERIF_ROOT = os.path.dirname(os.path.dirname(os.path.dirname(os.path.abspath(__file__))))

HOLDS, VIOLATED, UNKNOWN = "HOLDS", "VIOLATED", "UNKNOWN"


class Obligation:
    def __init__(self, rule: str, status: str, construct: str, detail: str, where: str = "", path: Optional[List[str]] = None):
        self.rule = rule
        self.status = status
        self.construct = construct      # normalised construct: the key of a finding (never a line number)
        self.detail = detail
        self.where = where              # file:line (informational)
        self.path = path or []
        self.known = False

    def to_json(self) -> Dict[str, Any]:
        d = {"rule": self.rule, "status": self.status, "construct": self.construct, "detail": self.detail, "where": self.where}
        if self.path:
            d["path"] = self.path
        if self.known:
            d["known_finding"] = True
        return d


class Check:
    def __init__(self, prop: str, repo: Repo, tier: str, seed: int = 0):
        self.prop = prop
        self.repo = repo
        self.tier = tier
        self.seed = seed
        self.obligations: List[Obligation] = []
        self.notes: List[str] = []
        self.assumptions: List[str] = []
        self.explanations: List[str] = []
        self.stats: Dict[str, Any] = {}
        self.functions_analysed: set = set()
        self.t0 = time.time()
        self._rule_desc: Dict[str, str] = {}
        self.selftest: Dict[str, Any] = {}
        from .walker import Walker
        self.depth = 3 if tier == "quick" else 8
        self.walker = Walker(repo, self.depth)

    def summ(self, qualname: str, depth: Optional[int] = None, heap: bool = False):  # type: ignore
        self.functions_analysed.add(qualname)
        s = self.walker.summary(qualname, depth, heap)
        d = self.__dict__.get("_derived")
        if d is None:
            from .derived import Derived
            d = self.__dict__["_derived"] = Derived(self.walker)
        return d.apply(s)

    # ------------------------------------------------------------------ recording
    def rule(self, rule: str, desc: str) -> None:
        self._rule_desc[rule] = desc

    def analysed(self, *qualnames: str) -> None:
        self.functions_analysed.update(qualnames)

    def ok(self, rule: str, construct: str, detail: str = "", where: str = "") -> None:
        self.obligations.append(Obligation(rule, HOLDS, construct, detail, _rel(where)))

    def violated(self, rule: str, construct: str, detail: str, where: str = "", path: Optional[List[str]] = None) -> None:
        self.obligations.append(Obligation(rule, VIOLATED, construct, detail, _rel(where), path))

    def unknown(self, rule: str, construct: str, detail: str, where: str = "") -> None:
        self.obligations.append(Obligation(rule, UNKNOWN, construct, detail, _rel(where)))

    def note(self, text: str) -> None:
        self.notes.append(text)

    def assume(self, text: str) -> None:
        if text not in self.assumptions:
            self.assumptions.append(text)

    def expect_count(self, rule: str, what: str, found: int, floor: int) -> None:
        """G4: a rule that binds to fewer sites than confirmed by hand is analysis-broken, not a pass."""
        if found < floor:
            self.unknown(rule, "instances:" + what, "rule bound to %d %s, fewer than the %d confirmed on the pinned tree" % (found, what, floor))
        self.stats.setdefault("instances", {})["%s %s" % (rule, what)] = found

    def run(self, rule: str, desc: str, fn: Callable[[], None]) -> None:
        """Run one rule; AnalysisError -> UNKNOWN; anything else -> UNKNOWN with the traceback."""
        self.rule(rule, desc)
        try:
            fn()
        except AnalysisError as e:
            self.unknown(rule, "analysis", str(e))
        except Exception:
            tb = traceback.format_exc()
            self.unknown(rule, "internal", "internal error in rule %s: %s" % (rule, tb.strip().splitlines()[-1]))
            sys.stderr.write(tb)

    # ------------------------------------------------------------------ finishing
    def finish(self, evidence_dir: str, known_path: str) -> int:
        known = _load_known(known_path)
        viol = [o for o in self.obligations if o.status == VIOLATED]
        unk = [o for o in self.obligations if o.status == UNKNOWN]
        new_viol = []
        for o in viol:
            kf = _match_known(known, self.prop, o)
            if kf is not None:
                o.known = True
                print("KNOWN-FINDING: property=%s rule=%s %s" % (self.prop, o.rule, kf.get("what", o.detail)))
            else:
                new_viol.append(o)
        os.makedirs(evidence_dir, exist_ok=True)
        replay_dir = os.path.join(evidence_dir, "replay")
        exit_code = 0
        for o in unk:
            print("ANALYSIS-ERROR property=%s rule=%s %s: %s" % (self.prop, o.rule, o.construct, o.detail))
            exit_code = 2
        if new_viol:
            os.makedirs(replay_dir, exist_ok=True)
            for i, o in enumerate(new_viol):
                rp = os.path.join(replay_dir, "%s-%d.json" % (self.prop, i))
                with open(rp, "w") as f:
                    json.dump({"property": self.prop, "tier": self.tier, "obligation": o.to_json(),
                               "rule_text": self._rule_desc.get(o.rule, "")}, f, indent=1)
                print("%s [%s] %s — %s" % (o.where or "?", o.rule, o.construct, o.detail))
                for p in o.path:
                    print("    " + p)
                print("VIOLATION property=%s replay=%s" % (self.prop, rp))
            exit_code = 1
        wall = time.time() - self.t0
        n_ob = len(self.obligations)
        n_ok = len([o for o in self.obligations if o.status == HOLDS])
        distinct = len({(o.rule, o.construct) for o in self.obligations if o.status == HOLDS})
        ev = {
            "property_id": self.prop,
            "tier": self.tier,
            "seed": self.seed,
            "level": "other",
            "coverage": {
                "explanation": " ".join(self.explanations) or "static rule obligations over AST / event summaries / flow graphs",
                "rules": self._rule_desc,
                "obligations": n_ob,
                "discharged": n_ok,
                "evaluations": max(n_ob, 1),
                "distinct_nontrivial": distinct,
                "rule": "one evaluation per (rule, code construct) obligation instance; distinct = distinct (rule, normalised construct) pairs "
                        "that bound to real code in /repo and hold",
                "samples": [o.to_json() for o in self.obligations],
                "functions_analysed": sorted(self.functions_analysed),
                "exhaustive": True,
                "notes": self.notes,
                "stats": self.stats,
                "trusted_base": ["CPython ast parser", "repository type annotations (light type inference)",
                                 "alias lists read from Block.__getattr__", "hash / ECDSA / SQLite / immutables semantics"],
            },
            "assumptions": self.assumptions,
            "wall_s": round(wall, 3),
            "violations": len(new_viol),
            "known_findings": len(viol) - len(new_viol),
            "unknown": len(unk),
        }
        if self.selftest:
            ev["coverage"]["selftest"] = self.selftest
        with open(os.path.join(evidence_dir, "%s.json" % self.prop), "w") as f:
            json.dump(ev, f, indent=1, default=str)
        print("%s %s: %d obligations, %d hold, %d violated (%d known), %d unknown, %.2fs" % (
            self.prop, self.tier, n_ob, n_ok, len(viol), len(viol) - len(new_viol), len(unk), wall))
        return exit_code


def _rel(where: str) -> str:
    return where


def _load_known(path: str) -> List[Dict[str, Any]]:
    if not os.path.isfile(path):
        return []
    with open(path) as f:
        d = json.load(f)
    return d.get("findings", [])


def _match_known(known: List[Dict[str, Any]], prop: str, o: Obligation) -> Optional[Dict[str, Any]]:
    for k in known:
        if k.get("property") == prop and k.get("rule") == o.rule and k.get("construct") == o.construct:
            return k
    return None
