"""Load-time canonicalisation of simple generator functions (done on the syntax trees of all modules, before indexing).

Two rewrites, both exact:

T1 (eager consumer)   every use of generator G is `list(G(..))` / `tuple(..)` / `sorted(..)` / `set(..)` / `frozenset(..)`:
                      G becomes the function that builds and returns that list (`yield e` -> `acc.append(e)`, `yield from x` ->
                      `acc.extend(x)`, `return` -> `return acc`). The consumers copy a list instead of draining a generator.

T2 (loop fusion)      `for T in G(args): BODY` where G is `for V in ITER: <guards>; yield E` (nothing after the loop, the yield is the
                      last statement of the loop body, the guards leave only by return / break / continue):
                      `for V' in ITER': <guards'>; T = E'; BODY` - the generator's frame is resumed exactly where the fused loop
                      continues, so laziness (a condition looked at afresh between two items) is preserved.

Anything else (a generator that escapes as a value, `x = yield`, a consumer with a for-else, arguments with side effects) is left
alone; the summariser then treats the generator as the opaque call it is."""
from __future__ import annotations

import ast
import copy
from typing import Any, Dict, List, Optional, Tuple

EAGER = {"list", "tuple", "sorted", "set", "frozenset"}


def _own_nodes(fn: ast.AST):
    """nodes of a function body, not descending into nested defs / lambdas / classes"""
    stack = list(getattr(fn, "body", []))
    while stack:
        n = stack.pop()
        yield n
        for c in ast.iter_child_nodes(n):
            if isinstance(c, (ast.FunctionDef, ast.AsyncFunctionDef, ast.Lambda, ast.ClassDef)):
                continue
            stack.append(c)


def _is_generator(fn: ast.AST) -> bool:
    return any(isinstance(n, (ast.Yield, ast.YieldFrom)) for n in _own_nodes(fn))


def _simple_arg(a: ast.AST) -> bool:
    if isinstance(a, (ast.Name, ast.Constant)):
        return True
    if isinstance(a, ast.Attribute):
        return _simple_arg(a.value)
    return False


class _Rename(ast.NodeTransformer):
    def __init__(self, names: Dict[str, ast.AST]):
        self.names = names

    def visit_Name(self, node: ast.Name) -> ast.AST:
        r = self.names.get(node.id)
        if r is None:
            return node
        if isinstance(r, str):
            return ast.copy_location(ast.Name(id=r, ctx=node.ctx), node)
        if isinstance(node.ctx, ast.Load):
            return ast.copy_location(copy.deepcopy(r), node)
        return node


def _to_list_builder(fn: ast.FunctionDef) -> bool:
    """T1; False when the body has a form that is not handled (the function is left untouched)"""
    for n in _own_nodes(fn):
        if isinstance(n, (ast.Yield, ast.YieldFrom)):
            pass
    acc = "_acc_%s" % fn.name.strip("_")

    class T(ast.NodeTransformer):
        ok = True

        def visit_FunctionDef(self, node: ast.FunctionDef) -> ast.AST:
            return node

        visit_AsyncFunctionDef = visit_FunctionDef    # type: ignore
        visit_Lambda = visit_FunctionDef              # type: ignore
        visit_ClassDef = visit_FunctionDef            # type: ignore

        def visit_Expr(self, node: ast.Expr) -> ast.AST:
            v = node.value
            if isinstance(v, ast.Yield):
                call = ast.Call(func=ast.Attribute(value=ast.Name(id=acc, ctx=ast.Load()), attr="append", ctx=ast.Load()),
                                args=[v.value if v.value is not None else ast.Constant(None)], keywords=[])
                return ast.copy_location(ast.Expr(value=call), node)
            if isinstance(v, ast.YieldFrom):
                call = ast.Call(func=ast.Attribute(value=ast.Name(id=acc, ctx=ast.Load()), attr="extend", ctx=ast.Load()),
                                args=[v.value], keywords=[])
                return ast.copy_location(ast.Expr(value=call), node)
            return node

        def visit_Return(self, node: ast.Return) -> ast.AST:
            if node.value is not None:
                self.ok = False
                return node
            return ast.copy_location(ast.Return(value=ast.Name(id=acc, ctx=ast.Load())), node)

    body = copy.deepcopy(fn.body)
    # leading unconditional yields seed the list literal: `x = f(); yield x; while ..: yield ..` -> `x = f(); acc = [x]; while ..`
    seeded_at = None
    for i, st in enumerate(body):
        if any(isinstance(n, (ast.Yield, ast.YieldFrom)) for n in ast.walk(st)):
            if isinstance(st, ast.Expr) and isinstance(st.value, ast.Yield) and st.value.value is not None:
                j = i
                elts = []
                while j < len(body) and isinstance(body[j], ast.Expr) and isinstance(body[j].value, ast.Yield) and body[j].value.value is not None:  # type: ignore
                    elts.append(body[j].value.value)     # type: ignore
                    j += 1
                seed = ast.copy_location(ast.Assign(targets=[ast.Name(id=acc, ctx=ast.Store())], value=ast.List(elts=elts, ctx=ast.Load()),
                                                    lineno=st.lineno), st)
                body[i:j] = [seed]
                seeded_at = i
            break
    t = T()
    new = [t.visit(s) for s in body]
    holder = ast.Module(body=new, type_ignores=[])
    if not t.ok or any(isinstance(n, (ast.Yield, ast.YieldFrom)) for n in _own_nodes(holder)):
        return False        # a yield used as an expression, or `return value` in a generator
    first = new[0] if new else fn
    init = ast.copy_location(ast.Assign(targets=[ast.Name(id=acc, ctx=ast.Store())], value=ast.List(elts=[], ctx=ast.Load()), lineno=fn.lineno), first)
    start = 1 if (new and isinstance(new[0], ast.Expr) and isinstance(new[0].value, ast.Constant) and isinstance(new[0].value.value, str)) else 0
    last = new[-1] if new else fn
    ret = ast.copy_location(ast.Return(value=ast.Name(id=acc, ctx=ast.Load())), last)
    fn.body = (new if seeded_at is not None else new[:start] + [init] + new[start:]) + [ret]
    fn.returns = None
    ast.fix_missing_locations(fn)
    return True


def _yield_path(fn: ast.FunctionDef) -> Optional[Tuple[ast.For, List[Tuple[List[ast.stmt], int]], int]]:
    """(the single top-level loop, the chain of (block, index) leading to the one `yield` statement, number of loops around it) when the
    generator is one `for` whose iterations end with the yield: every statement on the way is the last one of its block, and is an `if`
    or a `for`. Nothing runs between the yield and the next iteration, so resuming the generator is continuing the loop."""
    body = list(fn.body)
    if body and isinstance(body[0], ast.Expr) and isinstance(body[0].value, ast.Constant) and isinstance(body[0].value.value, str):
        body = body[1:]
    if len(body) != 1 or not isinstance(body[0], ast.For) or body[0].orelse:
        return None
    loop = body[0]
    ys = [n for n in _own_nodes(fn) if isinstance(n, (ast.Yield, ast.YieldFrom))]
    if len(ys) != 1 or not isinstance(ys[0], ast.Yield):
        return None
    if any(isinstance(n, (ast.Yield, ast.YieldFrom)) for n in ast.walk(loop.iter)):
        return None
    chain: List[Tuple[List[ast.stmt], int]] = []
    depth = 1
    block = loop.body
    while True:
        if not block:
            return None
        last = block[-1]
        chain.append((block, len(block) - 1))
        if any(isinstance(n, (ast.Yield, ast.YieldFrom)) for st in block[:-1] for n in ast.walk(st)):
            return None
        if isinstance(last, ast.Expr) and last.value is ys[0]:
            break
        if isinstance(last, ast.If):
            in_body = any(n is ys[0] for st in last.body for n in ast.walk(st))
            in_else = any(n is ys[0] for st in last.orelse for n in ast.walk(st))
            if in_body == in_else or any(n is ys[0] for n in ast.walk(last.test)):
                return None
            block = last.body if in_body else last.orelse
        elif isinstance(last, ast.For) and not last.orelse:
            depth += 1
            block = last.body
        else:
            return None
    # the statements before the yield leave the generator only by return (bare) / break / continue of their own loops
    for n in _own_nodes(fn):
        if isinstance(n, ast.Return) and n.value is not None:
            return None
    return loop, chain, depth


def _fusable(fn: ast.FunctionDef) -> Optional[Tuple[ast.For, List[Tuple[List[ast.stmt], int]], int]]:
    return _yield_path(fn)


class _RetToBreak(ast.NodeTransformer):
    """a bare `return` directly in the generator's outer loop ends the iteration for good: `break` of the fused loop"""
    def __init__(self) -> None:
        self.depth = 0
        self.ok = True

    def visit_Return(self, node: ast.Return) -> ast.AST:
        if self.depth > 1:
            self.ok = False
            return node
        return ast.copy_location(ast.Break(), node)

    def visit_For(self, node: ast.For) -> ast.AST:
        self.depth += 1
        self.generic_visit(node)
        self.depth -= 1
        return node

    def visit_While(self, node: ast.While) -> ast.AST:
        self.depth += 1
        self.generic_visit(node)
        self.depth -= 1
        return node

    def visit_FunctionDef(self, node: ast.FunctionDef) -> ast.AST:
        return node

    visit_Lambda = visit_FunctionDef      # type: ignore


def _fuse(consumer: ast.For, fn: ast.FunctionDef, call: ast.Call, serial: int) -> Optional[ast.For]:
    shape = _yield_path(fn)
    if shape is None or consumer.orelse:
        return None
    loop, _chain, depth = shape
    if depth > 1 and any(isinstance(n, ast.Break) for st in consumer.body for n in _own_stmt_nodes(st)):
        return None         # a `break` of the consumer would have to leave several loops of the generator at once
    a = fn.args
    if a.vararg or a.kwarg or a.posonlyargs or a.kwonlyargs:
        return None
    params = [p.arg for p in a.args]
    actual: Dict[str, ast.AST] = {}
    pos = list(call.args)
    if any(isinstance(x, ast.Starred) for x in pos) or any(k.arg is None for k in call.keywords):
        return None
    if params and params[0] in ("self", "cls") and isinstance(call.func, ast.Attribute):
        actual[params[0]] = call.func.value
        params = params[1:]
    if len(pos) > len(params):
        return None
    for p, x in zip(params, pos):
        actual[p] = x
    for k in call.keywords:
        if k.arg not in params or k.arg in actual:
            return None
        actual[k.arg] = k.value       # type: ignore
    defaults = dict(zip([p.arg for p in a.args][len(a.args) - len(a.defaults):], a.defaults))
    for p in params:
        if p not in actual:
            if p not in defaults:
                return None
            actual[p] = defaults[p]
    if not all(_simple_arg(x) for x in actual.values()):
        return None
    stored = {n.id for n in ast.walk(loop) if isinstance(n, ast.Name) and isinstance(n.ctx, ast.Store)}
    if stored & set(actual):
        return None
    ren: Dict[str, Any] = dict(actual)
    for nm in stored:
        ren[nm] = "_g%d_%s" % (serial, nm)
    new_loop = copy.deepcopy(loop)
    # locate the yield in the copy (same path), then rename, then splice the consumer in
    ypath = _yield_path(ast.FunctionDef(name=fn.name, args=fn.args, body=[new_loop], decorator_list=[], returns=None, type_comment=None))
    if ypath is None:
        return None
    _l, chain2, _d = ypath
    block, idx = chain2[-1]
    ystmt = block[idx]
    yielded = ystmt.value.value if ystmt.value.value is not None else ast.Constant(value=None)     # type: ignore[attr-defined]
    marker = ast.Pass()
    block[idx] = marker
    new_loop = _Rename(ren).visit(new_loop)
    rb = _RetToBreak()
    new_loop = rb.visit(new_loop)
    if not rb.ok:
        return None
    yielded2 = _Rename(ren).visit(copy.deepcopy(yielded))
    # simplest case: `for v in ITER: <guards>; yield v` consumed by `for T in G(..)` -> `for T in ITER: <guards>; BODY`
    direct = (isinstance(yielded, ast.Name) and isinstance(loop.target, ast.Name) and yielded.id == loop.target.id and depth == 1
              and not any(isinstance(n, ast.Name) and n.id == loop.target.id for st in loop.body for n in ast.walk(st) if n is not yielded)
              and all(isinstance(x, (ast.Name, ast.Tuple, ast.List, ast.Store)) for x in ast.walk(consumer.target)))
    splice: List[ast.stmt] = list(consumer.body)
    if direct:
        new_loop.target = consumer.target
    else:
        bind = ast.Assign(targets=[consumer.target], value=yielded2, lineno=consumer.lineno)
        splice = [bind] + splice
    # put the consumer's statements where the marker is
    done = False
    for n in ast.walk(new_loop):
        for fld in ("body", "orelse"):
            lst = getattr(n, fld, None)
            if isinstance(lst, list) and marker in lst:
                k = lst.index(marker)
                lst[k:k + 1] = splice
                done = True
    if not done:
        return None
    new = ast.For(target=new_loop.target, iter=new_loop.iter, body=new_loop.body, orelse=[], type_comment=None)
    ast.copy_location(new, consumer)
    for st in new.body:
        for n in ast.walk(st):
            if not any(n is x for cst in consumer.body for x in ast.walk(cst)) and hasattr(n, "lineno"):
                n.lineno = consumer.lineno          # type: ignore[attr-defined]
    ast.fix_missing_locations(new)
    return new


def _own_stmt_nodes(st: ast.AST):
    """nodes of a statement that belong to the same loop level (not inside a nested loop / def)"""
    stack = [st]
    while stack:
        n = stack.pop()
        yield n
        for c in ast.iter_child_nodes(n):
            if isinstance(c, (ast.For, ast.While, ast.FunctionDef, ast.AsyncFunctionDef, ast.Lambda, ast.ClassDef)):
                continue
            stack.append(c)


def _straight_line_parts(fn: ast.FunctionDef) -> Optional[List[Tuple[str, ast.AST]]]:
    """T3: the body is nothing but `yield e` / `yield from x` statements: the generator is chain((e,), x, ...)"""
    body = list(fn.body)
    if body and isinstance(body[0], ast.Expr) and isinstance(body[0].value, ast.Constant) and isinstance(body[0].value.value, str):
        body = body[1:]
    parts: List[Tuple[str, ast.AST]] = []
    for st in body:
        if isinstance(st, ast.Expr) and isinstance(st.value, ast.Yield) and st.value.value is not None:
            parts.append(("one", st.value.value))
        elif isinstance(st, ast.Expr) and isinstance(st.value, ast.YieldFrom):
            parts.append(("many", st.value.value))
        else:
            return None
    return parts or None


def canon_generators(trees: List[ast.Module]) -> Dict[str, str]:
    """rewrites the trees in place; returns {generator name: what was done} for the record"""
    gens: Dict[str, List[ast.FunctionDef]] = {}
    for tree in trees:
        for n in ast.walk(tree):
            if isinstance(n, ast.FunctionDef) and _is_generator(n):
                gens.setdefault(n.name, []).append(n)
    gens = {k: v for k, v in gens.items() if len(v) == 1}
    if not gens:
        return {}
    # classify the uses
    uses: Dict[str, List[Tuple[str, ast.AST, ast.AST]]] = {k: [] for k in gens}
    for tree in trees:
        parents: Dict[int, ast.AST] = {}
        for n in ast.walk(tree):
            for c in ast.iter_child_nodes(n):
                parents[id(c)] = n
        for n in ast.walk(tree):
            nm = n.id if isinstance(n, ast.Name) else (n.attr if isinstance(n, ast.Attribute) else None)
            if nm not in gens or (isinstance(n, ast.Name) and not isinstance(n.ctx, ast.Load)):
                continue
            p = parents.get(id(n))
            if isinstance(p, ast.Call) and p.func is n:
                pp = parents.get(id(p))
                if isinstance(pp, ast.For) and pp.iter is p:
                    uses[nm].append(("for", p, pp))
                elif isinstance(pp, ast.comprehension) and pp.iter is p and isinstance(parents.get(id(pp)), (ast.ListComp, ast.SetComp, ast.DictComp)) \
                        and parents[id(pp)].generators[0] is pp:        # type: ignore[union-attr]
                    uses[nm].append(("eager", p, pp))
                elif isinstance(pp, ast.Call) and isinstance(pp.func, ast.Name) and pp.func.id in EAGER and pp.args and pp.args[0] is p:
                    uses[nm].append(("eager", p, pp))
                elif isinstance(pp, ast.Call) and isinstance(pp.func, ast.Attribute) and pp.func.attr in ("extend", "update", "join") and pp.args == [p] \
                        and not pp.keywords:
                    uses[nm].append(("eager", p, pp))        # xs.extend(G(..)) / s.update(G(..)) / sep.join(G(..)) drain it
                else:
                    uses[nm].append(("other", p, pp))       # type: ignore[arg-type]
            else:
                uses[nm].append(("escape", n, p))           # type: ignore[arg-type]
    done: Dict[str, str] = {}
    serial = 0
    for nm, fns in sorted(gens.items()):
        fn = fns[0]
        us = uses[nm]
        parts = _straight_line_parts(fn)
        if parts is not None and us and all(k != "escape" for k, _c, _p in us) and not (fn.args.vararg or fn.args.kwarg or fn.args.kwonlyargs):
            ok_all = True
            plans = []
            for kind, call, parent in us:
                params = [p.arg for p in fn.args.args]
                actual: Dict[str, ast.AST] = {}
                if params and params[0] in ("self", "cls") and isinstance(call.func, ast.Attribute):      # type: ignore[attr-defined]
                    actual[params[0]] = call.func.value        # type: ignore[attr-defined]
                    params = params[1:]
                if call.keywords or len(call.args) != len(params) or not all(_simple_arg(x) for x in call.args):      # type: ignore[attr-defined]
                    ok_all = False
                    break
                actual.update(dict(zip(params, call.args)))       # type: ignore[attr-defined]
                plans.append((call, actual))
            if ok_all:
                for call, actual in plans:
                    serial += 1
                    it, m = "_g%d_it" % serial, "_g%d_m" % serial
                    pieces = [ast.Tuple(elts=[_Rename(actual).visit(copy.deepcopy(e))], ctx=ast.Load()) if k == "one" else _Rename(actual).visit(copy.deepcopy(e))
                              for k, e in parts]
                    gen = ast.GeneratorExp(elt=ast.Name(id=m, ctx=ast.Load()), generators=[
                        ast.comprehension(target=ast.Name(id=it, ctx=ast.Store()), iter=ast.Tuple(elts=pieces, ctx=ast.Load()), ifs=[], is_async=0),
                        ast.comprehension(target=ast.Name(id=m, ctx=ast.Store()), iter=ast.Name(id=it, ctx=ast.Load()), ifs=[], is_async=0)])
                    ast.copy_location(gen, call)
                    ast.fix_missing_locations(gen)
                    _replace_node(trees, call, gen)
                done[nm] = "a chain of its parts at every use"
                continue
        if us and all(k == "eager" for k, _c, _p in us):
            if _to_list_builder(fn):
                done[nm] = "list builder (every use drains it at once)"
            continue
        if _fusable(fn) is None:
            continue
        for kind, call, parent in us:
            if kind != "for":
                continue
            serial += 1
            new = _fuse(parent, fn, call, serial)          # type: ignore[arg-type]
            if new is None:
                continue
            parent.target, parent.iter, parent.body, parent.orelse = new.target, new.iter, new.body, new.orelse      # type: ignore[attr-defined]
            done[nm] = "fused into the loops that iterate it"
    return done


def _replace_node(trees: List[ast.Module], old: ast.AST, new: ast.AST) -> None:
    for tree in trees:
        for n in ast.walk(tree):
            for fld, val in ast.iter_fields(n):
                if val is old:
                    setattr(n, fld, new)
                    return
                if isinstance(val, list):
                    for i, x in enumerate(val):
                        if x is old:
                            val[i] = new
                            return


# --------------------------------------------------------------------------- @contextmanager generators
def canon_context_managers(trees: List[ast.Module]) -> Dict[str, str]:
    """`with cm(args) as x: BODY` for `@contextmanager def cm(..): PRE; yield V; POST` is `PRE; x = V; BODY; POST` - POST only when BODY
    completes, exactly as the generator is resumed. With the yield inside `try: .. finally: F` / `except E: H`, BODY takes the yield's
    place inside that try. A `return` in a handler of the generator ends it without re-raising: the exception is swallowed and execution
    continues after the with statement - the expansion keeps that (the return is dropped where it is the handler's last statement;
    other shapes are left alone)."""
    cms: Dict[str, List[ast.FunctionDef]] = {}
    for tree in trees:
        for n in ast.walk(tree):
            if isinstance(n, ast.FunctionDef) and any(((_ctx_dotted(d) or "").split(".")[-1] == "contextmanager") for d in n.decorator_list):
                cms.setdefault(n.name, []).append(n)
    cms = {k: v for k, v in cms.items() if len(v) == 1}
    done: Dict[str, str] = {}
    if not cms:
        return done
    serial = [0]

    def shape(fn: ast.FunctionDef) -> Optional[Tuple[List[ast.stmt], Optional[ast.Try], ast.AST, List[ast.stmt]]]:
        body = list(fn.body)
        if body and isinstance(body[0], ast.Expr) and isinstance(body[0].value, ast.Constant) and isinstance(body[0].value.value, str):
            body = body[1:]
        ys = [n for n in _own_nodes(fn) if isinstance(n, (ast.Yield, ast.YieldFrom))]
        if len(ys) != 1 or not isinstance(ys[0], ast.Yield):
            return None
        for i, st in enumerate(body):
            if isinstance(st, ast.Expr) and st.value is ys[0]:
                return body[:i], None, (ys[0].value or ast.Constant(value=None)), body[i + 1:]
            if isinstance(st, ast.Try) and any(isinstance(b, ast.Expr) and b.value is ys[0] for b in st.body):
                if any(any(n is ys[0] for n in ast.walk(x)) for h in st.handlers for x in h.body):
                    return None
                return body[:i], st, (ys[0].value or ast.Constant(value=None)), body[i + 1:]
            if any(n is ys[0] for n in ast.walk(st)):
                return None
        return None

    def expand(w: ast.With, fn: ast.FunctionDef) -> Optional[List[ast.stmt]]:
        if len(w.items) != 1:
            return None
        call = w.items[0].context_expr
        sh = shape(fn)
        if sh is None or not isinstance(call, ast.Call):
            return None
        pre, tr, val, post = sh
        a = fn.args
        if a.vararg or a.kwarg or a.posonlyargs or a.kwonlyargs or call.keywords and any(k.arg is None for k in call.keywords):
            return None
        params = [p.arg for p in a.args]
        actual: Dict[str, ast.AST] = {}
        if params and params[0] in ("self", "cls") and isinstance(call.func, ast.Attribute):
            actual[params[0]] = call.func.value
            params = params[1:]
        if len(call.args) > len(params) or any(isinstance(x, ast.Starred) for x in call.args):
            return None
        actual.update(dict(zip(params, call.args)))
        for k in call.keywords:
            if k.arg not in params or k.arg in actual:
                return None
            actual[k.arg] = k.value        # type: ignore[index]
        defaults = dict(zip([p.arg for p in a.args][len(a.args) - len(a.defaults):], a.defaults))
        for p in params:
            if p not in actual:
                if p not in defaults:
                    return None
                actual[p] = defaults[p]
        serial[0] += 1
        tag = "_cm%d_" % serial[0]
        stored = {n.id for st in fn.body for n in ast.walk(st) if isinstance(n, ast.Name) and isinstance(n.ctx, ast.Store)}
        ren: Dict[str, Any] = {}
        binds: List[ast.stmt] = []
        for p, v in actual.items():
            if _simple_arg(v) and p not in stored:
                ren[p] = v
            else:
                ren[p] = tag + p
                binds.append(ast.Assign(targets=[ast.Name(id=tag + p, ctx=ast.Store())], value=v, lineno=w.lineno))
        for nm in stored:
            if nm not in ren:
                ren[nm] = tag + nm
        R = lambda node: _Rename(ren).visit(copy.deepcopy(node))      # noqa
        out: List[ast.stmt] = binds + [R(st) for st in pre]
        target = w.items[0].optional_vars
        inner: List[ast.stmt] = []
        if target is not None:
            inner.append(ast.Assign(targets=[target], value=R(val), lineno=w.lineno))
        else:
            v2 = R(val)
            if not isinstance(v2, (ast.Constant, ast.Name)):
                inner.append(ast.Expr(value=v2))
        inner += list(w.body)
        if tr is None:
            out += inner
        else:
            t2 = R(tr)
            # the statements of the try body around the yield stay where they are; the yield statement is replaced by the with body
            nb: List[ast.stmt] = []
            for b in t2.body:
                if isinstance(b, ast.Expr) and isinstance(b.value, ast.Yield):
                    nb += inner
                else:
                    nb.append(b)
            t2.body = nb
            for h in t2.handlers:
                rets = [n for n in ast.walk(h) if isinstance(n, ast.Return)]
                if rets:
                    if len(rets) == 1 and rets[0] is h.body[-1] and rets[0].value is None:
                        h.body = h.body[:-1] or [ast.Pass()]       # swallowed: execution goes on after the with statement
                    else:
                        return None
            if any(isinstance(n, ast.Return) for st in t2.finalbody + t2.orelse for n in ast.walk(st)):
                return None
            out.append(t2)
        if any(isinstance(n, ast.Return) for st in pre + post for n in ast.walk(st)):
            return None
        out += [R(st) for st in post]
        for st in out:
            ast.copy_location(st, w)
            for n in ast.walk(st):
                if not hasattr(n, "lineno") or any(n is x for b in w.body for x in ast.walk(b)):
                    continue
                n.lineno = w.lineno      # type: ignore[attr-defined]
            ast.fix_missing_locations(st)
        return out

    def visit_block(block: List[ast.stmt]) -> List[ast.stmt]:
        out: List[ast.stmt] = []
        for st in block:
            for fld in ("body", "orelse", "finalbody"):
                sub = getattr(st, fld, None)
                if isinstance(sub, list) and sub and isinstance(sub[0], ast.stmt):
                    setattr(st, fld, visit_block(sub))
            if isinstance(st, ast.Try):
                for h in st.handlers:
                    h.body = visit_block(h.body)
            if isinstance(st, ast.With) and len(st.items) == 1 and isinstance(st.items[0].context_expr, ast.Call):
                f = st.items[0].context_expr.func
                nm = f.id if isinstance(f, ast.Name) else (f.attr if isinstance(f, ast.Attribute) else None)
                if nm in cms:
                    new = expand(st, cms[nm][0])
                    if new is not None:
                        done[nm] = "expanded at its with statements"
                        used_here.add(nm)
                        out.extend(new)
                        continue
            out.append(st)
        return out

    home: Dict[int, ast.Module] = {}
    for tree in trees:
        for n in ast.walk(tree):
            if isinstance(n, ast.FunctionDef):
                home[id(n)] = tree
    used_here: set = set()
    for tree in trees:
        used_here.clear()
        for fn in [n for n in ast.walk(tree) if isinstance(n, (ast.FunctionDef, ast.AsyncFunctionDef))]:
            if any(fn is c[0] for c in cms.values()):
                continue
            fn.body = visit_block(fn.body)
        # a context manager defined in another module brings its module-level names along
        for nm, fns in cms.items():
            if nm not in used_here or home.get(id(fns[0])) is tree or not tree.body:
                continue
            src_tree = home.get(id(fns[0]))
            src_mod = getattr(src_tree, "_modname", None)
            if src_tree is None or src_mod is None:
                continue
            top_src = _module_level_names(src_tree)
            top_here = _module_level_names(tree)
            need = {x.id for x in ast.walk(fns[0]) if isinstance(x, ast.Name) and isinstance(x.ctx, ast.Load)} & top_src
            missing = sorted(n_ for n_ in need if n_ not in top_here)
            if missing:
                imp = ast.ImportFrom(module=src_mod, names=[ast.alias(name=n_, asname=None) for n_ in missing], level=0)
                ast.fix_missing_locations(ast.copy_location(imp, tree.body[0]))
                tree.body.insert(0, imp)
    return done


def _module_level_names(tree: ast.Module) -> set:
    out = set()
    for st in tree.body:
        if isinstance(st, (ast.FunctionDef, ast.ClassDef, ast.AsyncFunctionDef)):
            out.add(st.name)
        elif isinstance(st, ast.Assign):
            for t in st.targets:
                out |= {x.id for x in ast.walk(t) if isinstance(x, ast.Name)}
        elif isinstance(st, ast.AnnAssign) and isinstance(st.target, ast.Name):
            out.add(st.target.id)
        elif isinstance(st, (ast.Import, ast.ImportFrom)):
            for a in st.names:
                out.add((a.asname or a.name).split(".")[0])
        elif isinstance(st, (ast.If, ast.Try)):
            for sub in ast.walk(st):
                if isinstance(sub, (ast.Import, ast.ImportFrom)):
                    for a in sub.names:
                        out.add((a.asname or a.name).split(".")[0])
    return out


def _ctx_dotted(n: ast.AST) -> Optional[str]:
    if isinstance(n, ast.Call):
        n = n.func
    parts = []
    while isinstance(n, ast.Attribute):
        parts.append(n.attr)
        n = n.value
    if isinstance(n, ast.Name):
        parts.append(n.id)
        return ".".join(reversed(parts))
    return None
