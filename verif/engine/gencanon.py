"""Load-time canonicalisation of simple generator functions (done on the syntax trees of all modules, before indexing).

Two rewrites, both exact:

T1 (eager consumer)   every use of generator G is `list(G(..))` / `tuple(..)` / `sorted(..)` / `set(..)` / `frozenset(..)`:
                      G becomes the function that builds and returns that list (`yield e` -> `acc.append(e)`, `yield from x` ->
                      `acc.extend(x)`, `return` -> `return acc`). The consumers copy a list instead of draining a generator.

T2 (loop fusion)      `for T in G(args): BODY` where G is `for V in ITER: <guards>; yield E` (nothing after the loop, the yield is the
                      last statement of the loop body, the guards leave only by return / break / continue):
                      `for V' in ITER': <guards'>; T = E'; BODY` - the generator's frame is resumed exactly where the fused loop
                      continues, so laziness (a condition looked at afresh between two items) is preserved.

Anything else (a generator that escapes as a value, `x = yield`, a consumer with a for-else, arguments with side effects) is left
alone; the summariser then treats the generator as the opaque call it is."""
from __future__ import annotations

import ast
import copy
from typing import Any, Dict, List, Optional, Tuple

EAGER = {"list", "tuple", "sorted", "set", "frozenset"}


def _own_nodes(fn: ast.AST):
    """nodes of a function body, not descending into nested defs / lambdas / classes"""
    stack = list(getattr(fn, "body", []))
    while stack:
        n = stack.pop()
        yield n
        for c in ast.iter_child_nodes(n):
            if isinstance(c, (ast.FunctionDef, ast.AsyncFunctionDef, ast.Lambda, ast.ClassDef)):
                continue
            stack.append(c)


def _is_generator(fn: ast.AST) -> bool:
    return any(isinstance(n, (ast.Yield, ast.YieldFrom)) for n in _own_nodes(fn))


def _simple_arg(a: ast.AST) -> bool:
    if isinstance(a, (ast.Name, ast.Constant)):
        return True
    if isinstance(a, ast.Attribute):
        return _simple_arg(a.value)
    return False


class _Rename(ast.NodeTransformer):
    def __init__(self, names: Dict[str, ast.AST]):
        self.names = names

    def visit_Name(self, node: ast.Name) -> ast.AST:
        r = self.names.get(node.id)
        if r is None:
            return node
        if isinstance(r, str):
            return ast.copy_location(ast.Name(id=r, ctx=node.ctx), node)
        if isinstance(node.ctx, ast.Load):
            return ast.copy_location(copy.deepcopy(r), node)
        return node


def _to_list_builder(fn: ast.FunctionDef) -> bool:
    """T1; False when the body has a form that is not handled (the function is left untouched)"""
    for n in _own_nodes(fn):
        if isinstance(n, (ast.Yield, ast.YieldFrom)):
            pass
    acc = "_acc_%s" % fn.name.strip("_")

    class T(ast.NodeTransformer):
        ok = True

        def visit_FunctionDef(self, node: ast.FunctionDef) -> ast.AST:
            return node

        visit_AsyncFunctionDef = visit_FunctionDef    # type: ignore
        visit_Lambda = visit_FunctionDef              # type: ignore
        visit_ClassDef = visit_FunctionDef            # type: ignore

        def visit_Expr(self, node: ast.Expr) -> ast.AST:
            v = node.value
            if isinstance(v, ast.Yield):
                call = ast.Call(func=ast.Attribute(value=ast.Name(id=acc, ctx=ast.Load()), attr="append", ctx=ast.Load()),
                                args=[v.value if v.value is not None else ast.Constant(None)], keywords=[])
                return ast.copy_location(ast.Expr(value=call), node)
            if isinstance(v, ast.YieldFrom):
                call = ast.Call(func=ast.Attribute(value=ast.Name(id=acc, ctx=ast.Load()), attr="extend", ctx=ast.Load()),
                                args=[v.value], keywords=[])
                return ast.copy_location(ast.Expr(value=call), node)
            return node

        def visit_Return(self, node: ast.Return) -> ast.AST:
            if node.value is not None:
                self.ok = False
                return node
            return ast.copy_location(ast.Return(value=ast.Name(id=acc, ctx=ast.Load())), node)

    body = copy.deepcopy(fn.body)
    # leading unconditional yields seed the list literal: `x = f(); yield x; while ..: yield ..` -> `x = f(); acc = [x]; while ..`
    seeded_at = None
    for i, st in enumerate(body):
        if any(isinstance(n, (ast.Yield, ast.YieldFrom)) for n in ast.walk(st)):
            if isinstance(st, ast.Expr) and isinstance(st.value, ast.Yield) and st.value.value is not None:
                j = i
                elts = []
                while j < len(body) and isinstance(body[j], ast.Expr) and isinstance(body[j].value, ast.Yield) and body[j].value.value is not None:  # type: ignore
                    elts.append(body[j].value.value)     # type: ignore
                    j += 1
                seed = ast.copy_location(ast.Assign(targets=[ast.Name(id=acc, ctx=ast.Store())], value=ast.List(elts=elts, ctx=ast.Load()),
                                                    lineno=st.lineno), st)
                body[i:j] = [seed]
                seeded_at = i
            break
    t = T()
    new = [t.visit(s) for s in body]
    holder = ast.Module(body=new, type_ignores=[])
    if not t.ok or any(isinstance(n, (ast.Yield, ast.YieldFrom)) for n in _own_nodes(holder)):
        return False        # a yield used as an expression, or `return value` in a generator
    first = new[0] if new else fn
    init = ast.copy_location(ast.Assign(targets=[ast.Name(id=acc, ctx=ast.Store())], value=ast.List(elts=[], ctx=ast.Load()), lineno=fn.lineno), first)
    start = 1 if (new and isinstance(new[0], ast.Expr) and isinstance(new[0].value, ast.Constant) and isinstance(new[0].value.value, str)) else 0
    last = new[-1] if new else fn
    ret = ast.copy_location(ast.Return(value=ast.Name(id=acc, ctx=ast.Load())), last)
    fn.body = (new if seeded_at is not None else new[:start] + [init] + new[start:]) + [ret]
    fn.returns = None
    ast.fix_missing_locations(fn)
    return True


def _fusable(fn: ast.FunctionDef) -> Optional[Tuple[ast.For, List[ast.stmt], ast.AST]]:
    body = list(fn.body)
    if body and isinstance(body[0], ast.Expr) and isinstance(body[0].value, ast.Constant) and isinstance(body[0].value.value, str):
        body = body[1:]
    if len(body) != 1 or not isinstance(body[0], ast.For) or body[0].orelse:
        return None
    loop = body[0]
    if not loop.body or not (isinstance(loop.body[-1], ast.Expr) and isinstance(loop.body[-1].value, ast.Yield)):
        return None
    guards = loop.body[:-1]
    for g in guards:
        for n in ast.walk(g):
            if isinstance(n, (ast.Yield, ast.YieldFrom, ast.FunctionDef, ast.AsyncFunctionDef, ast.Lambda, ast.ClassDef)):
                return None
            if isinstance(n, ast.Return) and n.value is not None:
                return None
        # a return / break inside a nested loop of a guard cannot be mapped onto the fused loop
        for n in ast.walk(g):
            if isinstance(n, (ast.For, ast.While)) and any(isinstance(x, ast.Return) for x in ast.walk(n)):
                return None
    if any(isinstance(n, (ast.Yield, ast.YieldFrom)) for n in ast.walk(loop.iter)):
        return None
    y = loop.body[-1].value.value
    return loop, guards, (y if y is not None else ast.Constant(None))


class _RetToBreak(ast.NodeTransformer):
    def visit_Return(self, node: ast.Return) -> ast.AST:
        return ast.copy_location(ast.Break(), node)

    def visit_For(self, node: ast.For) -> ast.AST:
        return node

    visit_While = visit_For   # type: ignore


def _fuse(consumer: ast.For, fn: ast.FunctionDef, call: ast.Call, serial: int) -> Optional[ast.For]:
    shape = _fusable(fn)
    if shape is None or consumer.orelse:
        return None
    loop, guards, yielded = shape
    a = fn.args
    if a.vararg or a.kwarg or a.posonlyargs or a.kwonlyargs:
        return None
    params = [p.arg for p in a.args]
    actual: Dict[str, ast.AST] = {}
    pos = list(call.args)
    if any(isinstance(x, ast.Starred) for x in pos) or any(k.arg is None for k in call.keywords):
        return None
    if params and params[0] in ("self", "cls") and isinstance(call.func, ast.Attribute):
        actual[params[0]] = call.func.value
        params = params[1:]
    if len(pos) > len(params):
        return None
    for p, x in zip(params, pos):
        actual[p] = x
    for k in call.keywords:
        if k.arg not in params or k.arg in actual:
            return None
        actual[k.arg] = k.value       # type: ignore
    defaults = dict(zip([p.arg for p in a.args][len(a.args) - len(a.defaults):], a.defaults))
    for p in params:
        if p not in actual:
            if p not in defaults:
                return None
            actual[p] = defaults[p]
    if not all(_simple_arg(x) for x in actual.values()):
        return None
    # parameters must not be re-bound inside the generator
    stored = {n.id for n in ast.walk(loop) if isinstance(n, ast.Name) and isinstance(n.ctx, ast.Store)}
    if stored & set(actual):
        return None
    ren: Dict[str, Any] = dict(actual)
    for nm in stored:
        ren[nm] = "_g%d_%s" % (serial, nm)
    r = _Rename(ren)
    guards2 = [_RetToBreak().visit(r.visit(copy.deepcopy(g))) for g in guards]
    iter2 = r.visit(copy.deepcopy(loop.iter))
    target2 = r.visit(copy.deepcopy(loop.target))
    yielded2 = r.visit(copy.deepcopy(yielded))
    guard_names = {n.id for g in guards for n in ast.walk(g) if isinstance(n, ast.Name)}
    loop_names = {n.id for n in ast.walk(loop.target) if isinstance(n, ast.Name)}
    if isinstance(yielded, ast.Name) and isinstance(loop.target, ast.Name) and yielded.id == loop.target.id and not (guard_names & loop_names):
        new = ast.For(target=consumer.target, iter=iter2, body=guards2 + list(consumer.body), orelse=[], type_comment=None)
    else:
        bind = ast.Assign(targets=[consumer.target], value=yielded2, lineno=consumer.lineno)
        new = ast.For(target=target2, iter=iter2, body=guards2 + [bind] + list(consumer.body), orelse=[], type_comment=None)
    ast.copy_location(new, consumer)
    for g in guards2:
        for n in ast.walk(g):
            if hasattr(n, "lineno"):
                n.lineno = consumer.lineno          # type: ignore[attr-defined]
    ast.fix_missing_locations(new)
    return new


def canon_generators(trees: List[ast.Module]) -> Dict[str, str]:
    """rewrites the trees in place; returns {generator name: what was done} for the record"""
    gens: Dict[str, List[ast.FunctionDef]] = {}
    for tree in trees:
        for n in ast.walk(tree):
            if isinstance(n, ast.FunctionDef) and _is_generator(n):
                gens.setdefault(n.name, []).append(n)
    gens = {k: v for k, v in gens.items() if len(v) == 1}
    if not gens:
        return {}
    # classify the uses
    uses: Dict[str, List[Tuple[str, ast.AST, ast.AST]]] = {k: [] for k in gens}
    for tree in trees:
        parents: Dict[int, ast.AST] = {}
        for n in ast.walk(tree):
            for c in ast.iter_child_nodes(n):
                parents[id(c)] = n
        for n in ast.walk(tree):
            nm = n.id if isinstance(n, ast.Name) else (n.attr if isinstance(n, ast.Attribute) else None)
            if nm not in gens or (isinstance(n, ast.Name) and not isinstance(n.ctx, ast.Load)):
                continue
            p = parents.get(id(n))
            if isinstance(p, ast.Call) and p.func is n:
                pp = parents.get(id(p))
                if isinstance(pp, ast.For) and pp.iter is p:
                    uses[nm].append(("for", p, pp))
                elif isinstance(pp, ast.Call) and isinstance(pp.func, ast.Name) and pp.func.id in EAGER and pp.args and pp.args[0] is p:
                    uses[nm].append(("eager", p, pp))
                else:
                    uses[nm].append(("other", p, pp))       # type: ignore[arg-type]
            else:
                uses[nm].append(("escape", n, p))           # type: ignore[arg-type]
    done: Dict[str, str] = {}
    serial = 0
    for nm, fns in sorted(gens.items()):
        fn = fns[0]
        us = uses[nm]
        if us and all(k == "eager" for k, _c, _p in us):
            if _to_list_builder(fn):
                done[nm] = "list builder (every use drains it at once)"
            continue
        if _fusable(fn) is None:
            continue
        for kind, call, parent in us:
            if kind != "for":
                continue
            serial += 1
            new = _fuse(parent, fn, call, serial)          # type: ignore[arg-type]
            if new is None:
                continue
            parent.target, parent.iter, parent.body, parent.orelse = new.target, new.iter, new.body, new.orelse      # type: ignore[attr-defined]
            done[nm] = "fused into the loops that iterate it"
    return done
