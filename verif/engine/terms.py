"""E3/E8: expression normaliser, light types, canonical comparisons, linear forms, implication.

Terms are nested tuples (hashable):
  ('c', value)                 constant
  ('v', name)                  free variable (parameter / unresolved local)
  ('g', ref)                   global: repo qualname, 'builtin:x', 'ext:dotted', 'mod:name'
  ('a', base, attr)            attribute
  ('s', base, index)           subscript
  ('sl', base, lo, hi, step)   slice
  ('call', f, args, kwargs)
  ('cmp', op, a, b)            op in == != < <= in notin is isnot   (> and >= are flipped)
  ('cmpz', op, lin)            integer comparison `lin op 0`, op in < <= > >= == !=
  ('not', x) ('and', xs) ('or', xs)
  ('lin', ((atom, coeff)...), const)
  ('mul', xs) ('op', name, a, b) ('neg', x)
  ('cat', xs)                  ordered concatenation (bytes / lists / unknown `+`)
  ('sum', elt, gens) ('comp', kind, elt, gens)   gens = ((iter, conds)...)
  ('e', iter, role)            variable bound by iteration over `iter` (role: elem idx key val <n>)
  ('ife', c, a, b) ('tuple', xs) ('list', xs) ('set', xs) ('dict', items)
  ('lv', name, n)              loop-varying / unknown local
  ('opaque', text)
"""
from __future__ import annotations

import ast
from typing import Any, Callable, Dict, List, Optional, Sequence, Tuple

from .repo import AnalysisError, ClassInfo, FuncInfo, Module, Repo, dotted

Term = Tuple[Any, ...]
Type = Optional[Tuple[Any, ...]]

BUILTINS = {
    "len", "sum", "min", "max", "pow", "int", "str", "bytes", "bool", "list", "tuple", "set", "dict", "sorted", "reversed",
    "enumerate", "range", "isinstance", "any", "all", "print", "hash", "getattr", "type", "zip", "map", "filter", "abs",
    "open", "exit", "super", "iter", "next", "repr", "float", "frozenset", "id", "round", "divmod", "object", "exec",
    "Exception", "ValueError", "KeyError", "NotImplementedError", "AttributeError", "AssertionError", "OSError", "TypeError",
    "IndexError", "RuntimeError", "BaseException", "KeyboardInterrupt", "StopIteration", "OverflowError",
}

P_INT: Type = ("P", "int")
P_BYTES: Type = ("P", "bytes")
P_STR: Type = ("P", "str")
P_BOOL: Type = ("P", "bool")


def C(v: Any) -> Term:
    return ("c", v)


def is_const(t: Term) -> bool:
    return t[0] == "c"


def is_int_const(t: Term) -> bool:
    return t[0] == "c" and isinstance(t[1], int) and not isinstance(t[1], bool)


def key(t: Any) -> str:
    return repr(t)


# --------------------------------------------------------------------------- linear forms
def lin_parts(t: Term) -> Tuple[Dict[Term, int], int]:
    if t[0] == "lin":
        return dict(t[1]), t[2]
    if is_int_const(t):
        return {}, t[1]
    return {t: 1}, 0


def mk_lin(atoms: Dict[Term, int], const: int) -> Term:
    atoms = {a: c for a, c in atoms.items() if c != 0}
    if not atoms:
        return C(const)
    if len(atoms) == 1 and const == 0:
        (a, c), = atoms.items()
        if c == 1:
            return a
    return ("lin", tuple(sorted(atoms.items(), key=lambda kv: key(kv[0]))), const)


def lin_add(a: Term, b: Term, sign: int = 1) -> Term:
    pa, ca = lin_parts(a)
    pb, cb = lin_parts(b)
    for k, v in pb.items():
        pa[k] = pa.get(k, 0) + sign * v
    return mk_lin(pa, ca + sign * cb)


def lin_scale(a: Term, k: int) -> Term:
    pa, ca = lin_parts(a)
    return mk_lin({x: c * k for x, c in pa.items()}, ca * k)


def mk_cmpz(op: str, d: Term) -> Term:
    """canonical `d op 0` with the leading atom's coefficient positive."""
    atoms, c = lin_parts(d)
    if not atoms:
        res = {"<": c < 0, "<=": c <= 0, ">": c > 0, ">=": c >= 0, "==": c == 0, "!=": c != 0}[op]
        return C(res)
    lead = sorted(atoms.items(), key=lambda kv: key(kv[0]))[0]
    if lead[1] < 0:
        d = lin_scale(d, -1)
        op = {"<": ">", "<=": ">=", ">": "<", ">=": "<=", "==": "==", "!=": "!="}[op]
    # a length is never negative: len(x) <= 0 is len(x) == 0, len(x) > 0 is len(x) != 0
    atoms, c = lin_parts(d)
    if c == 0 and len(atoms) == 1:
        (a0, k0), = atoms.items()
        if k0 == 1 and a0[0] == "call" and a0[1] == ("g", "builtin:len"):
            if op == "<=":
                op = "=="
            elif op == ">":
                op = "!="
            elif op == "<":
                return C(False)
            elif op == ">=":
                return C(True)
    return ("cmpz", op, d)


NEG_OP = {"==": "!=", "!=": "==", "in": "notin", "notin": "in", "is": "isnot", "isnot": "is"}
NEGZ = {"<": ">=", "<=": ">", ">": "<=", ">=": "<", "==": "!=", "!=": "=="}


def mk_not(t: Term) -> Term:
    k = t[0]
    if k == "c":
        return C(not t[1])
    if k == "not":
        return t[1]
    if k == "cmpz":
        return ("cmpz", NEGZ[t[1]], t[2])
    if k == "cmp":
        op, a, b = t[1], t[2], t[3]
        if op in NEG_OP:
            return ("cmp", NEG_OP[op], a, b)
        if op == "<":      # not (a < b)  ==  b <= a
            return ("cmp", "<=", b, a)
        if op == "<=":     # not (a <= b) ==  b < a
            return ("cmp", "<", b, a)
    if k == "and":
        return mk_or([mk_not(x) for x in t[1]])
    if k == "or":
        return mk_and([mk_not(x) for x in t[1]])
    return ("not", t)


def _flat(kind: str, xs: List[Term]) -> List[Term]:
    out: List[Term] = []
    for x in xs:
        if x[0] == kind:
            out.extend(x[1])
        else:
            out.append(x)
    return out


def mk_and(xs: List[Term]) -> Term:
    xs = _flat("and", xs)
    xs = [x for x in xs if x != C(True)]
    if any(x == C(False) for x in xs):
        return C(False)
    uniq = sorted(set(xs), key=key)
    if not uniq:
        return C(True)
    if len(uniq) == 1:
        return uniq[0]
    return ("and", tuple(uniq))


def mk_or(xs: List[Term]) -> Term:
    xs = _flat("or", xs)
    xs = [x for x in xs if x != C(False)]
    if any(x == C(True) for x in xs):
        return C(True)
    uniq = sorted(set(xs), key=key)
    if not uniq:
        return C(False)
    if len(uniq) == 1:
        return uniq[0]
    return ("or", tuple(uniq))


def assume(t: Term, facts: Any) -> Term:
    """simplify the condition `t` given a set of conditions known to hold (literal matching only)"""
    if t in facts:
        return C(True)
    if mk_not(t) in facts:
        return C(False)
    if t[0] == "and":
        return mk_and([assume(x, facts) for x in t[1]])
    if t[0] == "or":
        return mk_or([assume(x, facts) for x in t[1]])
    return t


def is_map_get(x: Term) -> bool:
    return x[0] == "call" and x[1][0] == "a" and x[1][2] == "get" and not x[3] and len(x[2]) >= 1


def refine_lookups(t: Any, fact: Term) -> Any:
    """given `k in m`: m.get(k) / m.get(k, None) is m[k]"""
    maps = {}
    for c in conjuncts(fact):
        if c[0] == "cmp" and c[1] == "in":
            k_, m_ = c[2], c[3]
            maps[("call", ("a", m_, "get"), (k_,), ())] = ("s", m_, k_)
            maps[("call", ("a", m_, "get"), (k_, C(None)), ())] = ("s", m_, k_)
    if not maps or not isinstance(t, tuple):
        return t
    return substitute(t, maps) if any(x in maps for x in subterms(t)) else t


def mk_sub(base: Term, idx: Term) -> Term:
    """subscript; a constant position of a loop element is the same thing as unpacking the element in the loop header"""
    if is_int_const(idx) and base[0] in ("tuple", "list") and -len(base[1]) <= idx[1] < len(base[1]):
        return base[1][idx[1]]          # a position of a display
    if is_int_const(idx) and base[0] == "ife" and len(base) == 4 and all(b_[0] in ("tuple", "list") and -len(b_[1]) <= idx[1] < len(b_[1]) for b_ in base[2:4]):
        a_, b_ = base[2][1][idx[1]], base[3][1][idx[1]]
        return a_ if a_ == b_ else ("ife", base[1], a_, b_)
    if base[0] == "e" and len(base) == 3 and is_int_const(idx) and idx[1] >= 0:
        if base[2] == "elem":
            return ("e", base[1], idx[1])
        if isinstance(base[2], int) and not isinstance(base[2], bool):
            return ("e", base[1], (base[2], idx[1]))
    return ("s", base, idx)


def conjuncts(t: Term) -> List[Term]:
    return list(t[1]) if t[0] == "and" else [t]


def disjuncts(t: Term) -> List[Term]:
    return list(t[1]) if t[0] == "or" else [t]


# --------------------------------------------------------------------------- traversal helpers
def subterms(t: Any):
    if isinstance(t, tuple):
        if t and isinstance(t[0], str):
            yield t
        for x in t:
            if isinstance(x, tuple):
                yield from subterms(x)


def mentions(t: Term, sub: Term) -> bool:
    return any(x == sub for x in subterms(t))


def free_vars(t: Term) -> set:
    return {x[1] for x in subterms(t) if x[0] == "v"}


def substitute(t: Any, mapping: Dict[Term, Term]) -> Any:
    """replace sub-terms; linear forms, integer comparisons and boolean connectives are re-canonicalised afterwards"""
    if isinstance(t, tuple):
        if t in mapping:
            return mapping[t]
        k = t[0] if t else None
        if k == "lin" and len(t) == 3 and isinstance(t[2], int):
            acc: Term = C(t[2])
            for a, c in t[1]:
                acc = lin_add(acc, lin_scale(substitute(a, mapping), c))
            return acc
        if k == "cmpz" and len(t) == 3:
            return mk_cmpz(t[1], substitute(t[2], mapping))
        if k == "cat" and len(t) == 2:
            parts = [substitute(x, mapping) for x in t[1]]
            if any(p[0] == "lin" or is_int_const(p) or (p[0] == "call" and p[1] == ("g", "builtin:len")) for p in parts):
                acc = C(0)           # `+` with an integer operand is integer addition
                for p in parts:
                    acc = lin_add(acc, p)
                return acc
            return ("cat", tuple(parts))
        if k == "and" and len(t) == 2:
            return mk_and([substitute(x, mapping) for x in t[1]])
        if k == "or" and len(t) == 2:
            return mk_or([substitute(x, mapping) for x in t[1]])
        return tuple(substitute(x, mapping) for x in t)
    return t


def root_of(t: Term) -> Optional[Term]:
    """root variable of an access path a.b[c].d"""
    while t[0] in ("a", "s", "sl"):
        t = t[1]
    if t[0] == "call" and t[1][0] == "a":
        return root_of(t[1][1])
    return t if t[0] in ("v", "e", "lv") else None


# --------------------------------------------------------------------------- pretty printer
def show(t: Any) -> str:
    if not isinstance(t, tuple) or not t:
        return repr(t)
    k = t[0]
    if k == "c":
        v = t[1]
        if isinstance(v, bytes) and len(v) > 8:
            if len(set(v)) == 1:
                return "%d*%r" % (len(v), v[:1])
            return "bytes[%d]:%s.." % (len(v), v[:6].hex())
        if isinstance(v, int) and not isinstance(v, bool) and abs(v) >= 1 << 64:
            bl = v.bit_length()
            if v == (1 << bl) - 1:
                return "2**%d-1" % bl
            return "int[%dbit]" % bl
        return repr(v)
    if k == "v":
        return t[1]
    if k == "g":
        return t[1].split(":")[-1].replace("skepticoin.", "")
    if k == "a":
        return "%s.%s" % (show(t[1]), t[2])
    if k == "s":
        return "%s[%s]" % (show(t[1]), show(t[2]))
    if k == "sl":
        return "%s[%s:%s%s]" % (show(t[1]), "" if t[2] is None else show(t[2]), "" if t[3] is None else show(t[3]),
                                "" if t[4] is None else ":" + show(t[4]))
    if k == "call":
        args = [show(a) for a in t[2]] + ["%s=%s" % (n, show(v)) for n, v in t[3] if n != "#"]
        tag = [v for n, v in t[3] if n == "#"]
        if tag:
            return "%s(%s)#%s" % (show(t[1]), ", ".join(args), tag[0][1])
        return "%s(%s)" % (show(t[1]), ", ".join(args))
    if k == "cmp":
        op = {"notin": "not in", "isnot": "is not"}.get(t[1], t[1])
        return "%s %s %s" % (show(t[2]), op, show(t[3]))
    if k == "cmpz":
        return "%s %s 0" % (show(t[2]), t[1])
    if k == "not":
        return "not (%s)" % show(t[1])
    if k in ("and", "or"):
        return "(" + (" %s " % k).join(show(x) for x in t[1]) + ")"
    if k == "vor":
        return "(" + " or ".join(show(x) for x in t[1]) + ")"
    if k == "lin":
        parts = []
        for a, c in t[1]:
            s = show(a)
            if c == 1:
                parts.append("+ " + s)
            elif c == -1:
                parts.append("- " + s)
            else:
                parts.append("%s %d*%s" % ("+" if c > 0 else "-", abs(c), s))
        if t[2]:
            parts.append("%s %d" % ("+" if t[2] > 0 else "-", abs(t[2])))
        s = " ".join(parts)
        return "(" + (s[2:] if s.startswith("+ ") else s) + ")"
    if k == "mul":
        return "(" + " * ".join(show(x) for x in t[1]) + ")"
    if k == "cat":
        return "(" + " ++ ".join(show(x) for x in t[1]) + ")"
    if k == "op":
        sym = {"floordiv": "//", "mod": "%", "pow": "**", "div": "/", "lshift": "<<", "rshift": ">>", "bitand": "&", "bitor": "|",
               "bitxor": "^"}.get(t[1], t[1])
        return "(%s %s %s)" % (show(t[2]), sym, show(t[3]))
    if k == "neg":
        return "-%s" % show(t[1])
    if k == "e":
        return "⟨%s∈%s⟩" % (t[2], show(t[1]))
    if k == "sum":
        return "Σ[%s | %s]" % (show(t[1]), "; ".join(_show_gen(g) for g in t[2]))
    if k == "comp":
        return "%s[%s | %s]" % (t[1], show(t[2]), "; ".join(_show_gen(g) for g in t[3]))
    if k == "first":
        return "first⟨∈%s: %s; else %s⟩" % (show(t[1]), "; ".join("%s → %s" % (show(c), show(v)) for c, v in t[2]), show(t[3]))
    if k == "ife":
        return "(%s if %s else %s)" % (show(t[2]), show(t[1]), show(t[3]))
    if k in ("tuple", "list", "set"):
        br = {"tuple": "()", "list": "[]", "set": "{}"}[k]
        return br[0] + ", ".join(show(x) for x in t[1]) + br[1]
    if k == "dict":
        return "{" + ", ".join("%s: %s" % (show(a), show(b)) for a, b in t[1]) + "}"
    if k == "lv":
        return "%s~" % t[1]
    if k == "new":
        return "new_%s#%d" % (t[1], t[2])
    if k == "opaque":
        return "«%s»" % t[1]
    if k == "lam":
        return "λ(%s)" % show(t[2])
    return repr(t)


def _show_gen(g: Tuple[Any, ...]) -> str:
    it, conds = g
    s = "∀∈" + show(it)
    if conds:
        s += " if " + " and ".join(show(c) for c in conds)
    return s


# --------------------------------------------------------------------------- types
class Typer:
    """Annotation-driven light types. Never imports the repository."""

    def __init__(self, repo: Repo):
        self.repo = repo
        self._attr_cache: Dict[Tuple[str, str], Type] = {}
        self._alias_cache: Optional[Dict[str, Tuple[str, ...]]] = None
        self._in_attr: set = set()

    # annotation -> Type
    def parse_ann(self, node: Optional[ast.AST], m: Module, func: Optional[FuncInfo] = None) -> Type:
        if node is None:
            return None
        if isinstance(node, ast.Constant):
            if isinstance(node.value, str):
                try:
                    return self.parse_ann(ast.parse(node.value, mode="eval").body, m, func)
                except SyntaxError:
                    return None
            if node.value is None:
                return ("P", "none")
            return None
        if isinstance(node, ast.Name):
            if node.id in ("int", "bytes", "str", "bool", "float"):
                return ("P", node.id)
            if node.id in ("Any", "object"):
                return None
            r = self.repo.resolve_name(m, node.id, func)
            if r:
                if r[0] == "cls":
                    return ("C", r[1])
                if r[0] == "ext":
                    return ("X", r[1])
            return None
        if isinstance(node, ast.Attribute):
            r = self.repo.resolve_name_node(m, node, func)
            if r and r[0] == "cls":
                return ("C", r[1])
            d = dotted(node)
            return ("X", d) if d else None
        if isinstance(node, ast.Subscript):
            head = dotted(node.value) or ""
            head = head.split(".")[-1]
            sl = node.slice
            elts = list(sl.elts) if isinstance(sl, ast.Tuple) else [sl]
            if head in ("List", "Sequence", "Iterator", "Iterable", "Set", "FrozenSet", "Generator", "list", "set"):
                return ("L", self.parse_ann(elts[0], m, func))
            if head in ("Dict", "Mapping", "Map", "dict", "MutableMapping"):
                if len(elts) == 2:
                    return ("M", self.parse_ann(elts[0], m, func), self.parse_ann(elts[1], m, func))
                return ("M", None, None)
            if head == "Optional":
                return self.parse_ann(elts[0], m, func)
            if head == "Union":
                ts = tuple(self.parse_ann(e, m, func) for e in elts)
                ts = tuple(t for t in ts if t is not None and t != ("P", "none"))
                if len(ts) == 1:
                    return ts[0]
                return ("U", ts) if ts else None
            if head in ("Tuple", "tuple"):
                return ("T", tuple(self.parse_ann(e, m, func) for e in elts))
            if head == "Type":
                t = self.parse_ann(elts[0], m, func)
                return ("K", t[1]) if t and t[0] == "C" else None
            if head == "Callable":
                return None
        return None

    # Block.__getattr__ aliases, read from its own source (through the summariser, so local aliases and named constants are fine)
    def block_aliases(self) -> Dict[str, Tuple[str, ...]]:
        if self._alias_cache is not None:
            return self._alias_cache
        self._alias_cache = {}          # while computing: no aliases (also guards against recursion)
        out: Dict[str, Tuple[str, ...]] = {}
        q = "skepticoin.datatypes.Block.__getattr__"
        fi = self.repo.functions.get(q)
        if fi is not None and len(fi.params) == 2:
            try:
                from .walker import Walker
                summ = Walker(self.repo, 0, typer=self).summary(q, 0)
                selfv, attrv = ("v", fi.params[0]), ("v", fi.params[1])
                for r in summ.returns():
                    t = r.term
                    if not (t[0] == "call" and t[1] == ("g", "builtin:getattr") and len(t[2]) == 2 and t[2][1] == attrv):
                        continue
                    path: List[str] = []
                    x = t[2][0]
                    while x[0] == "a":
                        path.append(x[2])
                        x = x[1]
                    if x != selfv:
                        continue
                    names: List[str] = []
                    for c in r.pc:
                        ct = c.term
                        if c.prov == "branch" and ct[0] == "cmp" and ct[1] == "in" and ct[2] == attrv:
                            coll = ct[3]
                            vals = None
                            if coll[0] in ("list", "tuple", "set"):
                                vals = [e[1] for e in coll[1] if e[0] == "c"]
                            elif coll[0] == "g":
                                ok, v = self.repo.try_const(coll[1])
                                if ok and isinstance(v, (list, tuple, set, frozenset)):
                                    vals = list(v)
                            if vals:
                                names = [v for v in vals if isinstance(v, str)]
                        elif c.prov == "branch":
                            # the same membership test written out (or normalised) as a chain of equalities
                            ds = list(ct[1]) if ct[0] == "or" else [ct]
                            if ds and all(d[0] == "cmp" and d[1] == "==" and attrv in (d[2], d[3]) for d in ds):
                                vals2 = [(d[3] if d[2] == attrv else d[2]) for d in ds]
                                if all(v[0] == "c" and isinstance(v[1], str) for v in vals2):
                                    names = [v[1] for v in vals2]
                    for n in names:
                        out[n] = tuple(reversed(path))
            except Exception:
                out = {}
        self._alias_cache = out
        self._attr_cache.clear()
        return out

    def attr_type(self, cls_q: str, attr: str) -> Type:
        ck = (cls_q, attr)
        if ck in self._attr_cache:
            return self._attr_cache[ck]
        if ck in self._in_attr:
            return None
        self._in_attr.add(ck)
        try:
            t = self._attr_type(cls_q, attr)
        finally:
            self._in_attr.discard(ck)
        self._attr_cache[ck] = t
        return t

    def _attr_type(self, cls_q: str, attr: str) -> Type:
        repo = self.repo
        for cq in repo.mro(cls_q):
            ci = repo.classes[cq]
            if attr in ci.methods:
                mi = ci.methods[attr]
                if mi.is_property:
                    return self.parse_ann(mi.node.returns, mi.module, mi)  # type: ignore
                return ("F", mi.qualname)
            # self.<attr> stores in methods (constructor first)
            methods = sorted(ci.methods.values(), key=lambda f: (f.name != "__init__", f.name))
            for mi in methods:
                if not mi.params:
                    continue
                selfname = mi.params[0]
                for st in ast.walk(mi.node):
                    tgt = val = ann = None
                    if isinstance(st, ast.AnnAssign):
                        tgt, val, ann = st.target, st.value, st.annotation
                    elif isinstance(st, ast.Assign) and len(st.targets) == 1:
                        tgt, val = st.targets[0], st.value
                    if not (isinstance(tgt, ast.Attribute) and isinstance(tgt.value, ast.Name)
                            and tgt.value.id == selfname and tgt.attr == attr):
                        continue
                    if ann is not None:
                        t = self.parse_ann(ann, mi.module, mi)
                        if t is not None:
                            return t
                    if isinstance(val, ast.Name) and val.id in mi.params:
                        t = self.parse_ann(mi.param_annotation(val.id), mi.module, mi)
                        if t is not None:
                            return t
                    if val is not None:
                        t = self._value_type(val, mi)
                        if t is not None:
                            return t
            if attr in ci.class_attrs:
                t = self._value_type(ci.class_attrs[attr], None, ci.module)
                if t is not None:
                    return t
        if cls_q == "skepticoin.datatypes.Block":
            al = self.block_aliases()
            if attr in al:
                t: Type = ("C", cls_q)
                for step in al[attr] + (attr,):
                    if t is None or t[0] != "C":
                        return None
                    t = self.attr_type(t[1], step)
                return t
        return None

    def _value_type(self, val: ast.AST, fi: Optional[FuncInfo], m: Optional[Module] = None, _depth: int = 0) -> Type:
        m = m or (fi.module if fi else None)
        if m is None:
            return None
        if isinstance(val, ast.Constant):
            v = val.value
            for py, nm in ((bool, "bool"), (int, "int"), (bytes, "bytes"), (str, "str"), (float, "float")):
                if isinstance(v, py):
                    return ("P", nm)
            return None
        if isinstance(val, ast.Call):
            r = self.repo.resolve_name_node(m, val.func, fi)
            if r and r[0] == "cls":
                return ("C", r[1])
            if r and r[0] == "fn":
                f2 = self.repo.functions[r[1]]
                return self.parse_ann(f2.node.returns, f2.module, f2)  # type: ignore
            if r and r[0] == "ext":
                return ("X", r[1])
            if isinstance(val.func, ast.Name) and val.func.id == "set":
                return ("L", None)
        if isinstance(val, (ast.List, ast.ListComp)):
            return ("L", None)
        if isinstance(val, (ast.Dict, ast.DictComp)):
            return ("M", None, None)
        if isinstance(val, ast.JoinedStr):
            return P_STR
        if isinstance(val, ast.Name) and fi is not None and _depth < 3:
            # a local that is assigned once in the function: the type of what it was assigned
            if val.id in fi.params:
                return self.parse_ann(fi.param_annotation(val.id), fi.module, fi)
            defs = []
            for st in ast.walk(fi.node):
                if isinstance(st, ast.Assign) and len(st.targets) == 1 and isinstance(st.targets[0], ast.Name) and st.targets[0].id == val.id:
                    defs.append((None, st.value))
                elif isinstance(st, ast.AnnAssign) and isinstance(st.target, ast.Name) and st.target.id == val.id:
                    defs.append((st.annotation, st.value))
            if len(defs) == 1:
                ann, v = defs[0]
                if ann is not None:
                    t = self.parse_ann(ann, fi.module, fi)
                    if t is not None:
                        return t
                if v is not None:
                    return self._value_type(v, fi, m, _depth + 1)
        return None

    def elem_type(self, t: Type, role: Any = "elem") -> Type:
        if t is None:
            return None
        if t[0] == "L":
            return t[1] if role in ("elem",) else (P_INT if role == "idx" else None)
        if t[0] == "M":
            if role in ("elem", "key"):
                return t[1]
            if role == "val":
                return t[2]
        if role == "idx":
            return P_INT
        return None


# --------------------------------------------------------------------------- normaliser
class Scope:
    """Name environment for one function activation."""

    def __init__(self, module: Module, func: Optional[FuncInfo], env: Optional[Dict[str, Term]] = None,
                 types: Optional[Dict[str, Type]] = None, outer: Optional["Scope"] = None):
        self.module = module
        self.func = func
        self.env: Dict[str, Term] = dict(env or {})
        self.types: Dict[str, Type] = dict(types or {})
        self.outer = outer  # closure scope

    def lookup(self, name: str) -> Optional[Term]:
        s: Optional[Scope] = self
        while s is not None:
            if name in s.env:
                return s.env[name]
            s = s.outer
        return None

    def var_type(self, name: str) -> Type:
        s: Optional[Scope] = self
        while s is not None:
            if name in s.types:
                return s.types[name]
            s = s.outer
        return None

    def copy(self) -> "Scope":
        return Scope(self.module, self.func, self.env, self.types, self.outer)


def dotted_name(node: ast.AST) -> Optional[str]:
    if isinstance(node, ast.Name):
        return node.id
    if isinstance(node, ast.Attribute):
        b = dotted_name(node.value)
        return None if b is None else b + "." + node.attr
    return None


class Norm:
    def __init__(self, repo: Repo, typer: Optional[Typer] = None):
        self.repo = repo
        self.typer = typer or Typer(repo)
        self.var_types: Dict[Term, Type] = {}   # types of free-variable terms (by term)
        self.on_call: Optional[Callable[[Term, ast.Call, Scope, Any], Optional[Term]]] = None
        self.on_yield: Optional[Callable[[Term, ast.AST], None]] = None
        self.on_property: Optional[Callable[[Term, Any, ast.AST, Scope], Optional[Term]]] = None   # read of a @property attribute
        self.guard_stack: List[Term] = []      # conditions under which the sub-expression being normalised is evaluated (and/or/if-else)
        self.comp_stack: List[Tuple[Term, Tuple[Term, ...]]] = []
        self._lv = 0
        self.lv_init: Dict[Term, Term] = {}     # loop-carried variable -> value of the name when the loop was entered / left

    # ------------------------------------------------------------ types of terms
    def type_of(self, t: Term, scope: Optional[Scope] = None) -> Type:
        k = t[0]
        ty = self.typer
        if t in self.var_types:
            return self.var_types[t]
        if k == "c":
            v = t[1]
            for py, nm in ((bool, "bool"), (int, "int"), (bytes, "bytes"), (str, "str"), (float, "float")):
                if isinstance(v, py):
                    return ("P", nm)
            return None
        if k == "v":
            return scope.var_type(t[1]) if scope else None
        if k == "g":
            ref = t[1]
            if ref in self.repo.classes:
                return ("K", ref)
            if ref in self.repo.functions:
                return ("F", ref)
            return None
        if k == "a":
            bt = self.type_of(t[1], scope)
            return self._attr_of_type(bt, t[2])
        if k == "s":
            bt = self.type_of(t[1], scope)
            if bt is None:
                return None
            if bt[0] == "L":
                return bt[1]
            if bt[0] == "M":
                return bt[2]
            if bt[0] == "T" and is_int_const(t[2]) and 0 <= t[2][1] < len(bt[1]):
                return bt[1][t[2][1]]
            if bt[0] == "P" and bt[1] == "bytes":
                return P_INT
            return None
        if k == "sl":
            return self.type_of(t[1], scope)
        if k == "e":
            it = self.type_of(t[1], scope)
            return ty.elem_type(it, t[2])
        if k in ("lin", "mul", "neg", "sum"):
            return P_INT
        if k == "op":
            return P_INT if t[1] in ("floordiv", "mod", "pow", "lshift", "rshift", "bitand", "bitor", "bitxor") else None
        if k in ("cmp", "cmpz", "not", "and", "or"):
            return P_BOOL
        if k == "cat":
            for x in t[1]:
                tx = self.type_of(x, scope)
                if tx is not None:
                    return tx
            return None
        if k == "new":
            return ("M", None, None) if t[1] == "dict" else ("L", None)
        if k in ("list", "comp"):
            if k == "comp" and t[1] == "dict":
                return ("M", None, None)
            el = None
            if k == "list" and t[1]:
                el = self.type_of(t[1][0], scope)
            elif k == "comp":
                el = self.type_of(t[2], scope)
            return ("L", el)
        if k == "ife":
            return self.type_of(t[2], scope) or self.type_of(t[3], scope)
        if k == "call":
            return self._call_type(t, scope)
        return None

    def _attr_of_type(self, bt: Type, attr: str) -> Type:
        if bt is None:
            return None
        if bt[0] == "C":
            return self.typer.attr_type(bt[1], attr)
        if bt[0] == "U":
            for x in bt[1]:
                r = self._attr_of_type(x, attr)
                if r is not None:
                    return r
        if bt[0] == "K":   # class object: classmethods / class attributes
            return self.typer.attr_type(bt[1], attr)
        return None

    def _call_type(self, t: Term, scope: Optional[Scope]) -> Type:
        f = t[1]
        if f == ("g", "builtin:super") and not t[2] and scope is not None:
            fn = scope.func
            while fn is not None and fn.cls is None:
                fn = fn.parent
            if fn is not None and fn.cls is not None:
                mro = self.repo.mro(fn.cls.qualname)
                if len(mro) > 1 and mro[1] in self.repo.classes:
                    return ("C", mro[1])
            return None
        if f[0] == "g":
            ref = f[1]
            if ref in self.repo.classes:
                return ("C", ref)
            if ref in self.repo.functions:
                fi = self.repo.functions[ref]
                return self.typer.parse_ann(fi.node.returns, fi.module, fi)  # type: ignore
            if ref.startswith("builtin:"):
                b = ref[8:]
                if b in ("len", "int", "sum", "pow", "abs", "hash", "min", "max"):
                    return P_INT
                if b in ("list", "sorted", "reversed", "set", "tuple") and t[2]:
                    at = self.type_of(t[2][0], scope)
                    if at and at[0] == "L":
                        return at
                    if at and at[0] == "M":
                        return ("L", at[1])
                    return ("L", None)
                if b == "str":
                    return P_STR
                if b == "bytes":
                    return P_BYTES
                if b == "enumerate" and t[2]:
                    at = self.type_of(t[2][0], scope)
                    return ("L", ("T", (P_INT, self.typer.elem_type(at))))
                if b == "int.from_bytes":
                    return P_INT
                if b == "isinstance":
                    return P_BOOL
            if ref == "ext:random.choice" and t[2]:
                return self.typer.elem_type(self.type_of(t[2][0], scope))
            if ref.startswith("ext:"):
                return ("X", ref[4:] + "()")
            return None
        if f[0] == "a":
            recv, name = f[1], f[2]
            rt = self.type_of(recv, scope)
            if rt is None:
                return None
            if rt[0] in ("C", "K", "U"):
                mt = self._attr_of_type(rt, name)
                if mt and mt[0] == "F":
                    fi = self.repo.functions[mt[1]]
                    r = self.typer.parse_ann(fi.node.returns, fi.module, fi)  # type: ignore
                    if r is None and fi.is_classmethod and rt[0] == "K":
                        return ("C", rt[1])
                    return r
                return None
            if rt[0] == "M":
                if name == "values":
                    return ("L", rt[2])
                if name == "keys":
                    return ("L", rt[1])
                if name == "items":
                    return ("L", ("T", (rt[1], rt[2])))
                if name in ("get", "pop"):
                    return rt[2]
                if name in ("set", "delete", "finish", "mutate", "update", "copy"):
                    return rt
            if rt[0] == "L":
                if name == "pop":
                    return rt[1]
                if name == "copy":
                    return rt
            if rt[0] == "P":
                if rt[1] == "int" and name == "to_bytes":
                    return P_BYTES
                if rt[1] == "int" and name == "bit_length":
                    return P_INT
        return None

    def is_numeric(self, t: Term, scope: Optional[Scope]) -> Optional[bool]:
        """True: int-valued; False: known sequence/bytes; None: unknown."""
        if t[0] in ("lin", "mul", "neg", "sum") or is_int_const(t):
            return True
        if t[0] == "op" and t[1] in ("floordiv", "mod", "pow", "lshift", "rshift"):
            return True
        if t[0] in ("list", "comp", "cat", "tuple", "new"):
            return False
        ty = self.type_of(t, scope)
        if ty is None:
            return None
        if ty == P_INT or ty == ("P", "float"):
            return True
        if ty[0] in ("L", "M", "T") or ty in (P_BYTES, P_STR):
            return False
        return None

    # ------------------------------------------------------------ names
    def name_term(self, name: str, scope: Scope) -> Term:
        v = scope.lookup(name)
        if v is not None:
            return v
        r = self.repo.resolve_name(scope.module, name, scope.func)
        if r is not None:
            return self.global_term(r)
        if name in BUILTINS:
            return ("g", "builtin:" + name)
        return ("v", name)

    def global_term(self, r: Tuple[str, str]) -> Term:
        kind, q = r
        if kind == "const":
            ok, v = self.repo.try_const(q)
            if ok and isinstance(v, (int, bytes, str, bool, float, type(None))):
                return C(v)
            t = self.new_constant_term(q)
            if t is not None:
                return t
            return ("g", q)
        if kind == "mod":
            return ("g", "mod:" + q)
        if kind == "ext":
            return ("g", "ext:" + q)
        return ("g", q)

    _PURE_CALLS = {"list", "tuple", "range", "pow", "len", "frozenset", "set", "dict", "sorted", "min", "max", "int", "bytes", "str", "reversed",
                   "Struct", "itemgetter", "attrgetter", "bytearray", "enumerate", "zip", "sum", "abs"}

    def new_constant_term(self, q: str) -> Optional[Term]:
        """a module-level name that did not exist in the recorded tree and is bound once to a pure expression (a table, a precompiled
        struct, a tuple of names): the name denotes that expression - the counterpart, for values, of helpers extracted later"""
        known = self.__dict__.get("_api_globals")
        if known is None:
            import json
            import os
            p_ = os.path.join(os.path.dirname(os.path.dirname(os.path.dirname(os.path.abspath(__file__)))), "reference", "api_globals.json")
            try:
                known = set(json.load(open(p_)))
            except OSError:
                known = False
            self.__dict__["_api_globals"] = known
        if known is False or q in known:
            return None
        cache = self.__dict__.setdefault("_new_const_terms", {})
        if q in cache:
            return cache[q]
        cache[q] = None
        modname, _, name = q.rpartition(".")
        m = self.repo.modules.get(modname)
        node = m.assign_nodes.get(name) if m is not None else None
        if node is None:
            return None
        n_assign = sum(1 for st in ast.walk(m.tree) if isinstance(st, (ast.Assign, ast.AnnAssign, ast.AugAssign))
                       for tg in (st.targets if isinstance(st, ast.Assign) else [st.target]) if isinstance(tg, ast.Name) and tg.id == name)
        if n_assign != 1:
            return None
        # NAME = lru_cache(..)(f): f, remembered - the same function as far as values go
        if isinstance(node, ast.Call) and isinstance(node.func, ast.Call) and (dotted_name(node.func.func) or "").split(".")[-1] in ("lru_cache", "cache") \
                and len(node.args) == 1 and not node.keywords and isinstance(node.args[0], (ast.Name, ast.Attribute)):
            t = self.norm(node.args[0], Scope(m, None))
            cache[q] = t
            return t
        for sub in (ast.walk(node) if not isinstance(node, ast.Lambda) else []):       # (NAME = lambda ..: a function under another spelling)
            if isinstance(sub, ast.Call):
                fn = dotted_name(sub.func) or ""
                if fn.split(".")[-1] not in self._PURE_CALLS:
                    return None
            elif isinstance(sub, (ast.Lambda, ast.Await, ast.Yield, ast.YieldFrom, ast.NamedExpr, ast.Starred)):
                return None
        saved = self.on_call, self.on_property
        self.on_call = self.on_property = None
        try:
            t = self.norm(node, Scope(m, None))
        finally:
            self.on_call, self.on_property = saved
        cache[q] = t
        return t

    def fresh_lv(self, name: str) -> Term:
        self._lv += 1
        return ("lv", name, self._lv)

    # ------------------------------------------------------------ main entry
    def norm(self, node: ast.AST, scope: Scope) -> Term:
        m = getattr(self, "n_" + type(node).__name__, None)
        if m is None:
            return ("opaque", self.repo.src(node)[:60])
        return m(node, scope)

    def n_Constant(self, node: ast.Constant, scope: Scope) -> Term:
        return C(node.value) if node.value is not Ellipsis else ("opaque", "...")

    def n_Name(self, node: ast.Name, scope: Scope) -> Term:
        return self.name_term(node.id, scope)

    def n_Attribute(self, node: ast.Attribute, scope: Scope) -> Term:
        if isinstance(node.value, ast.Name):
            hv = scope.lookup("@%s.%s" % (node.value.id, node.attr))
            if hv is not None:
                return hv
        base = self.norm(node.value, scope)
        if self.on_property is not None and isinstance(node.ctx, ast.Load):
            bt = self.type_of(base, scope)
            if bt and bt[0] == "C":
                mi = self.repo.find_method(bt[1], node.attr)
                if mi is not None and "property" in mi.decorators:
                    v = self.on_property(base, mi, node, scope)
                    if v is not None:
                        return v
        return self.mk_attr(base, node.attr, scope)

    def _nt_field(self, base: Term, attr: str) -> Optional[Term]:
        """field of a freshly built NamedTuple value: K(a, b).second  ->  b"""
        if base[0] == "call" and base[1][0] == "g" and len(base) == 4:
            fields = self.namedtuple_fields(base[1][1])
            if fields is not None and attr in fields and not any(k_ == "**" for k_, _ in base[3] if isinstance(k_, str)):
                i = fields.index(attr)
                if i < len(base[2]):
                    return base[2][i]
                kw = {k_: v for k_, v in base[3] if isinstance(k_, str)}
                if attr in kw:
                    return kw[attr]
        return None

    def mk_attr(self, base: Term, attr: str, scope: Optional[Scope]) -> Term:
        v_ = self._nt_field(base, attr)
        if v_ is not None:
            return v_
        if base[0] == "ife":
            a_, b_ = self._nt_field(base[2], attr), self._nt_field(base[3], attr)
            if a_ is not None and b_ is not None:
                return self.mk_ife(base[1], a_, b_)
        if attr == "size" and base[0] == "call" and base[1] == ("g", "ext:struct.Struct") and len(base[2]) == 1 and base[2][0][0] == "c":
            import struct as _struct
            try:
                return C(_struct.calcsize(base[2][0][1]))
            except Exception:
                pass
        if base[0] == "g":
            ref = base[1]
            if ref.startswith("mod:"):
                r = self.repo.resolve_symbol(ref[4:], attr)
                if r is not None:
                    return self.global_term(r)
            elif ref.startswith("ext:"):
                return ("g", ref + "." + attr)
            elif ref.startswith("builtin:"):
                return ("g", ref + "." + attr)
            elif ref in self.repo.classes:
                mi = self.repo.find_method(ref, attr)
                if mi is not None and (mi.is_classmethod or mi.is_staticmethod):
                    return ("a", base, attr)
        # Block.__getattr__ aliases
        bt = self.type_of(base, scope)
        if bt and bt[0] in ("C", "K") and bt[1] in self.repo.classes:
            cv = self.class_constant(bt[1], attr)
            if cv is not None:
                return cv
        if bt == ("C", "skepticoin.datatypes.Block"):
            al = self.typer.block_aliases()
            if attr in al and attr not in ("header", "transactions", "cached_hash"):
                t = base
                for step in al[attr]:
                    t = ("a", t, step)
                return ("a", t, attr)
        return ("a", base, attr)

    def n_Subscript(self, node: ast.Subscript, scope: Scope) -> Term:
        base = self.norm(node.value, scope)
        sl = node.slice
        if isinstance(sl, ast.Slice):
            lo = self.norm(sl.lower, scope) if sl.lower is not None else None
            hi = self.norm(sl.upper, scope) if sl.upper is not None else None
            st = self.norm(sl.step, scope) if sl.step is not None else None
            if lo == C(0):
                lo = None
            if base[0] == "c" and isinstance(base[1], (bytes, str)) and all(x is None or is_int_const(x) for x in (lo, hi, st)):
                g = lambda x: None if x is None else x[1]  # noqa
                return C(base[1][g(lo):g(hi):g(st)])
            return ("sl", base, lo, hi, st)
        idx = self.norm(sl, scope)
        if base[0] in ("tuple", "list") and is_int_const(idx) and -len(base[1]) <= idx[1] < len(base[1]):
            return base[1][idx[1]]
        return mk_sub(base, idx)

    def n_Tuple(self, node: ast.Tuple, scope: Scope) -> Term:
        return ("tuple", tuple(self.norm(e, scope) for e in node.elts))

    def n_List(self, node: ast.List, scope: Scope) -> Term:
        return ("list", tuple(self.norm(e, scope) for e in node.elts))

    def n_Set(self, node: ast.Set, scope: Scope) -> Term:
        return ("set", tuple(sorted((self.norm(e, scope) for e in node.elts), key=key)))

    def n_Dict(self, node: ast.Dict, scope: Scope) -> Term:
        items = []
        for k_, v_ in zip(node.keys, node.values):
            items.append((self.norm(k_, scope) if k_ is not None else ("opaque", "**"), self.norm(v_, scope)))
        return ("dict", tuple(items))

    def n_JoinedStr(self, node: ast.JoinedStr, scope: Scope) -> Term:
        parts = []
        for v in node.values:
            if isinstance(v, ast.FormattedValue):
                parts.append(self.norm(v.value, scope))
            elif isinstance(v, ast.Constant):
                parts.append(C(v.value))
        return ("call", ("g", "builtin:fstr"), tuple(parts), ())

    def n_Starred(self, node: ast.Starred, scope: Scope) -> Term:
        return ("call", ("g", "builtin:star"), (self.norm(node.value, scope),), ())

    def n_UnaryOp(self, node: ast.UnaryOp, scope: Scope) -> Term:
        v = self.norm(node.operand, scope)
        if isinstance(node.op, ast.Not):
            return mk_not(self.truth(v, scope))
        if isinstance(node.op, ast.USub):
            return lin_scale(v, -1)
        if isinstance(node.op, ast.UAdd):
            return v
        return ("op", "invert", v, C(None))

    def as_cond(self, v: Term) -> Term:
        return v

    def truth(self, v: Term, scope: Optional[Scope]) -> Term:
        """the condition `v` stands for in a test position: for a value known to be bytes / str / list / dict it is `len(v) != 0`"""
        if v[0] == "vor":
            return mk_or([self.truth(x, scope) for x in v[1]])      # as a condition the order of the alternatives does not matter
        if v[0] in ("cmp", "cmpz", "and", "or", "not", "c", "call") and not (v[0] == "call" and v[1][0] == "a"):
            return v
        ty = self.type_of(v, scope)
        if ty in (P_BYTES, P_STR) or (ty and ty[0] in ("L", "M")):
            return self.mk_cmp_s("!=", ("call", ("g", "builtin:len"), (v,), ()), C(0), scope)
        return v

    def n_BoolOp(self, node: ast.BoolOp, scope: Scope) -> Term:
        vals = []
        n0 = len(self.guard_stack)
        try:
            for v in node.values:
                t = self.as_cond(self.norm(v, scope))
                vals.append(t)
                # short-circuit: the next operand is evaluated only if this one was true (and) / false (or)
                self.guard_stack.append(t if isinstance(node.op, ast.And) else mk_not(t))
        finally:
            del self.guard_stack[n0:]
        if isinstance(node.op, ast.And):
            return mk_and(vals)
        return self.mk_value_or(vals)

    def mk_value_or(self, vals: Sequence[Term]) -> Term:
        """`a or b` as a VALUE is the first true operand: order matters unless every operand is a condition"""
        if all(self._boolish(v, self) for v in vals):
            return mk_or(list(vals))
        flat: List[Term] = []
        for v in vals:
            for x in (v[1] if v[0] == "vor" else (v,)):
                if not flat or flat[-1] != x:
                    flat.append(x)
        return flat[0] if len(flat) == 1 else ("vor", tuple(flat))

    def n_IfExp(self, node: ast.IfExp, scope: Scope) -> Term:
        c = self.truth(self.norm(node.test, scope), scope)
        self.guard_stack.append(c)
        try:
            a = self.norm(node.body, scope)
        finally:
            self.guard_stack.pop()
        self.guard_stack.append(mk_not(c))
        try:
            b = self.norm(node.orelse, scope)
        finally:
            self.guard_stack.pop()
        return self.mk_ife(c, a, b)

    def mk_ife(self, c: Term, a: Term, b: Term) -> Term:
        a, b = _decided(a, c, True), _decided(b, c, False)      # a nested test of the same condition is already decided
        if a == b:
            return a
        if c == C(True):
            return a
        if c == C(False):
            return b
        # `D if k not in m else m[k]` (or m.get(k)) is m.get(k, D)
        if c[0] == "cmp" and c[1] in ("in", "notin"):
            dflt, val = (a, b) if c[1] == "notin" else (b, a)
            k_, m_ = c[2], c[3]
            if val in (("s", m_, k_), ("call", ("a", m_, "get"), (k_,), ()), ("call", ("a", m_, "get"), (k_, C(None)), ())):
                return ("call", ("a", m_, "get"), (k_, dflt), ())
        # `x if x else y` is `x or y`; `y if not x else x` likewise; `x if not x else y` is `x and y`
        if c == a:
            return self.mk_value_or([a, b])
        if c == mk_not(b) and b[0] != "c":
            return self.mk_value_or([b, a])
        # boolean-valued conditionals are conditions
        if a == C(True) and b == C(False):
            return c
        if a == C(False) and b == C(True):
            return mk_not(c)
        if b == C(False) and self._boolish(a, self):
            return mk_and([c, a])
        if a == C(True) and self._boolish(b, self):
            return mk_or([c, b])
        if a == C(False) and self._boolish(b, self):
            return mk_and([mk_not(c), b])
        if b == C(True) and self._boolish(a, self):
            return mk_or([mk_not(c), a])
        # clamp idiom: (C if r > C else r) == min(r, C);  (C if r < C else r) == max(r, C)
        for (x, y, flip) in ((a, b, False), (b, a, True)):
            # value x when cond (or not cond if flip), else y
            cc = mk_not(c) if flip else c
            lo_hi = self._as_less(cc)
            if lo_hi is not None:
                lo, hi, strict = lo_hi      # cc  ==  lo < hi  (or <=)
                if x == lo and y == hi:      # pick the smaller when smaller
                    return self.mk_minmax("min", [lo, hi])
                if x == hi and y == lo:
                    return self.mk_minmax("max", [lo, hi])
        return ("ife", c, a, b)

    @staticmethod
    def _boolish(t: Term, norm: Optional["Norm"] = None) -> bool:
        if t[0] in ("cmp", "cmpz", "and", "or", "not") or (t[0] == "c" and isinstance(t[1], bool)) or \
                (t[0] == "call" and t[1] in (("g", "builtin:isinstance"), ("g", "builtin:any"), ("g", "builtin:all"))):
            return True
        if norm is not None and t[0] == "call":
            try:
                return norm.type_of(t, None) == P_BOOL
            except Exception:
                return False
        return False

    def _as_less(self, c: Term) -> Optional[Tuple[Term, Term, bool]]:
        if c[0] == "cmp" and c[1] in ("<", "<="):
            return c[2], c[3], c[1] == "<"
        if c[0] == "cmpz" and c[1] in ("<", "<=", ">", ">="):
            atoms, k = lin_parts(c[2])
            pos = {a: v for a, v in atoms.items() if v > 0}
            neg = {a: -v for a, v in atoms.items() if v < 0}
            l = mk_lin(pos, k if k > 0 else 0)
            r = mk_lin(neg, -k if k < 0 else 0)
            # l - r op 0
            if c[1] in ("<", "<="):
                return l, r, c[1] == "<"
            return r, l, c[1] == ">"
        return None

    def mk_minmax(self, which: str, args: List[Term]) -> Term:
        flat: List[Term] = []
        for a in args:
            if a[0] == "call" and a[1] == ("g", "builtin:" + which) and not a[3]:
                flat.extend(a[2])
            else:
                flat.append(a)
        consts = [a for a in flat if is_int_const(a)]
        rest = [a for a in flat if not is_int_const(a)]
        if consts:
            v = (min if which == "min" else max)(c[1] for c in consts)
            rest.append(C(v))
        rest = sorted(set(rest), key=key)
        if len(rest) == 1:
            return rest[0]
        return ("call", ("g", "builtin:" + which), tuple(rest), ())

    def n_BinOp(self, node: ast.BinOp, scope: Scope) -> Term:
        a = self.norm(node.left, scope)
        b = self.norm(node.right, scope)
        return self.mk_binop(node.op, a, b, scope)

    def mk_binop(self, op: ast.operator, a: Term, b: Term, scope: Optional[Scope]) -> Term:
        if is_const(a) and is_const(b):
            try:
                v = self._fold_bin(op, a[1], b[1])
                if isinstance(v, (int, bytes, str, float, bool)):
                    return C(v)
            except Exception:
                pass
        if isinstance(op, ast.Add):
            na, nb = self.is_numeric(a, scope), self.is_numeric(b, scope)
            if na is True or nb is True:
                if na is not False and nb is not False:
                    return lin_add(a, b)
            xs: List[Term] = []
            for x in (a, b):
                # inside a concatenation a copy contributes the elements of what it copies (`[*a, b]` is read as list(a) + [b])
                if x[0] == "call" and x[1] in (("g", "builtin:list"), ("g", "builtin:tuple")) and len(x[2]) == 1 and not x[3] \
                        and (b if x is a else a)[0] in ("list", "tuple", "cat", "comp", "new"):
                    x = x[2][0]
                if x[0] == "cat":
                    xs.extend(x[1])
                else:
                    xs.append(x)
            # adjacent literal tuples / lists concatenate into one literal
            merged: List[Term] = []
            for x in xs:
                if merged and x[0] in ("tuple", "list") and merged[-1][0] == x[0]:
                    merged[-1] = (x[0], merged[-1][1] + x[1])
                else:
                    merged.append(x)
            if len(merged) == 1:
                return merged[0]
            return ("cat", tuple(merged))
        if isinstance(op, ast.Sub):
            return lin_add(a, b, -1)
        if isinstance(op, ast.Mult):
            if is_int_const(a) and self.is_numeric(b, scope) is not False:
                return lin_scale(b, a[1])
            if is_int_const(b) and self.is_numeric(a, scope) is not False:
                return lin_scale(a, b[1])
            if self.is_numeric(a, scope) is False or self.is_numeric(b, scope) is False:
                return ("op", "repeat", a, b)
            xs = []
            for x in (a, b):
                if x[0] == "mul":
                    xs.extend(x[1])
                else:
                    xs.append(x)
            return ("mul", tuple(sorted(xs, key=key)))
        name = {ast.FloorDiv: "floordiv", ast.Mod: "mod", ast.Pow: "pow", ast.Div: "div", ast.LShift: "lshift", ast.RShift: "rshift",
                ast.BitAnd: "bitand", ast.BitOr: "bitor", ast.BitXor: "bitxor", ast.MatMult: "matmul"}[type(op)]
        if name == "mod" and a[0] == "c" and isinstance(a[1], (str, bytes)):
            return ("call", ("g", "builtin:fmt"), (a, b), ())
        if name == "lshift" and a == C(1):
            return ("op", "pow", C(2), b)
        return ("op", name, a, b)

    @staticmethod
    def _fold_bin(op: ast.operator, x: Any, y: Any) -> Any:
        if isinstance(op, ast.Add):
            return x + y
        if isinstance(op, ast.Sub):
            return x - y
        if isinstance(op, ast.Mult):
            if isinstance(x, (bytes, str)) and y > 1 << 16 or isinstance(y, (bytes, str)) and x > 1 << 16:
                raise ValueError
            return x * y
        if isinstance(op, ast.FloorDiv):
            return x // y
        if isinstance(op, ast.Mod):
            if isinstance(x, (str, bytes)):
                raise ValueError
            return x % y
        if isinstance(op, ast.Pow):
            if abs(y) > 4096:
                raise ValueError
            return x ** y
        if isinstance(op, ast.LShift):
            if y > 4096:
                raise ValueError
            return x << y
        if isinstance(op, ast.RShift):
            return x >> y
        if isinstance(op, ast.Div):
            return x / y
        if isinstance(op, ast.BitAnd):
            return x & y
        if isinstance(op, ast.BitOr):
            return x | y
        raise ValueError

    def n_Compare(self, node: ast.Compare, scope: Scope) -> Term:
        parts = []
        left = self.norm(node.left, scope)
        for op, right_n in zip(node.ops, node.comparators):
            right = self.norm(right_n, scope)
            parts.append(self.mk_cmp(op, left, right, scope))
            left = right
        return mk_and(parts)

    def mk_cmp(self, op: ast.cmpop, a: Term, b: Term, scope: Optional[Scope]) -> Term:
        name = {ast.Eq: "==", ast.NotEq: "!=", ast.Lt: "<", ast.LtE: "<=", ast.Gt: ">", ast.GtE: ">=", ast.In: "in", ast.NotIn: "notin",
                ast.Is: "is", ast.IsNot: "isnot"}[type(op)]
        return self.mk_cmp_s(name, a, b, scope)

    def mk_cmp_s(self, name: str, a: Term, b: Term, scope: Optional[Scope]) -> Term:
        if name in ("<", "<=", ">", ">=", "==", "!="):
            na, nb = self.is_numeric(a, scope), self.is_numeric(b, scope)
            if (na is True and nb is not False) or (nb is True and na is not False):
                return mk_cmpz(name, lin_add(a, b, -1))
        if is_const(a) and is_const(b) and name in ("==", "!="):
            return C((a[1] == b[1]) if name == "==" else (a[1] != b[1]))
        if is_const(a) and is_const(b) and name in ("is", "isnot") and (a[1] is None or b[1] is None or isinstance(a[1], bool) or isinstance(b[1], bool)):
            same = (a[1] is b[1])
            return C(same if name == "is" else not same)
        if name in ("==", "!=") and C(None) in (a, b) and a != b:
            name = "is" if name == "==" else "isnot"        # nothing here defines __eq__ against None
        if name in ("in", "notin") and b[0] in ("tuple", "list", "set") and 1 <= len(b[1]) <= 8:
            # membership in a display is a chain of equalities
            alts = [self.mk_cmp_s("==", a, x, scope) for x in b[1]]
            return mk_or(alts) if name == "in" else mk_and([mk_not(x) for x in alts])
        if name in ("is", "isnot") and C(None) in (a, b):
            # `m.get(k) is None` is `k not in m` (mappings here hold no None values)
            x = a if b == C(None) else b
            if is_map_get(x) and len(x[2]) in (1, 2) and (len(x[2]) == 1 or x[2][1] == C(None)):
                return ("cmp", "notin" if name == "is" else "in", x[2][0], x[1][1])
        if name == ">":
            return ("cmp", "<", b, a)
        if name == ">=":
            return ("cmp", "<=", b, a)
        if name in ("==", "!="):
            a, b = sorted((a, b), key=key)
        return ("cmp", name, a, b)

    def n_Lambda(self, node: ast.Lambda, scope: Scope) -> Term:
        inner = scope.copy()
        for i, p in enumerate(node.args.args):
            inner.env[p.arg] = ("v", "λ%d" % i)
        return ("lam", len(node.args.args), self.norm(node.body, inner))

    def n_NamedExpr(self, node: ast.NamedExpr, scope: Scope) -> Term:
        v = self.norm(node.value, scope)
        scope.env[node.target.id] = v
        return v

    def n_Yield(self, node: ast.Yield, scope: Scope) -> Term:
        v = self.norm(node.value, scope) if node.value is not None else C(None)
        if self.on_yield is not None:
            self.on_yield(v, node)
        return ("opaque", "yield")

    def n_YieldFrom(self, node: ast.YieldFrom, scope: Scope) -> Term:
        v = self.norm(node.value, scope)
        if self.on_yield is not None:
            self.on_yield(("call", ("g", "builtin:star"), (v,), ()), node)
        return ("opaque", "yield")

    def n_Await(self, node: ast.Await, scope: Scope) -> Term:
        return self.norm(node.value, scope)

    # ------------------------------------------------------------ comprehensions
    def bind_target(self, target: ast.AST, it: Term, scope: Scope) -> None:
        """Bind loop target(s) to ('e', iter, role) terms."""
        base, roles = self.iter_domain(it)
        if isinstance(target, ast.Name):
            scope.env[target.id] = ("e", base, roles[0] if len(roles) == 1 else "elem") if len(roles) == 1 else ("e", it, "elem")
            return
        if isinstance(target, (ast.Tuple, ast.List)):
            if len(roles) == len(target.elts):
                for el, role in zip(target.elts, roles):
                    if isinstance(el, ast.Name):
                        scope.env[el.id] = ("e", base, role)
                    else:
                        self.bind_target(el, ("opaque", "nested"), scope)
            else:
                for i, el in enumerate(target.elts):
                    if isinstance(el, ast.Name):
                        scope.env[el.id] = ("e", it, i)
                    elif isinstance(el, (ast.Tuple, ast.List)):
                        for j, e2 in enumerate(el.elts):
                            if isinstance(e2, ast.Name):
                                scope.env[e2.id] = ("e", it, (i, j))
            return

    def iter_domain(self, it: Term) -> Tuple[Term, Tuple[Any, ...]]:
        """canonical (domain, roles-of-targets) for an iterable term."""
        if it[0] == "cat":
            # iterating a concatenation: whether the pieces are lists or tuples does not matter
            parts = []
            for p_ in it[1]:
                d_, r_ = self.iter_domain(p_)
                parts.append(d_ if r_ == ("elem",) else p_)
            return ("cat", tuple(parts)), ("elem",)
        if it[0] == "call" and not it[3]:
            f = it[1]
            if f == ("g", "builtin:enumerate") and len(it[2]) == 1:
                return self.iter_domain(it[2][0])[0], ("idx", "elem")
            if f in (("g", "builtin:list"), ("g", "builtin:tuple"), ("g", "builtin:iter")) and len(it[2]) == 1:
                return self.iter_domain(it[2][0])
            if f[0] == "a" and not it[2]:
                if f[2] == "items":
                    return f[1], ("key", "val")
                if f[2] == "values":
                    return f[1], ("val",)
                if f[2] == "keys":
                    return f[1], ("elem",)
        return it, ("elem",)

    def _gens(self, generators: List[ast.comprehension], scope: Scope) -> Tuple[Tuple[Term, Tuple[Term, ...]], ...]:
        gens = []
        for g in generators:
            it = self.norm(g.iter, scope)
            self.bind_target(g.target, it, scope)
            conds = tuple(sorted((self.norm(c, scope) for c in g.ifs), key=key))
            dom, roles = self.iter_domain(it)
            gens.append((dom if roles != ("elem",) or dom != it else it, conds))
        return tuple(gens)

    def n_ListComp(self, node: ast.ListComp, scope: Scope, kind: str = "list") -> Term:
        inner = scope.copy()
        gens = self._gens(node.generators, inner)
        self.comp_stack.extend(gens)
        try:
            elt = self.norm(node.elt, inner)
        finally:
            del self.comp_stack[len(self.comp_stack) - len(gens):]
        return fuse_comp(("comp", kind, elt, gens))

    def n_GeneratorExp(self, node: ast.GeneratorExp, scope: Scope) -> Term:
        return self.n_ListComp(node, scope, "list")  # type: ignore

    def n_SetComp(self, node: ast.SetComp, scope: Scope) -> Term:
        return self.n_ListComp(node, scope, "set")  # type: ignore

    def n_DictComp(self, node: ast.DictComp, scope: Scope) -> Term:
        inner = scope.copy()
        gens = self._gens(node.generators, inner)
        self.comp_stack.extend(gens)
        try:
            k_ = self.norm(node.key, inner)
            v_ = self.norm(node.value, inner)
        finally:
            del self.comp_stack[len(self.comp_stack) - len(gens):]
        return ("comp", "dict", ("tuple", (k_, v_)), gens)

    # ------------------------------------------------------------ calls
    def n_Call(self, node: ast.Call, scope: Scope) -> Term:
        f = self.norm(node.func, scope)
        if f in (("g", "ext:typing.cast"), ("g", "ext:cast")) and len(node.args) == 2 and not node.keywords:
            v = self.norm(node.args[1], scope)          # typing.cast(T, x) is x
            ty = self.typer.parse_ann(node.args[0], scope.module, scope.func)
            if ty is not None and v[0] != "c":
                self.var_types.setdefault(v, ty)
            return v
        args = [self.norm(a, scope) for a in node.args]
        kwargs = [(k.arg or "**", self.norm(k.value, scope)) for k in node.keywords]
        if any(k_ == "**" for k_, _ in kwargs):
            # f(**{"a": x, "b": y}) is f(a=x, b=y)
            spliced = []
            for k_, v in kwargs:
                if k_ == "**" and v[0] == "dict" and len(v) > 1 and all(isinstance(kv, tuple) and len(kv) == 2 and kv[0][0] == "c" and isinstance(kv[0][1], str)
                                                                       for kv in v[1]):
                    spliced.extend((kv[0][1], kv[1]) for kv in v[1])
                else:
                    spliced.append((k_, v))
            kwargs = spliced
        while f[0] == "call" and f[1] in (("g", "ext:functools.partial"), ("g", "ext:partial")) and f[2] and not f[3]:
            f, args = f[2][0], list(f[2][1:]) + args        # calling a partial application
        if f == ("g", "builtin:list") and len(args) == 1 and not kwargs and ((args[0][0] == "new" and args[0][1] == "list") or args[0][0] == "list"
                                                                            or (args[0][0] == "comp" and args[0][1] == "list")):
            return args[0]          # a copy of a list that was just built is, as a value, that list
        if f == ("g", "builtin:list") and len(args) == 1 and not kwargs and args[0][0] == "tuple":
            return ("list", args[0][1])          # the list of a tuple display is the list display of its elements
        if f == ("g", "builtin:tuple") and len(args) == 1 and not kwargs and args[0][0] == "list":
            return ("tuple", args[0][1])
        if f == ("g", "builtin:tuple") and len(args) == 1 and not kwargs and args[0][0] == "comp" and args[0][1] == "list":
            return args[0]          # the same elements in the same order (sequences are compared by content here)
        t = self.mk_call(f, args, kwargs, scope)
        if self.on_call is not None:
            r = self.on_call(t, node, scope, (f, args, kwargs))
            if r is not None:
                return r          # value of a transparent (non-API) helper, expanded in place
        return t

    def signature_of(self, f: Term, scope: Optional[Scope]) -> Optional[Tuple[FuncInfo, bool]]:
        """(FuncInfo, bound?) for a call target term, if it is a repo function / constructor / method."""
        if f[0] == "g":
            ref = f[1]
            if ref in self.repo.functions:
                return self.repo.functions[ref], False
            if ref in self.repo.classes:
                mi = self.repo.find_method(ref, "__init__")
                if mi is not None:
                    return mi, True
            return None
        if f[0] == "a":
            rt = self.type_of(f[1], scope)
            mt = self._attr_of_type(rt, f[2]) if rt else None
            if mt and mt[0] == "F":
                fi = self.repo.functions[mt[1]]
                return fi, not fi.is_staticmethod
        return None

    def class_constant(self, cls_q: str, attr: str) -> Optional[Term]:
        """`self.NAME` / `Cls.NAME` where NAME is a class-level constant that no method ever assigns on an instance or the class"""
        cache = self.__dict__.setdefault("_class_consts", {})
        k_ = (cls_q, attr)
        if k_ in cache:
            return cache[k_]
        out: Optional[Term] = None
        for cq in self.repo.mro(cls_q):
            ci = self.repo.classes.get(cq)
            if ci is None:
                break
            if attr in ci.methods:
                break
            if attr in ci.class_attrs:
                node = ci.class_attrs[attr]
                if isinstance(node, ast.Call) and (dotted_name(node.func) or "").split(".")[-1] == "Struct" and len(node.args) == 1 and not node.keywords:
                    try:
                        fmt = self.repo.fold(node.args[0], ci.module, None, {})
                    except Exception:
                        break
                    if isinstance(fmt, (bytes, str)):
                        out = ("call", ("g", "ext:struct.Struct"), (C(fmt),), ())
                    break
                if isinstance(node, ast.Call) and isinstance(node.func, ast.Name) and node.func.id == "staticmethod" and len(node.args) == 1 \
                        and isinstance(node.args[0], ast.Lambda):
                    # NAME = staticmethod(lambda ..): a plain function kept on the class
                    out = self.norm(node.args[0], Scope(ci.module, None))
                    break
                try:
                    v = self.repo.fold(node, ci.module, None, {})
                except Exception:
                    break
                if isinstance(v, (int, bytes, str, bool)) or v is None:
                    assigned = False
                    for m_ in self.repo.modules.values():
                        for n in ast.walk(m_.tree):
                            if isinstance(n, ast.Attribute) and n.attr == attr and isinstance(n.ctx, (ast.Store, ast.Del)):
                                assigned = True
                    if not assigned:
                        out = C(v)
                break
        cache[k_] = out
        return out

    def namedtuple_fields(self, q: str) -> Optional[List[str]]:
        """field names of a module-level `X = namedtuple('X', [...])` or `class X(NamedTuple): a: T; b: U`"""
        ci = self.repo.classes.get(q)
        if ci is not None and any((dotted_name(b) or "").split(".")[-1] == "NamedTuple" for b in ci.base_exprs) and "__new__" not in ci.methods:
            return [st.target.id for st in ci.node.body if isinstance(st, ast.AnnAssign) and isinstance(st.target, ast.Name)]
        modname, _, name = q.rpartition(".")
        m = self.repo.modules.get(modname)
        node = m.assign_nodes.get(name) if m is not None else None
        if isinstance(node, ast.Call) and (dotted_name(node.func) or "").split(".")[-1] == "namedtuple" and len(node.args) == 2:
            spec = node.args[1]
            if isinstance(spec, (ast.List, ast.Tuple)) and all(isinstance(e, ast.Constant) and isinstance(e.value, str) for e in spec.elts):
                return [e.value for e in spec.elts]   # type: ignore
            if isinstance(spec, ast.Constant) and isinstance(spec.value, str):
                return spec.value.replace(",", " ").split()
        return None

    def mk_call(self, f: Term, args: List[Term], kwargs: List[Tuple[str, Term]], scope: Optional[Scope]) -> Term:
        # beta-reduction of an immediately applied lambda (also under a conditional choice of lambdas)
        if not kwargs:
            if f[0] == "lam" and f[1] == len(args):
                return substitute(f[2], {("v", "λ%d" % i): a for i, a in enumerate(args)})
            if f[0] == "ife" and f[2][0] == "lam" and f[3][0] == "lam" and f[2][1] == len(args) == f[3][1]:
                return self.mk_ife(f[1], self.mk_call(f[2], args, kwargs, scope), self.mk_call(f[3], args, kwargs, scope))
        # calling a functools.partial application calls the function with the bound arguments first
        if f[0] == "call" and f[1] in (("g", "ext:functools.partial"), ("g", "ext:partial")) and f[2] and not f[3]:
            return self.mk_call(f[2][0], list(f[2][1:]) + list(args), kwargs, scope)
        # bytes(b) of a bytes value is that value
        if f == ("g", "builtin:bytes") and len(args) == 1 and not kwargs:
            try:
                if self.type_of(args[0], scope) == P_BYTES:
                    return args[0]
            except Exception:
                pass
        # b"".join((x, y, z)) / "".join([..]) of a display is the concatenation
        if f[0] == "a" and f[2] == "join" and f[1] in (C(b""), C("")) and len(args) == 1 and not kwargs and args[0][0] in ("tuple", "list") and args[0][1]:
            parts = args[0][1]
            return parts[0] if len(parts) == 1 else ("cat", tuple(y for x in parts for y in (x[1] if x[0] == "cat" else (x,))))
        # keyword -> positional for known repo signatures
        sig = self.signature_of(f, scope)
        if sig is not None and kwargs and not any(k == "**" for k, _ in kwargs):
            fi, bound = sig
            params = fi.params[1:] if bound else fi.params
            kw = dict(kwargs)
            pos = list(args)
            ok = True
            defaults = fi.defaults()
            for p in params[len(pos):]:
                if p in kw:
                    pos.append(kw.pop(p))
                elif p in defaults and kw:
                    # a later keyword is given: materialise the default to keep positions
                    pos.append(self.norm(defaults[p], Scope(fi.module, fi)))
                else:
                    break
            if not kw:
                args, kwargs = pos, []
            else:
                ok = False
            if not ok:
                kwargs = sorted(kwargs, key=lambda kv: kv[0])
        if kwargs and f[0] == "g" and not any(k == "**" for k, _ in kwargs):
            fields = self.namedtuple_fields(f[1])
            if fields is not None and len(args) + len(kwargs) == len(fields) and all(k in fields[len(args):] for k, _ in kwargs):
                kw = dict(kwargs)
                args, kwargs = list(args) + [kw[n] for n in fields[len(args):]], []
        if f[0] == "g" and f[1].startswith("builtin:"):
            b = f[1][8:]
            if b in ("list", "sorted", "set", "tuple", "frozenset", "iter", "len", "any", "all") and len(args) >= 1:
                a0 = args[0]
                if a0[0] == "call" and a0[1][0] == "a" and a0[1][2] == "keys" and not a0[2] and not a0[3]:
                    args = [a0[1][1]] + list(args[1:])      # iterating a mapping yields its keys
            if b in ("min", "max") and len(args) >= 2 and not kwargs:
                return self.mk_minmax(b, args)
            if b == "pow" and len(args) == 2:
                return self.mk_binop(ast.Pow(), args[0], args[1], scope)
            if b == "len" and len(args) == 1 and is_const(args[0]) and isinstance(args[0][1], (bytes, str)):
                return C(len(args[0][1]))
            if b == "int" and len(args) == 1 and is_const(args[0]) and isinstance(args[0][1], (int, float)):
                return C(int(args[0][1]))
            if b == "sum" and len(args) == 1 and args[0][0] == "comp" and args[0][1] == "list":
                return ("sum", args[0][2], args[0][3])
            if b == "int.from_bytes":
                kw = dict(kwargs)
                bo = kw.get("byteorder", args[1] if len(args) > 1 else C("big"))
                sg = kw.get("signed", C(False))
                return ("call", f, (args[0], bo, sg), ())
        if f[0] == "a" and f[2] == "to_bytes":
            kw = dict(kwargs)
            ln = kw.get("length", args[0] if args else C(1))
            bo = kw.get("byteorder", args[1] if len(args) > 1 else C("big"))
            sg = kw.get("signed", C(False))
            if is_int_const(f[1]) and is_int_const(ln) and is_const(bo) and is_const(sg):
                try:
                    return C(f[1][1].to_bytes(ln[1], bo[1], signed=sg[1]))
                except (OverflowError, ValueError):
                    pass
            return ("call", f, (ln, bo, sg), ())
        if f[0] == "a" and f[2] == "keys" and not args and not kwargs:
            pass
        return ("call", f, tuple(args), tuple(sorted(kwargs, key=lambda kv: kv[0])))


def untag(t: Any) -> Any:
    """drop the read identities ('#', n) that the summariser attaches to stream reads inside decoders"""
    if isinstance(t, tuple):
        if len(t) == 4 and t[0] == "call" and isinstance(t[3], tuple) and any(isinstance(k, tuple) and k and k[0] == "#" for k in t[3]):
            return ("call", untag(t[1]), untag(t[2]), tuple(k for k in t[3] if not (isinstance(k, tuple) and k and k[0] == "#")))
        return tuple(untag(x) for x in t)
    return t


def _decided(t: Any, c: Term, holds: bool) -> Any:
    if not isinstance(t, tuple) or not t:
        return t
    if t[0] == "ife" and len(t) == 4:
        if t[1] == c:
            return _decided(t[2] if holds else t[3], c, holds)
        if t[1] == mk_not(c):
            return _decided(t[3] if holds else t[2], c, holds)
    if t[0] in ("lam", "comp"):
        return t
    return tuple(_decided(x, c, holds) for x in t)


def fuse_comp(t: Term) -> Term:
    """[f(x) for x in [g(o) for o in O if d(o)] if c(x)]  ==  [f(g(o)) for o in O if d(o) and c(g(o))]"""
    if t[0] != "comp":
        return t
    kind, elt, gens = t[1], t[2], list(t[3])
    changed = True
    while changed:
        changed = False
        for i, (dom, conds) in enumerate(gens):
            if dom[0] == "comp" and dom[1] == "list" and dom[3]:
                bound = ("e", dom, "elem")
                m = {bound: dom[2]}
                inner = list(dom[3])
                new_conds = tuple(sorted(set(inner[-1][1]) | {substitute(c, m) for c in conds}, key=key))
                inner[-1] = (inner[-1][0], new_conds)
                rest = [(substitute(d2, m), tuple(substitute(c2, m) for c2 in cs2)) for d2, cs2 in gens[i + 1:]]
                gens = gens[:i] + inner + rest
                elt = substitute(elt, m)
                changed = True
                break
    # `for it in (A, B) for m in it` walks A then B: one generator over the concatenation
    changed = True
    while changed:
        changed = False
        for i in range(len(gens) - 1):
            (d1, c1), (d2, c2) = gens[i], gens[i + 1]
            if d1[0] in ("tuple", "list") and len(d1[1]) >= 1 and not c1 and d2 == ("e", d1, "elem"):
                parts = tuple(("list", p_[1]) if p_[0] == "tuple" else p_ for p_ in d1[1])
                cat: Term = parts[0] if len(parts) == 1 else ("cat", parts)
                m2 = {("e", d2, "elem"): ("e", cat, "elem")}
                others = gens[:i] + gens[i + 2:]
                if any(mentions(x, d2) for dd, cs in others for x in (dd,) + tuple(cs)):
                    continue
                gens = gens[:i] + [(cat, tuple(substitute(c, m2) for c in c2))] + [(substitute(dd, m2), tuple(substitute(c, m2) for c in cs)) for dd, cs in gens[i + 2:]]
                elt = substitute(elt, m2)
                changed = True
                break
    return ("comp", kind, elt, tuple(gens))


# --------------------------------------------------------------------------- implication
def _zset(op: str, c: int) -> Tuple[str, int]:
    """L + c op 0 over the integers, as ('ge', n) / ('le', n) / ('eq', n) / ('ne', n) on L."""
    if op == ">":
        return ("ge", 1 - c)
    if op == ">=":
        return ("ge", -c)
    if op == "<":
        return ("le", -c - 1)
    if op == "<=":
        return ("le", -c)
    if op == "==":
        return ("eq", -c)
    return ("ne", -c)


def _zsubset(s: Tuple[str, int], t: Tuple[str, int]) -> bool:
    (ks, ns), (kt, nt) = s, t
    if kt == "ge":
        return (ks == "ge" and ns >= nt) or (ks == "eq" and ns >= nt)
    if kt == "le":
        return (ks == "le" and ns <= nt) or (ks == "eq" and ns <= nt)
    if kt == "eq":
        return ks == "eq" and ns == nt
    if kt == "ne":
        return (ks == "ne" and ns == nt) or (ks == "eq" and ns != nt) or (ks == "ge" and ns > nt) or (ks == "le" and ns < nt)
    return False


def implies(spec: Term, code: Term) -> bool:
    """spec => code (sound, incomplete)."""
    if spec == code:
        return True
    if spec == C(False) or code == C(True):
        return True
    if spec[0] == "or":
        return all(implies(s, code) for s in spec[1])
    if code[0] == "and":
        return all(implies(spec, c) for c in code[1])
    if code[0] == "or":
        if any(implies(spec, c) for c in code[1]):
            return True
    if spec[0] == "and":
        if any(implies(s, code) for s in spec[1]):
            return True
    if spec[0] == "cmpz" and code[0] == "cmpz":
        a_s, c_s = lin_parts(spec[2])
        a_c, c_c = lin_parts(code[2])
        if a_s == a_c:
            return _zsubset(_zset(spec[1], c_s), _zset(code[1], c_c))
        return False
    if spec[0] == "cmp" and code[0] == "cmp":
        so, sa, sb = spec[1], spec[2], spec[3]
        co, ca, cb = code[1], code[2], code[3]
        if (sa, sb) == (ca, cb):
            return (so, co) in {("<", "<="), ("<", "!="), ("==", "<=")}
        if (sa, sb) == (cb, ca):
            return (so, co) in {("<", "!="), ("==", "<="), ("==", "=="), ("!=", "!=")}
    return False


def same_operands(x: Term, y: Term) -> bool:
    """two atomic comparisons over the same operands (regardless of comparator)."""
    if x[0] == "cmpz" and y[0] == "cmpz":
        return lin_parts(x[2])[0] == lin_parts(y[2])[0]
    if x[0] == "cmp" and y[0] == "cmp":
        return {x[2], x[3]} == {y[2], y[3]}
    return False
