"""E5/E12: structured flow analysis with exceptional outcomes (typestate runner), and E6 may-raise summaries.

A rule supplies an `Automaton`: abstract states are hashable tuples; `on_event` maps (state, event) to successor
states (or reports a violation), `on_branch` refines / prunes states on conditions, `may_raise` says where an
exceptional edge leaves a statement. The runner walks the function's statement structure (if / for / while / try /
with / return / raise / break / continue), iterating loops to a fixpoint over the finite state set, and returns the
states at every exit (normal return, fall-through, exceptional), each with one witness trace.
"""
from __future__ import annotations

import ast
from typing import Any, Callable, Dict, Iterable, List, Optional, Set, Tuple

from .repo import FuncInfo, Repo, dotted, func_body
from .terms import Term, mentions, show
from .walker import Event, Summary, Walker, exc_ancestors, exc_class

State = Tuple[Any, ...]
Trace = Tuple[str, ...]
States = Dict[State, Trace]


class Violation:
    def __init__(self, what: str, state: State, trace: Trace, line: int):
        self.what = what
        self.state = state
        self.trace = trace
        self.line = line


class Automaton:
    """Rule-specific part. Override the hooks."""

    def initial(self) -> List[State]:
        return [()]

    def on_event(self, state: State, ev: Event) -> Iterable[State]:
        return [state]

    def on_branch(self, state: State, test: Term, polarity: bool) -> Optional[State]:
        return state

    def may_raise(self, ev: Event) -> bool:
        return False

    def label(self, ev: Event) -> Optional[str]:
        return None

    def on_handler(self, state: State, types: Optional[List[str]]) -> Optional[State]:
        return state


class Out:
    def __init__(self) -> None:
        self.normal: States = {}
        self.ret: States = {}
        self.exc: States = {}
        self.brk: States = {}
        self.cont: States = {}


def _merge(dst: States, src: States) -> bool:
    changed = False
    for s, t in src.items():
        if s not in dst:
            dst[s] = t
            changed = True
    return changed


class Runner:
    def __init__(self, summ: Summary, auto: Automaton, repo: Repo):
        self.summ = summ
        self.auto = auto
        self.repo = repo
        self.fi = summ.fi
        # events by (expansion path of transparent helpers, statement): a helper that was expanded in place is executed by the runner
        # as a block of its own (its branches, loops and handlers are seen), at the point of the statement that calls it
        self.by_stmt: Dict[Tuple[Tuple[int, ...], int], List[Event]] = {}
        self.under: Dict[Tuple[Tuple[int, ...], int], List[Event]] = {}    # events of deeper expansions started at that statement
        for e in summ.events:
            if e.chain:
                continue
            path = getattr(e, "inl_path", ())
            self.by_stmt.setdefault((path, e.inner_stmt_id if path else e.stmt_id), []).append(e)
        self.path: Tuple[int, ...] = ()
        self.anchor: Dict[int, Tuple[Tuple[int, ...], int]] = {}      # expansion id -> (path, statement) where it starts
        self._anchor_expansions()
        self.violations: List[Violation] = []
        self.event_count = 0

    def _anchor_expansions(self) -> None:
        """where each expansion of a helper starts: recorded by the summariser as (path, statement, index of the next event)"""
        self.expansions_at: Dict[Tuple[Tuple[int, ...], int], List[int]] = {}
        self.start_idx: Dict[int, int] = {}
        for n, (path, st_id, idx) in sorted(getattr(self.summ, "inl_anchor", {}).items()):
            self.anchor[n] = (tuple(path), st_id)
            self.start_idx[n] = idx
            self.expansions_at.setdefault((tuple(path), st_id), []).append(n)

    def test_of(self, st: ast.AST) -> Optional[Term]:
        t2 = getattr(self.summ, "tests2", None)
        if t2 is not None and (self.path, id(st)) in t2:
            return t2[(self.path, id(st))]
        return self.summ.tests.get(id(st)) if not self.path else None

    # ------------------------------------------------------------------ public
    def run(self) -> Out:
        init: States = {s: () for s in self.auto.initial()}
        out = self.block(func_body(self.fi), init)
        # falling off the end is a normal return
        _merge(out.ret, out.normal)
        out.normal = {}
        return out

    # ------------------------------------------------------------------ events of a statement header
    def run_expansion(self, n: int, S: States, exc: States) -> States:
        """execute the body of a helper that the summariser expanded in place; its returns continue the calling statement"""
        callee = self.summ.inlinings.get(n)
        if callee is None or not S:
            return S
        saved = self.path
        self.path = self.anchor[n][0] + (n,)
        try:
            o = self.block(func_body(callee), S)
        finally:
            self.path = saved
        _merge(exc, o.exc)
        nxt: States = dict(o.normal)
        _merge(nxt, o.ret)
        return nxt

    def events(self, node: ast.AST, S: States, exc: States) -> States:
        key = (self.path, id(node))
        evs = list(self.by_stmt.get(key, []))
        pend = list(self.expansions_at.get(key, []))
        # interleave: an expansion runs when the first event that lies inside it comes up in execution order
        # an expansion that started when k events had been emitted runs before the event with index k ("a" sorts before "ev")
        items: List[Tuple[int, str, Any]] = [(e.seq, "ev", e) for e in evs] + [(self.start_idx[n], "a", n) for n in pend]
        items.sort(key=lambda it: (it[0], it[1]))
        for _seq, kind, obj in items:
            if kind == "a":
                S = self.run_expansion(obj, S, exc)
                continue
            ev = obj
            if ev.kind in ("return",):
                continue
            self.event_count += 1
            nxt: States = {}
            lab = self.auto.label(ev)
            for s, tr in S.items():
                if ev.kind in ("raise", "assert"):
                    continue
                if self.auto.may_raise(ev):
                    t2 = tr + (("%d: %s raises" % (ev.line, lab or show(ev.term)[:60])),)
                    if s not in exc:
                        exc[s] = t2
                try:
                    succ = list(self.auto.on_event(s, ev))
                except _Viol as v:
                    self.violations.append(Violation(v.what, s, tr + (("%d: %s" % (ev.line, lab or show(ev.term)[:60])),), ev.line))
                    succ = [s]
                for s2 in succ:
                    t2 = tr + (("%d: %s" % (ev.line, lab)),) if lab else tr
                    if s2 not in nxt:
                        nxt[s2] = t2
            if ev.kind in ("raise", "assert"):
                nxt = dict(S)
            S = nxt
        return S

    # ------------------------------------------------------------------ statements
    def block(self, stmts: List[ast.stmt], S: States) -> Out:
        out = Out()
        cur = dict(S)
        for st in stmts:
            if not cur:
                break
            o = self.stmt(st, cur)
            _merge(out.ret, o.ret)
            _merge(out.exc, o.exc)
            _merge(out.brk, o.brk)
            _merge(out.cont, o.cont)
            cur = o.normal
        out.normal = cur
        return out

    def stmt(self, st: ast.stmt, S: States) -> Out:
        o = Out()
        if isinstance(st, (ast.Expr, ast.Assign, ast.AugAssign, ast.AnnAssign, ast.Delete, ast.Pass, ast.Import, ast.ImportFrom,
                           ast.Global, ast.Nonlocal, ast.FunctionDef, ast.ClassDef, ast.AsyncFunctionDef)):
            o.normal = self.events(st, S, o.exc)
            return o
        if isinstance(st, ast.Return):
            S2 = self.events(st, S, o.exc)
            o.ret = {s: t + ("%d: return" % st.lineno,) for s, t in S2.items()}
            return o
        if isinstance(st, ast.Raise):
            S2 = self.events(st, S, o.exc)
            _merge(o.exc, {s: t + ("%d: raise" % st.lineno,) for s, t in S2.items()})
            return o
        if isinstance(st, ast.Assert):
            S2 = self.events(st, S, o.exc)
            o.normal = S2
            return o
        if isinstance(st, ast.Break):
            o.brk = dict(S)
            return o
        if isinstance(st, ast.Continue):
            o.cont = dict(S)
            return o
        if isinstance(st, ast.If):
            S2 = self.events(st, S, o.exc)
            test = self.test_of(st)
            St: States = {}
            Sf: States = {}
            for s, t in S2.items():
                a = self.auto.on_branch(s, test, True) if test is not None else s
                b = self.auto.on_branch(s, test, False) if test is not None else s
                if a is not None and a not in St:
                    St[a] = t + ("%d: if-true" % st.lineno,)
                if b is not None and b not in Sf:
                    Sf[b] = t + ("%d: if-false" % st.lineno,)
            ot = self.block(st.body, St)
            of = self.block(st.orelse, Sf) if st.orelse else None
            for x in (ot, of):
                if x is None:
                    continue
                _merge(o.ret, x.ret)
                _merge(o.exc, x.exc)
                _merge(o.brk, x.brk)
                _merge(o.cont, x.cont)
            _merge(o.normal, ot.normal)
            _merge(o.normal, of.normal if of is not None else Sf)
            return o
        if isinstance(st, (ast.For, ast.While)):
            S2 = self.events(st, S, o.exc)
            test = self.test_of(st) if isinstance(st, ast.While) else None
            always = isinstance(st, ast.While) and isinstance(st.test, ast.Constant) and st.test.value is True
            head: States = dict(S2)
            exits: States = {}
            for _ in range(64):
                body_in: States = {}
                for s, t in head.items():
                    a = self.auto.on_branch(s, test, True) if test is not None else s
                    if a is not None and a not in body_in:
                        body_in[a] = t
                ob = self.block(st.body, body_in)
                _merge(o.ret, ob.ret)
                _merge(o.exc, ob.exc)
                _merge(exits, ob.brk)
                changed = _merge(head, ob.normal)
                changed = _merge(head, ob.cont) or changed
                if not changed:
                    break
            leave: States = {}
            if not always:
                for s, t in head.items():
                    b = self.auto.on_branch(s, test, False) if test is not None else s
                    if b is not None and b not in leave:
                        leave[b] = t
            if st.orelse:
                oe = self.block(st.orelse, leave)
                _merge(o.ret, oe.ret)
                _merge(o.exc, oe.exc)
                _merge(o.brk, oe.brk)
                _merge(o.cont, oe.cont)
                leave = oe.normal
            _merge(o.normal, leave)
            _merge(o.normal, exits)
            return o
        if isinstance(st, ast.With):
            S2 = self.events(st, S, o.exc)
            ob = self.block(st.body, S2)
            return self._join(o, ob)
        if isinstance(st, ast.Try):
            ob = self.block(st.body, S)
            if st.orelse:
                oe = self.block(st.orelse, ob.normal)
                ob.normal = oe.normal
                for k in ("ret", "exc", "brk", "cont"):
                    _merge(getattr(ob, k), getattr(oe, k))
            res = Out()
            res.normal = ob.normal
            res.ret = ob.ret
            res.brk = ob.brk
            res.cont = ob.cont
            pending_exc: States = dict(ob.exc)
            catches_all = False
            for h in st.handlers:
                types = self._handler_types(h)
                broad = types is None or any(t in ("Exception", "BaseException") for t in types)
                Sh: States = {}
                for s, t in pending_exc.items():
                    a = self.auto.on_handler(s, types)
                    if a is not None and a not in Sh:
                        Sh[a] = t + ("%d: except %s" % (h.lineno, ",".join(types) if types else "*"),)
                oh = self.block(h.body, Sh)
                _merge(res.normal, oh.normal)
                _merge(res.ret, oh.ret)
                _merge(res.exc, oh.exc)
                _merge(res.brk, oh.brk)
                _merge(res.cont, oh.cont)
                if broad:
                    catches_all = True
                    break
            if not catches_all:
                _merge(res.exc, pending_exc)     # a narrower handler may not match: the exception can also propagate
            if st.finalbody:
                fin = Out()
                for kind in ("normal", "ret", "exc", "brk", "cont"):
                    src = getattr(res, kind)
                    if not src:
                        continue
                    of = self.block(st.finalbody, src)
                    _merge(getattr(fin, kind), of.normal)
                    _merge(fin.ret, of.ret)
                    _merge(fin.exc, of.exc)
                res = fin
            return res
        # unknown statement kinds: pass states through
        o.normal = dict(S)
        return o

    def _join(self, o: Out, ob: Out) -> Out:
        _merge(o.normal, ob.normal)
        _merge(o.ret, ob.ret)
        _merge(o.exc, ob.exc)
        _merge(o.brk, ob.brk)
        _merge(o.cont, ob.cont)
        return o

    def _handler_types(self, h: ast.ExceptHandler) -> Optional[List[str]]:
        if h.type is None:
            return None
        nodes = h.type.elts if isinstance(h.type, ast.Tuple) else [h.type]
        return [(dotted(n) or "?").split(".")[-1] for n in nodes]


class _Viol(Exception):
    def __init__(self, what: str):
        self.what = what


def violation(what: str) -> None:
    raise _Viol(what)


# --------------------------------------------------------------------------- E6: may-raise
TOTAL_BUILTINS = {"len", "str", "int", "isinstance", "print", "list", "set", "dict", "tuple", "bool", "repr", "type", "id", "range",
                  "enumerate", "reversed", "zip", "min", "max", "sorted", "fmt", "fstr", "any", "all", "sum", "bytes", "float", "caught",
                  "getattr", "hasattr", "frozenset"}
TOTAL_EXT = {"time.time", "traceback.format_exc", "threading.Lock", "logging.getLogger", "datetime.datetime.now", "random.randrange",
             "binascii.hexlify"}
TOTAL_METHODS = {"append", "add", "clear", "insert", "extend", "get", "items", "values", "keys", "copy", "discard", "update", "format",
                 "info", "debug", "warning", "error", "startswith", "endswith", "join", "encode", "split", "strip", "isoformat", "hex",
                 "set", "mutate", "finish", "lower", "upper", "setdefault", "acquire", "release", "locked", "difference_update"}


class MayRaise:
    """Bottom-up (memoised, cycle = may raise) summary: can a call to this repo function end in an exception?"""

    def __init__(self, w: Walker):
        self.w = w
        self.repo = w.repo
        self.memo: Dict[str, Tuple[bool, str]] = {}
        self.stack: List[str] = []

    def func(self, q: str) -> Tuple[bool, str]:
        if q in self.memo:
            return self.memo[q]
        if q in self.stack:
            return True, "recursion through %s" % q
        self.stack.append(q)
        try:
            r = self._func(q)
        finally:
            self.stack.pop()
        self.memo[q] = r
        return r

    def _func(self, q: str) -> Tuple[bool, str]:
        fi = self.repo.functions.get(q)
        if fi is None:
            return True, "unknown function"
        summ = self.w.summary(q, 0)
        short = q.replace("skepticoin.", "")
        # syntactic sources, respecting enclosing catch-alls of this function
        res = self._scan(fi.node.body, fi, False)  # type: ignore
        if res:
            return True, "%s: %s" % (short, res)
        for ev in summ.events:
            if ev.chain or ev.kind != "call":
                continue
            if self._swallowed_locally(ev):
                continue
            r, why = self.event(ev)
            if r:
                return True, "%s -> %s" % (short, why)
        return False, ""

    def _swallowed_locally(self, ev: Event) -> bool:
        for ti in ev.tries:
            for types, reraises in ti.handlers:
                if (types is None or any(t.split(".")[-1] in ("Exception", "BaseException") for t in types)) and not reraises:
                    return True
        return False

    def _scan(self, body: List[ast.stmt], fi: FuncInfo, guarded: bool) -> str:
        for st in body:
            if isinstance(st, (ast.FunctionDef, ast.AsyncFunctionDef, ast.ClassDef)):
                continue
            if isinstance(st, ast.Try):
                broad = any(h.type is None or (dotted(h.type) or "").split(".")[-1] in ("Exception", "BaseException") for h in st.handlers)
                rer = any(isinstance(n, ast.Raise) for h in st.handlers for n in ast.walk(h))
                r = self._scan(st.body, fi, guarded or (broad and not rer))
                if r:
                    return r
                for h in st.handlers:
                    r = self._scan(h.body, fi, guarded)
                    if r:
                        return r
                r = self._scan(st.orelse, fi, guarded) or self._scan(st.finalbody, fi, guarded)
                if r:
                    return r
                continue
            if not guarded:
                if isinstance(st, ast.Raise):
                    return "raise at line %d" % st.lineno
                if isinstance(st, ast.Assert):
                    return "assert at line %d" % st.lineno
                if isinstance(st, ast.Delete):
                    return "del at line %d" % st.lineno
                for n in self._own_exprs(st):
                    for x in ast.walk(n):
                        if isinstance(x, ast.Subscript) and isinstance(x.ctx, ast.Load):
                            return "subscript load at line %d" % x.lineno
                        if isinstance(x, (ast.Lambda,)):
                            break
            for fld in ("body", "orelse", "finalbody"):
                sub = getattr(st, fld, None)
                if isinstance(sub, list) and sub and isinstance(sub[0], ast.stmt):
                    r = self._scan(sub, fi, guarded)
                    if r:
                        return r
        return ""

    @staticmethod
    def _own_exprs(st: ast.stmt) -> List[ast.AST]:
        out: List[ast.AST] = []
        for name, val in ast.iter_fields(st):
            if name in ("body", "orelse", "finalbody", "handlers", "annotation", "returns", "decorator_list"):
                continue
            if isinstance(val, ast.AST):
                out.append(val)
            elif isinstance(val, list):
                out.extend(v for v in val if isinstance(v, ast.AST) and not isinstance(v, ast.stmt))
        return out

    def event(self, ev: Event) -> Tuple[bool, str]:
        """may this call event raise?"""
        if ev.kind != "call" or ev.parts is None:
            return False, ""
        f = ev.parts[0]
        real = [t for t in ev.targets if not t.startswith("new:")]
        if ev.targets:
            for t in real:
                r, why = self.func(t)
                if r:
                    return True, why
            if any(t.startswith("new:") for t in ev.targets) and not real:
                return False, ""
            return False, ""
        if f[0] == "g":
            ref = f[1]
            if ref.startswith("builtin:") and ref[8:].split(".")[0] in TOTAL_BUILTINS:
                if ref in ("builtin:min", "builtin:max") and ev.term[0] == "call" and len(ev.term[2]) == 1 and not any(k_ == "default" for k_, _v in ev.term[3]):
                    return True, "%s of a possibly empty argument" % ref[8:]
                return False, ""
            if ref.startswith("ext:") and ref[4:] in TOTAL_EXT:
                return False, ""
            return True, "external call %s" % show(f)
        if f[0] == "a":
            if f[2] in TOTAL_METHODS:
                return False, ""
            if f[2] == "decode" and f[1][0] == "call" and f[1][1] == ("g", "ext:binascii.hexlify"):
                return False, ""        # hexadecimal digits are ASCII
            return True, "unresolved method call .%s()" % f[2]
        if f[0] in ("op",):
            return False, ""
        return True, "indirect call %s" % show(f)[:40]
