"""E1/E2: loader, symbol tables, import resolution, constant folder.

Pure `ast`; never imports the analysed repository.
"""
from __future__ import annotations

import ast
import binascii
import os
from typing import Any, Dict, List, Optional, Tuple


class AnalysisError(Exception):
    """The analysis left the fragment it understands (verdict UNKNOWN, exit 2)."""


PKG = "skepticoin"


class _Canon(ast.NodeTransformer):
    """control-flow spellings that are the same loop: `while True: if c: break; body`  ->  `while not c: body`"""

    def visit_While(self, node: ast.While) -> ast.AST:
        self.generic_visit(node)
        if (isinstance(node.test, ast.Constant) and node.test.value is True and not node.orelse and len(node.body) >= 2
                and isinstance(node.body[0], ast.If) and not node.body[0].orelse and len(node.body[0].body) == 1
                and isinstance(node.body[0].body[0], ast.Break)):
            first = node.body[0]
            test = ast.copy_location(ast.UnaryOp(op=ast.Not(), operand=first.test), first.test)
            new = ast.While(test=test, body=node.body[1:], orelse=[])
            return ast.copy_location(new, node)
        return node


def _names_used(node: ast.AST, name: str) -> int:
    return sum(1 for n in ast.walk(node) if isinstance(n, ast.Name) and n.id == name)


def _flag_to_else(stmts: List[ast.stmt], scope_node: ast.AST) -> List[ast.stmt]:
    """`found = False; for ..: ..; if c: found = True; break` followed by `if not found: S`  ->  `for ..: .. if c: break` `else: S`
    when the flag is used for nothing else in the enclosing function."""
    i = 0
    out = list(stmts)
    while i < len(out) - 1:
        loop, nxt = out[i], out[i + 1]
        if not (isinstance(loop, ast.For) and not loop.orelse and isinstance(nxt, ast.If) and not nxt.orelse
                and isinstance(nxt.test, ast.UnaryOp) and isinstance(nxt.test.op, ast.Not) and isinstance(nxt.test.operand, ast.Name)):
            i += 1
            continue
        flag = nxt.test.operand.id
        init = [j for j in range(i) if isinstance(out[j], ast.Assign) and len(out[j].targets) == 1 and isinstance(out[j].targets[0], ast.Name)
                and out[j].targets[0].id == flag and isinstance(out[j].value, ast.Constant) and out[j].value.value is False]
        if not init:
            i += 1
            continue
        j = init[-1]
        # every use of the flag in the function: the initialisation, `flag = True` right before each break of this loop, the test
        sets: List[Tuple[List[ast.stmt], int]] = []
        ok = True
        n_breaks = 0

        def scan(body: List[ast.stmt]) -> None:
            nonlocal ok, n_breaks
            for k, st in enumerate(body):
                if isinstance(st, ast.Break):
                    n_breaks += 1
                    prev = body[k - 1] if k > 0 else None
                    if (isinstance(prev, ast.Assign) and len(prev.targets) == 1 and isinstance(prev.targets[0], ast.Name) and prev.targets[0].id == flag
                            and isinstance(prev.value, ast.Constant) and prev.value.value is True):
                        sets.append((body, k - 1))
                    else:
                        ok = False
                elif isinstance(st, (ast.For, ast.While, ast.FunctionDef, ast.AsyncFunctionDef, ast.ClassDef)):
                    if _names_used(st, flag) or any(isinstance(b, ast.Break) for b in ast.walk(st)) and False:
                        ok = False
                else:
                    for fld in ("body", "orelse", "finalbody"):
                        sub = getattr(st, fld, None)
                        if isinstance(sub, list) and sub and isinstance(sub[0], ast.stmt):
                            scan(sub)
                    for h in getattr(st, "handlers", []) or []:
                        scan(h.body)
        scan(loop.body)
        total = _names_used(scope_node, flag)
        if not ok or n_breaks == 0 or len(sets) != n_breaks or total != 2 + len(sets):
            i += 1
            continue
        for body, k in sorted(sets, key=lambda bk: -bk[1]):
            del body[k]
        loop.orelse = nxt.body
        del out[i + 1]
        del out[j]
        i = max(i - 1, 0) + 1
    return out


class _FlagCanon(ast.NodeTransformer):
    def _fn(self, node: ast.AST) -> ast.AST:
        self.generic_visit(node)
        for sub in ast.walk(node):
            if sub is not node and isinstance(sub, (ast.FunctionDef, ast.AsyncFunctionDef, ast.Lambda, ast.ClassDef)):
                continue
            for fld in ("body", "orelse", "finalbody"):
                lst = getattr(sub, fld, None)
                if isinstance(lst, list) and lst and isinstance(lst[0], ast.stmt):
                    setattr(sub, fld, _flag_to_else(lst, node))
        return node

    visit_FunctionDef = _fn
    visit_AsyncFunctionDef = _fn


class Module:
    def __init__(self, name: str, path: str, source: str):
        self.name = name
        self.path = path
        self.source = source
        self.tree = ast.parse(source, filename=path)      # canonicalised by Repo._load (generators first: that pass looks at all modules)
        self.lines = source.splitlines()
        # local name -> ('mod', modname) | ('sym', modname, symbol)
        self.imports: Dict[str, Tuple[str, ...]] = {}
        self.consts: Dict[str, Any] = {}
        self.assign_nodes: Dict[str, ast.AST] = {}

    @property
    def relpath(self) -> str:
        return self.path


class FuncInfo:
    def __init__(self, qualname: str, node: ast.AST, module: Module, cls: Optional["ClassInfo"], parent: Optional["FuncInfo"]):
        self.qualname = qualname
        self.node = node
        self.module = module
        self.cls = cls
        self.parent = parent
        self.name = node.name  # type: ignore
        self.decorators = [_dec_name(d) for d in node.decorator_list]  # type: ignore
        self.local_imports: Dict[str, Tuple[str, ...]] = {}

    @property
    def is_classmethod(self) -> bool:
        return "classmethod" in self.decorators

    @property
    def is_staticmethod(self) -> bool:
        return "staticmethod" in self.decorators

    @property
    def is_property(self) -> bool:
        return "property" in self.decorators

    @property
    def params(self) -> List[str]:
        a = self.node.args  # type: ignore
        return [x.arg for x in a.posonlyargs + a.args]

    @property
    def kwonly(self) -> List[str]:
        return [x.arg for x in self.node.args.kwonlyargs]  # type: ignore

    def param_annotation(self, name: str) -> Optional[ast.AST]:
        a = self.node.args  # type: ignore
        for x in a.posonlyargs + a.args + a.kwonlyargs:
            if x.arg == name:
                return x.annotation
        return None

    def defaults(self) -> Dict[str, ast.AST]:
        a = self.node.args  # type: ignore
        pos = a.posonlyargs + a.args
        out = {}
        for p, d in zip(pos[len(pos) - len(a.defaults):], a.defaults):
            out[p.arg] = d
        for p, d in zip(a.kwonlyargs, a.kw_defaults):
            if d is not None:
                out[p.arg] = d
        return out

    @property
    def loc(self) -> str:
        return "%s:%d" % (self.module.path, self.node.lineno)  # type: ignore

    def __repr__(self) -> str:
        return "<Func %s>" % self.qualname


class ClassInfo:
    def __init__(self, qualname: str, node: ast.ClassDef, module: Module):
        self.qualname = qualname
        self.node = node
        self.module = module
        self.name = node.name
        self.base_exprs = node.bases
        self.bases: List[str] = []  # resolved qualnames (repo) or 'ext:<dotted>'
        self.methods: Dict[str, FuncInfo] = {}
        self.class_attrs: Dict[str, ast.AST] = {}

    def __repr__(self) -> str:
        return "<Class %s>" % self.qualname


def _dec_name(d: ast.AST) -> str:
    if isinstance(d, ast.Name):
        return d.id
    if isinstance(d, ast.Attribute):
        return d.attr
    if isinstance(d, ast.Call):
        return _dec_name(d.func)
    return "?"


def dotted(node: ast.AST) -> Optional[str]:
    if isinstance(node, ast.Name):
        return node.id
    if isinstance(node, ast.Attribute):
        b = dotted(node.value)
        return None if b is None else b + "." + node.attr
    return None


class FoldRaised(AnalysisError):
    """the evaluated code reaches a raise statement (or a failing assert) on the given values"""


class Repo:
    def __init__(self, root: str):
        self.root = os.path.abspath(root)
        self.modules: Dict[str, Module] = {}
        self.functions: Dict[str, FuncInfo] = {}
        self.classes: Dict[str, ClassInfo] = {}
        self.func_by_node: Dict[int, FuncInfo] = {}
        self._folding: set = set()
        self._load()

    # ------------------------------------------------------------------ loading
    def _load(self) -> None:
        pkgdir = os.path.join(self.root, PKG)
        if not os.path.isdir(pkgdir):
            raise AnalysisError("package directory %s not found" % pkgdir)
        for dirpath, dirnames, filenames in os.walk(pkgdir):
            dirnames[:] = sorted(d for d in dirnames if d != "__pycache__")
            for fn in sorted(filenames):
                if not fn.endswith(".py"):
                    continue
                path = os.path.join(dirpath, fn)
                rel = os.path.relpath(path, self.root)
                parts = rel[:-3].split(os.sep)
                if parts[-1] == "__init__":
                    parts = parts[:-1]
                name = ".".join(parts)
                with open(path, "r", encoding="utf-8") as f:
                    src = f.read()
                try:
                    self.modules[name] = Module(name, path, src)
                except SyntaxError as e:
                    raise AnalysisError("cannot parse %s: %s" % (path, e))
        # load-time canonicalisations (9.11 - 9.14). Each pass is an optimisation of the analysis, not a premise of it: should one of them
        # fail on some construct, its effects are undone (the trees are restored from a copy) and the analysis goes on without it -
        # refactorings it would have absorbed may then be reported, but nothing is hidden and nothing crashes.
        from .classcanon import canon_helper_objects, canon_memo_attributes
        from .gencanon import canon_context_managers, canon_generators
        from .libcanon import canon_library
        from .deccanon import canon_decorators
        self.canon_failures: List[str] = []
        self.memo_attributes: Dict[str, str] = {}
        self.helper_objects_expanded: Dict[str, int] = {}
        self.context_managers_expanded: Dict[str, str] = {}
        self.generators_rewritten: Dict[str, str] = {}
        self.decorators_expanded: Dict[str, str] = {}
        for m in self.modules.values():
            m.tree._modname = m.name        # type: ignore[attr-defined]

        passes = [("decorators", canon_decorators, "decorators_expanded"), ("library idioms", canon_library, None), ("memo attributes", canon_memo_attributes, "memo_attributes"),
                  ("helper objects", canon_helper_objects, "helper_objects_expanded"),
                  ("context managers", canon_context_managers, "context_managers_expanded"), ("generators", canon_generators, "generators_rewritten")]
        skip: set = set()
        while True:
            failed = None
            for name, fn, attr in passes:
                if name in skip:
                    continue
                try:
                    r = fn([m.tree for m in self.modules.values()])
                    if attr is not None and r is not None:
                        setattr(self, attr, r)
                except Exception as e:       # noqa: BLE001 - any failure of a pass means: do without the pass
                    self.canon_failures.append("%s: %s: %s" % (name, type(e).__name__, str(e)[:120]))
                    failed = name
                    break
            if failed is None:
                break
            # start over from the source text, without the pass that failed (the trees may be half rewritten)
            skip.add(failed)
            for m in self.modules.values():
                m.tree = ast.parse(m.source, filename=m.path)
                m.tree._modname = m.name        # type: ignore[attr-defined]
        for m in self.modules.values():
            m.tree = _FlagCanon().visit(_Canon().visit(m.tree))
        for m in self.modules.values():
            self._index_imports(m, m.tree.body, m.imports)
            self._index_defs(m)
        for c in self.classes.values():
            c.bases = [self._resolve_base(c, b) for b in c.base_exprs]

    def _abs_module(self, m: Module, node: ast.ImportFrom) -> str:
        if node.level == 0:
            return node.module or ""
        parts = m.name.split(".")
        is_pkg = m.path.endswith("__init__.py")
        base = parts if is_pkg else parts[:-1]
        if node.level > 1:
            base = base[: len(base) - (node.level - 1)]
        return ".".join(base + ([node.module] if node.module else []))

    def _index_imports(self, m: Module, body: List[ast.stmt], table: Dict[str, Tuple[str, ...]]) -> None:
        for st in body:
            if isinstance(st, ast.Import):
                for a in st.names:
                    if a.asname:
                        table[a.asname] = ("mod", a.name)
                    else:
                        table[a.name.split(".")[0]] = ("mod", a.name.split(".")[0])
            elif isinstance(st, ast.ImportFrom):
                mod = self._abs_module(m, st)
                for a in st.names:
                    table[a.asname or a.name] = ("sym", mod, a.name)
            elif isinstance(st, ast.If):
                # `if TYPE_CHECKING:` blocks and the like
                self._index_imports(m, st.body, table)
                self._index_imports(m, st.orelse, table)
            elif isinstance(st, ast.Try):
                self._index_imports(m, st.body, table)

    def _index_defs(self, m: Module) -> None:
        def visit(body: List[ast.stmt], prefix: str, cls: Optional[ClassInfo], parent: Optional[FuncInfo]) -> None:
            for st in body:
                if isinstance(st, (ast.FunctionDef, ast.AsyncFunctionDef)):
                    q = prefix + "." + st.name
                    fi = FuncInfo(q, st, m, cls, parent)
                    self.functions[q] = fi
                    self.func_by_node[id(st)] = fi
                    if cls is not None and parent is None:
                        cls.methods[st.name] = fi
                    for sub in ast.walk(st):
                        if isinstance(sub, (ast.Import, ast.ImportFrom)):
                            self._index_imports(m, [sub], fi.local_imports)
                    visit(st.body, q, None, fi)
                elif isinstance(st, ast.ClassDef):
                    q = prefix + "." + st.name
                    ci = ClassInfo(q, st, m)
                    self.classes[q] = ci
                    for s2 in st.body:
                        if isinstance(s2, ast.Assign) and len(s2.targets) == 1 and isinstance(s2.targets[0], ast.Name):
                            ci.class_attrs[s2.targets[0].id] = s2.value
                        elif isinstance(s2, ast.AnnAssign) and isinstance(s2.target, ast.Name):
                            ci.class_attrs[s2.target.id] = s2.value if s2.value is not None else s2.annotation
                    visit(st.body, q, ci, parent)
                elif isinstance(st, (ast.If, ast.Try, ast.With, ast.For, ast.While)):
                    for fld in ("body", "orelse", "finalbody"):
                        visit(getattr(st, fld, []) or [], prefix, cls, parent)
                    for h in getattr(st, "handlers", []) or []:
                        visit(h.body, prefix, cls, parent)
                elif isinstance(st, ast.Assign) and prefix == m.name:
                    for t in st.targets:
                        if isinstance(t, ast.Name):
                            m.assign_nodes[t.id] = st.value
                elif isinstance(st, ast.AnnAssign) and prefix == m.name and isinstance(st.target, ast.Name) and st.value is not None:
                    m.assign_nodes[st.target.id] = st.value
        visit(m.tree.body, m.name, None, None)

    def _resolve_base(self, c: ClassInfo, b: ast.AST) -> str:
        r = self.resolve_name_node(c.module, b, None)
        if r and r[0] == "cls":
            return r[1]
        d = dotted(b)
        return "ext:" + (d or "?")

    # --------------------------------------------------------------- resolution
    def resolve_symbol(self, modname: str, sym: str, _seen: Optional[set] = None) -> Optional[Tuple[str, str]]:
        """('fn'|'cls'|'const'|'mod'|'ext', qualname) for `sym` defined in or re-exported from modname."""
        _seen = _seen or set()
        if (modname, sym) in _seen:
            return None
        _seen.add((modname, sym))
        m = self.modules.get(modname)
        if m is None:
            # maybe `from package import module`
            if modname + "." + sym in self.modules:
                return ("mod", modname + "." + sym)
            return ("ext", modname + "." + sym)
        q = modname + "." + sym
        if q in self.functions and self.functions[q].cls is None and self.functions[q].parent is None:
            return ("fn", q)
        if q in self.classes:
            return ("cls", q)
        if sym in m.assign_nodes:
            return ("const", q)
        if sym in m.imports:
            imp = m.imports[sym]
            if imp[0] == "mod":
                return ("mod", imp[1]) if imp[1] in self.modules else ("ext", imp[1])
            return self.resolve_symbol(imp[1], imp[2], _seen)
        if q in self.modules:
            return ("mod", q)
        return None

    def resolve_name(self, m: Module, name: str, func: Optional[FuncInfo]) -> Optional[Tuple[str, str]]:
        """Resolve a bare global/imported name as seen from module m (and function-local imports of func)."""
        f = func
        while f is not None:
            if name in f.local_imports:
                imp = f.local_imports[name]
                if imp[0] == "mod":
                    return ("mod", imp[1]) if imp[1] in self.modules else ("ext", imp[1])
                return self.resolve_symbol(imp[1], imp[2])
            # nested function definitions visible by name
            q = f.qualname + "." + name
            if q in self.functions:
                return ("fn", q)
            if q in self.classes:
                return ("cls", q)
            f = f.parent
        q = m.name + "." + name
        if q in self.functions and self.functions[q].cls is None and self.functions[q].parent is None:
            return ("fn", q)
        if q in self.classes:
            return ("cls", q)
        if name in m.assign_nodes:
            return ("const", q)
        if name in m.imports:
            imp = m.imports[name]
            if imp[0] == "mod":
                return ("mod", imp[1]) if imp[1] in self.modules else ("ext", imp[1])
            return self.resolve_symbol(imp[1], imp[2])
        return None

    def resolve_name_node(self, m: Module, node: ast.AST, func: Optional[FuncInfo]) -> Optional[Tuple[str, str]]:
        if isinstance(node, ast.Name):
            return self.resolve_name(m, node.id, func)
        if isinstance(node, ast.Attribute):
            b = self.resolve_name_node(m, node.value, func)
            if b is None:
                return None
            if b[0] == "mod":
                return self.resolve_symbol(b[1], node.attr)
            if b[0] == "ext":
                return ("ext", b[1] + "." + node.attr)
            if b[0] == "cls":
                ci = self.classes[b[1]]
                mi = self.find_method(ci.qualname, node.attr)
                if mi is not None:
                    return ("fn", mi.qualname)
                if node.attr in ci.class_attrs:
                    return ("clsattr", b[1] + "." + node.attr)
        return None

    # ------------------------------------------------------------------ classes
    def mro(self, q: str) -> List[str]:
        out: List[str] = []
        todo = [q]
        while todo:
            c = todo.pop(0)
            if c in out or c not in self.classes:
                continue
            out.append(c)
            todo.extend(b for b in self.classes[c].bases if not b.startswith("ext:"))
        return out

    def find_method(self, cls_q: str, name: str) -> Optional[FuncInfo]:
        for c in self.mro(cls_q):
            mi = self.classes[c].methods.get(name)
            if mi is not None:
                return mi
        return None

    def subclasses(self, q: str, strict: bool = True) -> List[str]:
        out = []
        for c in sorted(self.classes):
            if c == q and strict:
                continue
            if q in self.mro(c):
                out.append(c)
        return out

    def has_external_base(self, q: str) -> bool:
        for c in self.mro(q):
            for b in self.classes[c].bases:
                if b.startswith("ext:") and b != "ext:object":
                    return True
        return False

    def func(self, q: str) -> FuncInfo:
        if q not in self.functions:
            raise AnalysisError("anchored function %s not found in the tree" % q)
        return self.functions[q]

    def cls(self, q: str) -> ClassInfo:
        if q not in self.classes:
            raise AnalysisError("anchored class %s not found in the tree" % q)
        return self.classes[q]

    def module(self, name: str) -> Module:
        if name not in self.modules:
            raise AnalysisError("anchored module %s not found in the tree" % name)
        return self.modules[name]

    # ------------------------------------------------------------- const folder
    def const(self, q: str) -> Any:
        """Folded value of module-level constant `module.NAME`; raises AnalysisError if not foldable."""
        modname, _, name = q.rpartition(".")
        m = self.modules.get(modname)
        if m is None or name not in m.assign_nodes:
            raise AnalysisError("constant %s not found" % q)
        if name in m.consts:
            return m.consts[name]
        if q in self._folding:
            raise AnalysisError("cyclic constant %s" % q)
        self._folding.add(q)
        try:
            v = self.fold(m.assign_nodes[name], m, None, {})
        finally:
            self._folding.discard(q)
        m.consts[name] = v
        return v

    def try_const(self, q: str) -> Tuple[bool, Any]:
        try:
            return True, self.const(q)
        except AnalysisError:
            return False, None

    def fold(self, node: ast.AST, m: Module, func: Optional[FuncInfo], env: Dict[str, Any]) -> Any:
        """Evaluate a constant expression over a small explicit sublanguage."""
        F = lambda n: self.fold(n, m, func, env)  # noqa
        if isinstance(node, ast.Constant):
            return node.value
        if isinstance(node, ast.Name):
            if node.id in env:
                return env[node.id]
            if node.id in ("True", "False", "None"):
                return {"True": True, "False": False, "None": None}[node.id]
            r = self.resolve_name(m, node.id, func)
            if r and r[0] == "const":
                return self.const(r[1])
            raise AnalysisError("not a constant: %s" % node.id)
        if isinstance(node, ast.Attribute):
            r = self.resolve_name_node(m, node, func)
            if r and r[0] == "const":
                return self.const(r[1])
            raise AnalysisError("not a constant: %s" % ast.unparse(node))
        if isinstance(node, ast.Tuple):
            return tuple(F(e) for e in node.elts)
        if isinstance(node, ast.List):
            return [F(e) for e in node.elts]
        if isinstance(node, ast.Dict):
            return {F(k): F(v) for k, v in zip(node.keys, node.values)}  # type: ignore
        if isinstance(node, ast.UnaryOp):
            v = F(node.operand)
            if isinstance(node.op, ast.USub):
                return -v
            if isinstance(node.op, ast.UAdd):
                return +v
            if isinstance(node.op, ast.Not):
                return not v
            if isinstance(node.op, ast.Invert):
                return ~v
        if isinstance(node, ast.BinOp):
            a, b = F(node.left), F(node.right)
            op = node.op
            try:
                if isinstance(op, ast.Add):
                    return a + b
                if isinstance(op, ast.Sub):
                    return a - b
                if isinstance(op, ast.Mult):
                    if isinstance(a, (bytes, str, list)) and isinstance(b, int) and b > 1 << 20:
                        raise AnalysisError("repeat too large")
                    return a * b
                if isinstance(op, ast.FloorDiv):
                    return a // b
                if isinstance(op, ast.Div):
                    return a / b
                if isinstance(op, ast.Mod):
                    return a % b
                if isinstance(op, ast.Pow):
                    if isinstance(b, int) and abs(b) > 4096:
                        raise AnalysisError("pow too large")
                    return a ** b
                if isinstance(op, ast.LShift):
                    if b > 4096:
                        raise AnalysisError("shift too large")
                    return a << b
                if isinstance(op, ast.RShift):
                    return a >> b
                if isinstance(op, ast.BitAnd):
                    return a & b
                if isinstance(op, ast.BitOr):
                    return a | b
                if isinstance(op, ast.BitXor):
                    return a ^ b
            except (TypeError, ZeroDivisionError, ValueError) as e:
                raise AnalysisError("cannot fold %s: %s" % (ast.unparse(node), e))
        if isinstance(node, ast.Compare) and len(node.ops) > 1:
            left = node.left
            for op_, right in zip(node.ops, node.comparators):
                if not self.fold(ast.Compare(left=left, ops=[op_], comparators=[right]), m, func, env):
                    return False
                left = right
            return True
        if isinstance(node, ast.BoolOp):
            v: Any = isinstance(node.op, ast.And)
            for x in node.values:
                v = F(x)
                if bool(v) != isinstance(node.op, ast.And):
                    return v
            return v
        if isinstance(node, ast.Compare) and len(node.ops) == 1:
            a, b = F(node.left), F(node.comparators[0])
            op = node.ops[0]
            try:
                if isinstance(op, ast.Eq):
                    return a == b
                if isinstance(op, ast.NotEq):
                    return a != b
                if isinstance(op, ast.Lt):
                    return a < b
                if isinstance(op, ast.LtE):
                    return a <= b
                if isinstance(op, ast.Gt):
                    return a > b
                if isinstance(op, ast.GtE):
                    return a >= b
            except TypeError as e:
                raise AnalysisError(str(e))
        if isinstance(node, ast.Subscript):
            base = F(node.value)
            try:
                if isinstance(node.slice, ast.Slice):
                    lo = F(node.slice.lower) if node.slice.lower is not None else None
                    hi = F(node.slice.upper) if node.slice.upper is not None else None
                    st_ = F(node.slice.step) if node.slice.step is not None else None
                    return base[lo:hi:st_]
                return base[F(node.slice)]
            except (IndexError, KeyError) as e:
                raise FoldRaised("%s: %s" % (type(e).__name__, ast.unparse(node)[:80]))
            except TypeError as e:
                raise AnalysisError("cannot fold %s: %s" % (ast.unparse(node)[:80], e))
        if isinstance(node, (ast.ListComp, ast.GeneratorExp, ast.SetComp)) and len(node.generators) == 1 and isinstance(node.generators[0].target, ast.Name):
            g = node.generators[0]
            seq = F(g.iter)
            if not isinstance(seq, (list, tuple, range)) or len(seq) > 100000:
                raise AnalysisError("cannot fold %s" % ast.unparse(node)[:80])
            out_l = []
            for v in seq:
                env2 = dict(env)
                env2[g.target.id] = v
                if all(self.fold(c, m, func, env2) for c in g.ifs):
                    out_l.append(self.fold(node.elt, m, func, env2))
            return set(out_l) if isinstance(node, ast.SetComp) else out_l
        if isinstance(node, ast.IfExp):
            return F(node.body) if F(node.test) else F(node.orelse)
        if isinstance(node, ast.JoinedStr):
            raise AnalysisError("f-string is not a constant")
        if isinstance(node, ast.Call):
            return self._fold_call(node, m, func, env)
        raise AnalysisError("cannot fold %s" % ast.unparse(node)[:80])

    def _fold_call(self, node: ast.Call, m: Module, func: Optional[FuncInfo], env: Dict[str, Any]) -> Any:
        F = lambda n: self.fold(n, m, func, env)  # noqa
        # islice(accumulate(repeat(x), f), n): x, f(x, x), f(f(x, x), x), ... (n values); bounded, f a function of the package
        dn = (dotted(node.func) or "").split(".")[-1]
        if dn == "islice" and len(node.args) == 2 and isinstance(node.args[0], ast.Call) and (dotted(node.args[0].func) or "").split(".")[-1] == "accumulate":
            acc = node.args[0]
            src = acc.args[0] if acc.args else None
            fn_node = acc.args[1] if len(acc.args) > 1 else next((k.value for k in acc.keywords if k.arg == "func"), None)
            n_ = F(node.args[1])
            if isinstance(src, ast.Call) and (dotted(src.func) or "").split(".")[-1] == "repeat" and len(src.args) == 1 and fn_node is not None \
                    and isinstance(n_, int) and 0 <= n_ <= 100000 and isinstance(fn_node, ast.Name):
                x = F(src.args[0])
                r = self.resolve_name(m, fn_node.id, func)
                if r and r[0] == "fn":
                    out = []
                    cur = x
                    for i in range(n_):
                        if i:
                            cur = self._fold_repo_call(r[1], [cur, x], {})
                        out.append(cur)
                    return out
        if isinstance(node.func, ast.Name) and node.func.id == "isinstance" and len(node.args) == 2 and "isinstance" not in env:
            types = {"int": int, "bool": bool, "float": float, "str": str, "bytes": bytes, "list": list, "tuple": tuple, "dict": dict}
            tn = node.args[1].elts if isinstance(node.args[1], ast.Tuple) else [node.args[1]]
            if all(isinstance(t, ast.Name) and t.id in types for t in tn):
                return isinstance(F(node.args[0]), tuple(types[t.id] for t in tn))      # type: ignore[union-attr]
            raise AnalysisError("cannot fold %s" % ast.unparse(node)[:80])
        args = [F(a) for a in node.args]
        kw = {k.arg: F(k.value) for k in node.keywords if k.arg}
        fn = node.func
        name = dotted(fn)
        if isinstance(fn, ast.Name) and fn.id not in env:
            r = self.resolve_name(m, fn.id, func)
            if r is None:
                if fn.id == "int" and len(args) == 1 and not kw:
                    return int(args[0])
                if fn.id == "pow" and len(args) == 2:
                    if isinstance(args[1], int) and abs(args[1]) > 4096:
                        raise AnalysisError("pow too large")
                    return pow(args[0], args[1])
                if fn.id in ("min", "max") and args:
                    return (min if fn.id == "min" else max)(*args)
                if fn.id == "len" and len(args) == 1:
                    return len(args[0])
                if fn.id == "range" and 1 <= len(args) <= 3 and all(isinstance(a, int) for a in args):
                    r_ = range(*args)
                    if len(r_) > 100000:
                        raise AnalysisError("range too large")
                    return r_
                if fn.id in ("list", "tuple", "sorted", "set", "frozenset") and len(args) == 1:
                    return {"list": list, "tuple": tuple, "sorted": sorted, "set": set, "frozenset": frozenset}[fn.id](args[0])
                if fn.id == "bytes" and len(args) == 1 and isinstance(args[0], (int, list, tuple)):
                    return bytes(args[0])
                if fn.id == "abs" and len(args) == 1:
                    return abs(args[0])
                if fn.id in ("any", "all") and len(args) == 1 and isinstance(args[0], (list, tuple, set, range)) and not kw:
                    return (any if fn.id == "any" else all)(args[0])
                if fn.id == "sum" and len(args) == 1 and isinstance(args[0], (list, tuple, range)) and not kw \
                        and all(isinstance(x, int) for x in args[0]):
                    return sum(args[0])
            elif r[0] == "fn":
                return self._fold_repo_call(r[1], args, kw)
            elif r[0] == "ext":
                if r[1] in ("binascii.unhexlify", "binascii.a2b_hex") and len(args) == 1:
                    try:
                        return binascii.unhexlify(args[0])
                    except (binascii.Error, TypeError) as e:
                        raise AnalysisError("unhexlify: %s" % e)
                if r[1] in ("binascii.hexlify",) and len(args) == 1:
                    return binascii.hexlify(args[0])
        if isinstance(fn, ast.Attribute):
            if name == "int.from_bytes":
                bo = kw.get("byteorder", args[1] if len(args) > 1 else "big")
                return int.from_bytes(args[0], bo, signed=kw.get("signed", False))
            if name == "bytes.fromhex" and len(args) == 1:
                return bytes.fromhex(args[0])
            recv = F(fn.value)
            if fn.attr == "to_bytes" and isinstance(recv, int):
                length = kw.get("length", args[0] if args else 1)
                bo = kw.get("byteorder", args[1] if len(args) > 1 else "big")
                try:
                    return recv.to_bytes(length, bo, signed=kw.get("signed", False))
                except OverflowError as e:
                    raise AnalysisError(str(e))
            if fn.attr == "keys" and isinstance(recv, dict):
                return list(recv.keys())
            if fn.attr == "values" and isinstance(recv, dict):
                return list(recv.values())
            if fn.attr == "encode" and isinstance(recv, str):
                return recv.encode(*args)
            if fn.attr == "decode" and isinstance(recv, bytes):
                return recv.decode(*args)
            if fn.attr == "bit_length" and isinstance(recv, int):
                return recv.bit_length()
            if fn.attr == "join" and isinstance(recv, (bytes, str)) and len(args) == 1:
                return recv.join(args[0])
        raise AnalysisError("cannot fold call %s" % ast.unparse(node)[:80])

    def _fold_repo_call(self, q: str, args: List[Any], kw: Dict[str, Any]) -> Any:
        """Inline a repo function whose body is (docstring +) a single `return <expr>`."""
        fi = self.functions[q]
        body = [s for s in fi.node.body if not (isinstance(s, ast.Expr) and isinstance(s.value, ast.Constant))]  # type: ignore
        if any(isinstance(s, (ast.If, ast.Raise, ast.Assert, ast.Try)) for s in body):
            env0: Dict[str, Any] = dict(zip(fi.params, args))
            env0.update(kw)
            done, val = self.eval_statements(fi, body, env0)
            return val if done else None
        # straight-line body: simple assignments to fresh local names, then a single `return <expr>`
        if not body or not isinstance(body[-1], ast.Return) or body[-1].value is None:
            raise AnalysisError("cannot fold call to %s (not a straight-line single-return function)" % q)
        env: Dict[str, Any] = {}
        for p, a in zip(fi.params, args):
            env[p] = a
        env.update(kw)
        for st in body[:-1]:
            tgt = val = None
            if isinstance(st, ast.Assign) and len(st.targets) == 1:
                tgt, val = st.targets[0], st.value
            elif isinstance(st, ast.AnnAssign) and st.value is not None:
                tgt, val = st.target, st.value
            if not isinstance(tgt, ast.Name) or val is None:
                raise AnalysisError("cannot fold call to %s (not a straight-line single-return function)" % q)
            env[tgt.id] = self.fold(val, fi.module, fi, env)
        return self.fold(body[-1].value, fi.module, fi, env)

    def eval_statements(self, fi: FuncInfo, stmts: List[ast.stmt], env: Dict[str, Any]) -> Tuple[bool, Any]:
        """evaluate a block of the constant sublanguage on concrete values: (returned?, value); a raise statement that is reached is a
        FoldRaised. Loops and anything with an effect are outside the sublanguage."""
        for st in stmts:
            if isinstance(st, ast.Return):
                return True, (self.fold(st.value, fi.module, fi, env) if st.value is not None else None)
            if isinstance(st, ast.Assign) and len(st.targets) == 1 and isinstance(st.targets[0], ast.Name):
                env[st.targets[0].id] = self.fold(st.value, fi.module, fi, env)
            elif isinstance(st, ast.AnnAssign) and isinstance(st.target, ast.Name) and st.value is not None:
                env[st.target.id] = self.fold(st.value, fi.module, fi, env)
            elif isinstance(st, ast.AugAssign) and isinstance(st.target, ast.Name) and st.target.id in env:
                env[st.target.id] = self.fold(ast.BinOp(left=ast.Name(id=st.target.id, ctx=ast.Load()), op=st.op, right=st.value), fi.module, fi, env)
            elif isinstance(st, ast.If):
                done, val = self.eval_statements(fi, st.body if self.fold(st.test, fi.module, fi, env) else st.orelse, env)
                if done:
                    return True, val
            elif isinstance(st, ast.Raise):
                raise FoldRaised(ast.unparse(st)[:120])
            elif isinstance(st, ast.Try):
                # the protected statements on these values; a failure inside them is "cannot fold" (handlers are not modelled)
                done, val = self.eval_statements(fi, st.body, env)
                if not done and st.orelse:
                    done, val = self.eval_statements(fi, st.orelse, env)
                if st.finalbody:
                    d2, v2 = self.eval_statements(fi, st.finalbody, env)
                    if d2:
                        return True, v2
                if done:
                    return True, val
            elif isinstance(st, ast.Assert):
                if not self.fold(st.test, fi.module, fi, env):
                    raise FoldRaised(ast.unparse(st)[:120])
            elif isinstance(st, ast.Expr) and isinstance(st.value, ast.Constant):
                continue
            elif isinstance(st, ast.Expr) and isinstance(st.value, ast.Call):
                self.fold(st.value, fi.module, fi, env)
            elif isinstance(st, ast.Pass):
                continue
            else:
                raise AnalysisError("%s uses a statement outside the evaluated sublanguage: %s" % (fi.name, type(st).__name__))
        return False, None

    def raw_function(self, fi: FuncInfo) -> ast.AST:
        """the function as written (before the load-time canonicalisations), for rules about the spelling itself"""
        cache = self.__dict__.setdefault("_raw_trees", {})
        tree = cache.get(fi.module.name)
        if tree is None:
            tree = cache[fi.module.name] = ast.parse(fi.module.source, filename=fi.module.path)
        for n in ast.walk(tree):
            if isinstance(n, (ast.FunctionDef, ast.AsyncFunctionDef)) and n.name == fi.name and n.lineno == fi.node.lineno:      # type: ignore[attr-defined]
                return n
        return fi.node

    # ----------------------------------------------------------------- helpers
    def src(self, node: ast.AST) -> str:
        try:
            return ast.unparse(node)
        except Exception:
            return "<?>"

    def all_functions(self) -> List[FuncInfo]:
        return [self.functions[q] for q in sorted(self.functions)]


def func_body(fi: FuncInfo) -> List[ast.stmt]:
    """Body without the docstring."""
    body = fi.node.body  # type: ignore
    if body and isinstance(body[0], ast.Expr) and isinstance(body[0].value, ast.Constant) and isinstance(body[0].value.value, str):
        return body[1:]
    return body
