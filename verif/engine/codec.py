"""E10: codec extractor. For every Serializable subclass: the writer's and the reader's field sequences as lists of
primitives, tag-dispatch tables, constructor parameter -> attribute map, id-from-raw-bytes spans.

Primitives (tuples):
  ('raw', n, field)            n bytes verbatim (n None on the writer side: width is whatever the attribute holds)
  ('uint', width, order, field) fixed-width unsigned integer (struct B/H/I/Q or int.to_bytes/from_bytes)
  ('const', bytes)             constant bytes; reader side: strictly compared
  ('lenient', n, name)         reader reads n bytes into a value that is never used / not compared
  ('ignored', n)               reader discards n bytes
  ('vlq', field)               variable-length quantity holding an attribute
  ('lp', width, field)         length prefix (width bytes, or 'vlq') followed by that many raw bytes of field
  ('list', T, field)           vlq count + elements of class T (T None on the writer side)
  ('rawlist', n, field)        vlq count + n-byte raw elements
  ('nested', T, field)         nested object of class T (a dispatching base means tagged union)
  ('ip16', field)              16-byte packed IPv6 address
  ('bytag', tagfield, field)   object whose class is selected by a previously read tag field through a table
"""
from __future__ import annotations

import ast
import struct
from typing import Any, Dict, List, Optional, Tuple

from .repo import AnalysisError, ClassInfo, FuncInfo, Module, Repo, dotted, func_body

SER = "skepticoin.serialization."
Prim = Tuple[Any, ...]

STRUCT_CODES = {"B": 1, "H": 2, "I": 4, "L": 4, "Q": 8}


class Dispatch:
    def __init__(self) -> None:
        self.width: Optional[int] = None
        self.table: List[Tuple[bytes, str]] = []
        self.fallthrough_raises = False
        self.line = 0


class Codec:
    def __init__(self, cls: ClassInfo):
        self.cls = cls
        self.q = cls.qualname
        self.writer: Optional[List[Prim]] = None
        self.reader: Optional[List[Prim]] = None
        self.reader_args: List[Optional[str]] = []     # per reader primitive: constructor parameter it feeds (or None)
        self.dispatch: Optional[Dispatch] = None
        self.ctor: Dict[str, str] = {}                 # ctor param -> attribute
        self.ctor_consts: Dict[str, Any] = {}          # attribute fixed to a constant by __init__
        self.ctor_params: List[str] = []
        self.span: Optional[Dict[str, Any]] = None     # id computed from the raw bytes consumed
        self.problems: List[str] = []
        self.raw_reads: List[Tuple[int, str]] = []     # f.read(...) sites not through safe_read
        self.reader_fi: Optional[FuncInfo] = None
        self.writer_fi: Optional[FuncInfo] = None

    @property
    def name(self) -> str:
        return self.cls.name


def fmt_prim(fmt: bytes | str) -> Optional[Tuple[int, str]]:
    s = fmt.decode() if isinstance(fmt, bytes) else fmt
    order = "big"
    if s and s[0] in "><!=@":
        if s[0] == "<":
            order = "little"
        elif s[0] in "=@":
            return None
        s = s[1:]
    if len(s) != 1 or s not in STRUCT_CODES:
        return None
    return STRUCT_CODES[s], order


class Extractor:
    def __init__(self, repo: Repo):
        self.repo = repo
        self.codecs: Dict[str, Codec] = {}
        base = SER + "Serializable"
        repo.cls(base)
        for q in repo.subclasses(base):
            self.codecs[q] = self._extract(repo.classes[q])

    # ------------------------------------------------------------------ helpers
    def _resolves_to(self, node: ast.AST, fi: FuncInfo, qual: str) -> bool:
        r = self.repo.resolve_name_node(fi.module, node, fi)
        return bool(r and r[1] == qual)

    def _fold(self, node: ast.AST, fi: FuncInfo) -> Any:
        return self.repo.fold(node, fi.module, fi, {})

    def _try_fold(self, node: ast.AST, fi: FuncInfo) -> Tuple[bool, Any]:
        try:
            return True, self._fold(node, fi)
        except AnalysisError:
            return False, None

    def _cls_of(self, node: ast.AST, fi: FuncInfo) -> Optional[str]:
        r = self.repo.resolve_name_node(fi.module, node, fi)
        if r and r[0] == "cls":
            return r[1]
        return None

    def _self_attr(self, node: ast.AST, selfname: str) -> Optional[str]:
        if isinstance(node, ast.Attribute) and isinstance(node.value, ast.Name) and node.value.id == selfname:
            return node.attr
        return None

    # ------------------------------------------------------------------ constructor
    def _ctor(self, c: Codec) -> None:
        mi = self.repo.find_method(c.q, "__init__")
        if mi is None or not mi.params:
            return
        selfname = mi.params[0]
        c.ctor_params = mi.params[1:]
        for st in ast.walk(mi.node):
            tgt = val = None
            if isinstance(st, ast.Assign) and len(st.targets) == 1:
                tgt, val = st.targets[0], st.value
            elif isinstance(st, ast.AnnAssign) and st.value is not None:
                tgt, val = st.target, st.value
            a = self._self_attr(tgt, selfname) if tgt is not None else None
            if a is None:
                continue
            if isinstance(val, ast.Name) and val.id in mi.params:
                c.ctor[val.id] = a
            else:
                ok, v = self._try_fold(val, mi)
                if ok:
                    c.ctor_consts[a] = v

    # ------------------------------------------------------------------ writer
    def _write_arg(self, c: Codec, arg: ast.AST, fi: FuncInfo, selfname: str, pending_len: List[Tuple[Any, str]]) -> Optional[Prim]:
        a = self._self_attr(arg, selfname)
        if a is not None:
            if pending_len and pending_len[-1][1] == a:
                w, _ = pending_len.pop()
                return ("lp", w, a)
            return ("raw", None, a)
        if isinstance(arg, ast.Attribute) and arg.attr == "packed":
            a2 = self._self_attr(arg.value, selfname)
            if a2 is not None:
                return ("ip16", a2)
        ok, v = self._try_fold(arg, fi)
        if ok and isinstance(v, bytes):
            return ("const", v)
        if isinstance(arg, ast.Call):
            d = dotted(arg.func)
            # struct.pack(FMT, X)
            if d == "struct.pack" and len(arg.args) == 2:
                okf, fmt = self._try_fold(arg.args[0], fi)
                fp = fmt_prim(fmt) if okf and isinstance(fmt, (bytes, str)) else None
                if fp is None:
                    return None
                return self._int_prim(c, arg.args[1], fp[0], fp[1], fi, selfname, pending_len)
            # X.to_bytes(n, 'big')
            if isinstance(arg.func, ast.Attribute) and arg.func.attr == "to_bytes":
                kw = {k.arg: k.value for k in arg.keywords}
                ln = kw.get("length", arg.args[0] if arg.args else None)
                bo = kw.get("byteorder", arg.args[1] if len(arg.args) > 1 else None)
                sg = kw.get("signed")
                okl, lnv = self._try_fold(ln, fi) if ln is not None else (False, None)
                okb, bov = self._try_fold(bo, fi) if bo is not None else (True, "big")
                oks, sgv = self._try_fold(sg, fi) if sg is not None else (True, False)
                if okl and okb and oks and not sgv and isinstance(lnv, int):
                    return self._int_prim(c, arg.func.value, lnv, bov, fi, selfname, pending_len)
        return None

    def _int_prim(self, c: Codec, x: ast.AST, width: int, order: str, fi: FuncInfo, selfname: str, pending_len: List[Tuple[Any, str]]) -> Optional[Prim]:
        a = self._self_attr(x, selfname)
        if a is not None:
            if a in c.ctor_consts and a not in c.ctor.values() and isinstance(c.ctor_consts[a], int):
                try:
                    return ("const", c.ctor_consts[a].to_bytes(width, order))
                except OverflowError:
                    return None
            return ("uint", width, order, a)
        if isinstance(x, ast.Call) and isinstance(x.func, ast.Name) and x.func.id == "len" and len(x.args) == 1:
            a2 = self._self_attr(x.args[0], selfname)
            if a2 is not None:
                pending_len.append((width, a2))
                return ("lenmark",)
        ok, v = self._try_fold(x, fi)
        if ok and isinstance(v, int):
            try:
                return ("const", v.to_bytes(width, order))
            except OverflowError:
                return None
        return None

    def _writer(self, c: Codec, fi: FuncInfo) -> None:
        c.writer_fi = fi
        if len(fi.params) < 2:
            c.problems.append("writer signature")
            return
        selfname, f = fi.params[0], fi.params[1]
        seq: List[Prim] = []
        pending_len: List[Tuple[Any, str]] = []
        body = func_body(fi)
        if len(body) == 1 and isinstance(body[0], ast.Raise):
            c.writer = None
            return
        for st in body:
            p = self._writer_stmt(c, st, fi, selfname, f, pending_len)
            if p is None:
                c.problems.append("%s:%d writer statement outside the idiom set: %s" % (fi.module.path, st.lineno, ast.unparse(st)[:70]))
                continue
            seq.extend(x for x in p if x != ("lenmark",))
        if pending_len:
            c.problems.append("%s: length prefix without payload for %s" % (fi.qualname, pending_len))
        c.writer = seq

    def _writer_stmt(self, c: Codec, st: ast.stmt, fi: FuncInfo, selfname: str, f: str, pending_len: List[Tuple[Any, str]]) -> Optional[List[Prim]]:
        if isinstance(st, ast.Assert) or isinstance(st, ast.Pass):
            return []
        if isinstance(st, ast.Expr) and isinstance(st.value, ast.Constant):
            return []
        if isinstance(st, ast.Expr) and isinstance(st.value, ast.Call):
            call = st.value
            fn = call.func
            # f.write(X)
            if isinstance(fn, ast.Attribute) and fn.attr == "write" and isinstance(fn.value, ast.Name) and fn.value.id == f and len(call.args) == 1:
                p = self._write_arg(c, call.args[0], fi, selfname, pending_len)
                return None if p is None else [p]
            # stream_serialize_vlq(f, X) / stream_serialize_list(f, X)
            if self._resolves_to(fn, fi, SER + "stream_serialize_vlq") and len(call.args) == 2:
                x = call.args[1]
                a = self._self_attr(x, selfname)
                if a is not None:
                    return [("vlq", a)]
                if isinstance(x, ast.Call) and isinstance(x.func, ast.Name) and x.func.id == "len" and len(x.args) == 1:
                    a2 = self._self_attr(x.args[0], selfname)
                    if a2 is not None:
                        pending_len.append(("vlq", a2))
                        return [("lenmark",)]
                return None
            if self._resolves_to(fn, fi, SER + "stream_serialize_list") and len(call.args) == 2:
                a = self._self_attr(call.args[1], selfname)
                return None if a is None else [("list", None, a)]
            # self.x.stream_serialize(f)
            if isinstance(fn, ast.Attribute) and fn.attr == "stream_serialize" and len(call.args) == 1:
                a = self._self_attr(fn.value, selfname)
                return None if a is None else [("nested", None, a)]
            return None
        if isinstance(st, ast.For) and isinstance(st.target, ast.Name) and not st.orelse:
            a = self._self_attr(st.iter, selfname)
            if a is not None and len(st.body) == 1 and isinstance(st.body[0], ast.Expr) and isinstance(st.body[0].value, ast.Call):
                call = st.body[0].value
                fn = call.func
                if isinstance(fn, ast.Attribute) and fn.attr == "write" and isinstance(fn.value, ast.Name) and fn.value.id == f \
                        and len(call.args) == 1 and isinstance(call.args[0], ast.Name) and call.args[0].id == st.target.id:
                    if pending_len and pending_len[-1] == ("vlq", a):
                        pending_len.pop()
                        return [("rawlist", None, a)]
        return None

    # ------------------------------------------------------------------ reader
    def _safe_read(self, node: ast.AST, fi: FuncInfo, f: str) -> Optional[Any]:
        """N (int, or an ast node for a dynamic length) if node is safe_read(f, N)."""
        if isinstance(node, ast.Call) and self._resolves_to(node.func, fi, SER + "safe_read") and len(node.args) == 2 \
                and isinstance(node.args[0], ast.Name) and node.args[0].id == f:
            ok, v = self._try_fold(node.args[1], fi)
            return v if ok and isinstance(v, int) else node.args[1]
        return None

    def _read_expr(self, c: Codec, val: ast.AST, fi: FuncInfo, f: str, env: Dict[str, Any]) -> Optional[Prim]:
        """primitive read by an expression (field slot filled later)"""
        n = self._safe_read(val, fi, f)
        if n is not None:
            if isinstance(n, int):
                return ("raw", n, None)
            if isinstance(n, ast.Name) and n.id in env and env[n.id][0] in ("uint",):
                return ("lp*", n.id)
            return None
        if isinstance(val, ast.Call):
            fn = val.func
            d = dotted(fn)
            if self._resolves_to(fn, fi, SER + "stream_deserialize_vlq") and len(val.args) == 1:
                return ("vlq", None)
            if self._resolves_to(fn, fi, SER + "stream_deserialize_list") and len(val.args) == 2:
                t = self._cls_of(val.args[1], fi)
                return None if t is None else ("list", t, None)
            if isinstance(fn, ast.Attribute) and fn.attr == "stream_deserialize" and len(val.args) == 1:
                t = self._cls_of(fn.value, fi)
                if t is not None:
                    return ("nested", t, None)
                if isinstance(fn.value, ast.Name) and fn.value.id in env and env[fn.value.id][0] == "tablelookup":
                    return ("bytag", env[fn.value.id][1], None)
                return None
            if d and d.split(".")[-1] == "IPv6Address" and len(val.args) == 1 and self._safe_read(val.args[0], fi, f) == 16:
                return ("ip16", None)
            if d == "int.from_bytes" and val.args:
                n = self._safe_read(val.args[0], fi, f)
                kw = {k.arg: k.value for k in val.keywords}
                bo = kw.get("byteorder", val.args[1] if len(val.args) > 1 else None)
                okb, bov = self._try_fold(bo, fi) if bo is not None else (True, "big")
                sg = kw.get("signed")
                oks, sgv = self._try_fold(sg, fi) if sg is not None else (True, False)
                if isinstance(n, int) and okb and oks and not sgv:
                    return ("uint", n, bov, None)
        return None

    def _unpack(self, val: ast.AST, fi: FuncInfo, f: str) -> Optional[Prim]:
        if isinstance(val, ast.Call) and dotted(val.func) == "struct.unpack" and len(val.args) == 2:
            okf, fmt = self._try_fold(val.args[0], fi)
            fp = fmt_prim(fmt) if okf and isinstance(fmt, (bytes, str)) else None
            n = self._safe_read(val.args[1], fi, f)
            if fp is not None and isinstance(n, int):
                if fp[0] != n:
                    return ("badwidth", fp[0], n)
                return ("uint", fp[0], fp[1], None)
        return None

    def _reader(self, c: Codec, fi: FuncInfo) -> None:
        c.reader_fi = fi
        if len(fi.params) < 2:
            c.problems.append("reader signature")
            return
        clsname, f = fi.params[0], fi.params[1]
        body = func_body(fi)
        if len(body) == 1 and isinstance(body[0], ast.Raise):
            c.reader = None
            return
        seq: List[Prim] = []
        names: List[Optional[str]] = []      # local name bound to each read
        env: Dict[str, Any] = {}
        tells: Dict[str, int] = {}           # name -> number of reads done when f.tell() was taken
        span: Dict[str, Any] = {}
        # raw .read( sites
        for n in ast.walk(fi.node):
            if isinstance(n, ast.Call) and isinstance(n.func, ast.Attribute) and n.func.attr == "read" \
                    and isinstance(n.func.value, ast.Name) and n.func.value.id == f:
                c.raw_reads.append((n.lineno, ast.unparse(n)))

        def add(p: Prim, name: Optional[str]) -> None:
            seq.append(p)
            names.append(name)

        i = 0
        while i < len(body):
            st = body[i]
            i += 1
            handled = False
            # tag dispatch:  t = safe_read(f, N); if t == TAG: return Sub.stream_deserialize(f) ...; raise
            if isinstance(st, ast.Assign) and len(st.targets) == 1 and isinstance(st.targets[0], ast.Name):
                tname = st.targets[0].id
                n = self._safe_read(st.value, fi, f)
                rest = body[i:]
                if isinstance(n, int) and rest and all(self._is_dispatch_if(x, tname, fi, f) for x in rest[:-1]) and len(rest) >= 2 \
                        and isinstance(rest[-1], ast.Raise):
                    d = Dispatch()
                    d.width = n
                    d.line = st.lineno
                    for x in rest[:-1]:
                        tag, sub = self._is_dispatch_if(x, tname, fi, f)  # type: ignore
                        d.table.append((tag, sub))
                    d.fallthrough_raises = True
                    c.dispatch = d
                    c.reader = []
                    return
                if isinstance(n, int) and rest and any(self._is_dispatch_if(x, tname, fi, f) for x in rest):
                    d = Dispatch()
                    d.width = n
                    d.line = st.lineno
                    for x in rest:
                        r = self._is_dispatch_if(x, tname, fi, f)
                        if r:
                            d.table.append(r)
                    d.fallthrough_raises = isinstance(rest[-1], ast.Raise)
                    c.dispatch = d
                    c.reader = []
                    if not d.fallthrough_raises:
                        c.problems.append("%s:%d tag dispatch does not end in an unconditional raise" % (fi.module.path, st.lineno))
                    return
            if isinstance(st, (ast.Assign, ast.AnnAssign)):
                tgt = st.targets[0] if isinstance(st, ast.Assign) and len(st.targets) == 1 else (st.target if isinstance(st, ast.AnnAssign) else None)
                val = st.value
                if tgt is not None and val is not None:
                    # x = f.tell()
                    if isinstance(tgt, ast.Name) and isinstance(val, ast.Call) and isinstance(val.func, ast.Attribute) and val.func.attr == "tell" \
                            and isinstance(val.func.value, ast.Name) and val.func.value.id == f:
                        tells[tgt.id] = len(seq)
                        handled = True
                    # (x,) = struct.unpack(FMT, safe_read(f, n))
                    elif isinstance(tgt, ast.Tuple) and len(tgt.elts) == 1 and isinstance(tgt.elts[0], ast.Name):
                        p = self._unpack(val, fi, f)
                        if p is not None and p[0] == "uint":
                            env[tgt.elts[0].id] = p
                            add(p, tgt.elts[0].id)
                            handled = True
                        elif p is not None:
                            c.problems.append("%s:%d struct format width %d but %d bytes read" % (fi.module.path, st.lineno, p[1], p[2]))
                            handled = True
                    elif isinstance(tgt, ast.Name):
                        # x = []   (accumulator for a raw list)
                        if isinstance(val, ast.List) and not val.elts:
                            env[tgt.id] = ("emptylist",)
                            handled = True
                        # clz = TABLE[tagfield]
                        elif isinstance(val, ast.Subscript) and isinstance(val.slice, ast.Name) and val.slice.id in env:
                            r = self.repo.resolve_name_node(fi.module, val.value, fi)
                            if r and r[0] == "const":
                                env[tgt.id] = ("tablelookup", val.slice.id, r[1])
                                handled = True
                        # hash = sha256d(f.read(end - start))
                        elif isinstance(val, ast.Call) and self._resolves_to(val.func, fi, "skepticoin.hash.sha256d") and len(val.args) == 1:
                            a0 = val.args[0]
                            if isinstance(a0, ast.Call) and isinstance(a0.func, ast.Attribute) and a0.func.attr == "read" and len(a0.args) == 1 \
                                    and isinstance(a0.args[0], ast.BinOp) and isinstance(a0.args[0].op, ast.Sub) \
                                    and isinstance(a0.args[0].left, ast.Name) and isinstance(a0.args[0].right, ast.Name):
                                span.update({"name": tgt.id, "end": a0.args[0].left.id, "start": a0.args[0].right.id, "line": st.lineno,
                                             "reads_before": len(seq)})
                                handled = True
                        else:
                            p = self._read_expr(c, val, fi, f, env)
                            if p is not None:
                                if p[0] == "lp*":
                                    # payload of a length prefix read just before
                                    ln = p[1]
                                    idx = max(k for k, nm in enumerate(names) if nm == ln)
                                    w = seq[idx][1]
                                    seq[idx] = ("lp", w, None)
                                    names[idx] = tgt.id
                                else:
                                    add(p, tgt.id)
                                env[tgt.id] = p
                                handled = True
            elif isinstance(st, ast.Expr) and isinstance(st.value, ast.Call):
                call = st.value
                n = self._safe_read(call, fi, f)
                if isinstance(n, int):
                    add(("ignored", n), None)
                    handled = True
                elif isinstance(call.func, ast.Attribute) and call.func.attr == "seek" and isinstance(call.func.value, ast.Name) \
                        and call.func.value.id == f and len(call.args) == 1 and isinstance(call.args[0], ast.Name):
                    span["seek"] = call.args[0].id
                    span["seek_reads"] = len(seq)
                    handled = True
            elif isinstance(st, ast.Expr) and isinstance(st.value, ast.Constant):
                handled = True
            elif isinstance(st, ast.If) and not st.orelse and len(st.body) == 1 and isinstance(st.body[0], ast.Raise):
                # if safe_read(f, n) != CONST: raise
                t = st.test
                if isinstance(t, ast.Compare) and len(t.ops) == 1 and isinstance(t.ops[0], ast.NotEq):
                    for a_, b_ in ((t.left, t.comparators[0]), (t.comparators[0], t.left)):
                        n = self._safe_read(a_, fi, f)
                        ok, v = self._try_fold(b_, fi)
                        if isinstance(n, int) and ok and isinstance(v, bytes) and len(v) == n:
                            add(("const", v), None)
                            handled = True
                            break
            elif isinstance(st, ast.For) and not st.orelse and isinstance(st.iter, ast.Call) and isinstance(st.iter.func, ast.Name) \
                    and st.iter.func.id == "range" and len(st.iter.args) == 1 and isinstance(st.iter.args[0], ast.Name):
                cnt = st.iter.args[0].id
                if env.get(cnt, (None,))[0] == "vlq" and len(st.body) == 1 and isinstance(st.body[0], ast.Expr) \
                        and isinstance(st.body[0].value, ast.Call):
                    call = st.body[0].value
                    if isinstance(call.func, ast.Attribute) and call.func.attr == "append" and isinstance(call.func.value, ast.Name) \
                            and env.get(call.func.value.id) == ("emptylist",) and len(call.args) == 1:
                        n = self._safe_read(call.args[0], fi, f)
                        if isinstance(n, int) and n >= 1:
                            idx = max(k for k, nm in enumerate(names) if nm == cnt)
                            seq[idx] = ("rawlist", n, None)
                            names[idx] = call.func.value.id
                            handled = True
            elif isinstance(st, ast.Return) and isinstance(st.value, ast.Call) and isinstance(st.value.func, ast.Name) \
                    and st.value.func.id == clsname:
                call = st.value
                argnames: List[Optional[str]] = []
                params = c.ctor_params
                bind: Dict[str, str] = {}
                for k, a_ in enumerate(call.args):
                    if isinstance(a_, ast.Name) and k < len(params):
                        bind[a_.id] = params[k]
                for kw in call.keywords:
                    if kw.arg and isinstance(kw.value, ast.Name):
                        bind[kw.value.id] = kw.arg
                c.reader_args = [bind.get(nm) if nm else None for nm in names]
                if span and span.get("name") in bind:
                    span["param"] = bind[span["name"]]
                handled = True
            if not handled:
                c.problems.append("%s:%d reader statement outside the idiom set: %s" % (fi.module.path, st.lineno, ast.unparse(st)[:70]))
        if not c.reader_args:
            c.reader_args = [None] * len(seq)
        # reads bound to a name that never reaches the constructor are lenient (value unused)
        final: List[Prim] = []
        for p, nm, arg in zip(seq, names, c.reader_args):
            if p[0] in ("uint", "raw") and arg is None and nm is not None:
                final.append(("lenient", p[1], nm))
            else:
                final.append(p)
        c.reader = final
        if span:
            span["tells"] = tells
            span["total_reads"] = len(seq)
            c.span = span

    def _is_dispatch_if(self, st: ast.stmt, tname: str, fi: FuncInfo, f: str) -> Optional[Tuple[bytes, str]]:
        if not (isinstance(st, ast.If) and not st.orelse and len(st.body) == 1 and isinstance(st.body[0], ast.Return)):
            return None
        t = st.test
        if not (isinstance(t, ast.Compare) and len(t.ops) == 1 and isinstance(t.ops[0], ast.Eq)):
            return None
        a_, b_ = t.left, t.comparators[0]
        if isinstance(b_, ast.Name) and b_.id == tname:
            a_, b_ = b_, a_
        if not (isinstance(a_, ast.Name) and a_.id == tname):
            return None
        ok, tag = self._try_fold(b_, fi)
        rv = st.body[0].value
        if not (ok and isinstance(tag, bytes) and isinstance(rv, ast.Call) and isinstance(rv.func, ast.Attribute)
                and rv.func.attr == "stream_deserialize" and len(rv.args) == 1 and isinstance(rv.args[0], ast.Name) and rv.args[0].id == f):
            return None
        sub = self._cls_of(rv.func.value, fi)
        if sub is None:
            return None
        return tag, sub

    # ------------------------------------------------------------------ per class
    def _extract(self, ci: ClassInfo) -> Codec:
        c = Codec(ci)
        self._ctor(c)
        w = ci.methods.get("stream_serialize")
        r = ci.methods.get("stream_deserialize")
        if w is not None:
            self._writer(c, w)
        if r is not None:
            self._reader(c, r)
        return c

    # ------------------------------------------------------------------ queries
    def dispatching_base(self, q: str) -> Optional[Codec]:
        for b in self.repo.mro(q)[1:]:
            cb = self.codecs.get(b)
            if cb is not None and cb.dispatch is not None:
                return cb
        return None

    def tag_of(self, q: str) -> Optional[bytes]:
        b = self.dispatching_base(q)
        if b is None or b.dispatch is None:
            return None
        for tag, sub in b.dispatch.table:
            if sub == q:
                return tag
        return None


def show_prim(p: Prim) -> str:
    k = p[0]
    if k == "raw":
        return "%s raw(%s)" % (p[2], p[1] if p[1] is not None else "?")
    if k == "uint":
        return "%s u%d%s" % (p[3], p[1] * 8, "be" if p[2] == "big" else "le")
    if k == "const":
        v = p[1]
        return "const %s" % (v.hex() if len(v) <= 8 else "%d*%s" % (len(v), v[:1].hex()) if len(set(v)) == 1 else v[:8].hex() + "..")
    if k == "lenient":
        return "%s lenient(%d)" % (p[2], p[1])
    if k == "ignored":
        return "ignored(%d)" % p[1]
    if k == "vlq":
        return "%s vlq" % p[1]
    if k == "lp":
        return "%s %s-len+raw" % (p[2], "u%d" % (p[1] * 8) if isinstance(p[1], int) else p[1])
    if k == "list":
        return "%s list<%s>" % (p[2], (p[1] or "?").split(".")[-1])
    if k == "rawlist":
        return "%s vlq+raw(%s)*" % (p[2], p[1] if p[1] is not None else "?")
    if k == "nested":
        return "%s %s" % (p[2], (p[1] or "?").split(".")[-1])
    if k == "ip16":
        return "%s ip16" % p[1]
    if k == "bytag":
        return "%s by-tag(%s)" % (p[2], p[1])
    return repr(p)
