"""E10: codec extractor. For every Serializable subclass: the writer's and the reader's field sequences as lists of
primitives, tag-dispatch tables, constructor parameter -> attribute map, id-from-raw-bytes spans.

Version 2: both sequences are read off the summariser's event tables (ordered stream operations, each stream read carrying
an identity), so helper extraction, renamed locals, if/elif chains, comprehensions and `unpack(..)[0]` vs `(x,) = unpack(..)`
do not matter. A decoder / encoder statement that is not understood is reported in `problems` (verdict UNKNOWN), never guessed.

Primitives (tuples):
  ('raw', n, field)            n bytes verbatim (n None on the writer side: width is whatever the attribute holds)
  ('uint', width, order, field) fixed-width unsigned integer (struct B/H/I/Q or int.to_bytes/from_bytes)
  ('const', bytes)             constant bytes; reader side: strictly compared
  ('ignored', n)               reader consumes n bytes whose value is neither checked nor used
  ('vlq', field)               variable-length quantity holding an attribute
  ('lp', width, field)         length prefix (width bytes) followed by that many raw bytes of field
  ('list', T, field)           vlq count + elements of class T (T None on the writer side)
  ('rawlist', n, field)        vlq count + n-byte raw elements
  ('nested', T, field)         nested object of class T (a dispatching base means tagged union)
  ('ip16', field)              16-byte packed IPv6 address
  ('bytag', tagfield, field)   object whose class is selected by a previously read tag field through a table
"""
from __future__ import annotations

import ast
from typing import Any, Dict, List, Optional, Set, Tuple

from .repo import AnalysisError, ClassInfo, FuncInfo, Repo, func_body
from .terms import C, Term, conjuncts, is_int_const, lin_parts, mk_not, show, subterms, untag
from .walker import Event, Summary, Walker

SER = "skepticoin.serialization."
Prim = Tuple[Any, ...]

STRUCT_CODES = {"B": 1, "H": 2, "I": 4, "L": 4, "Q": 8}


class Dispatch:
    def __init__(self) -> None:
        self.width: Optional[int] = None
        self.table: List[Tuple[bytes, str]] = []
        self.fallthrough_raises = False
        self.line = 0


class Codec:
    def __init__(self, cls: ClassInfo):
        self.cls = cls
        self.q = cls.qualname
        self.writer: Optional[List[Prim]] = None
        self.reader: Optional[List[Prim]] = None
        self.reader_args: List[Optional[str]] = []     # per reader primitive: constructor parameter it feeds (or None)
        self.dispatch: Optional[Dispatch] = None
        self.ctor: Dict[str, str] = {}                 # ctor param -> attribute
        self.ctor_consts: Dict[str, Any] = {}          # attribute fixed to a constant by __init__
        self.ctor_params: List[str] = []
        self.span: Optional[Dict[str, Any]] = None     # id computed from the raw bytes consumed
        self.problems: List[str] = []
        self.raw_reads: List[Tuple[int, str]] = []     # f.read(...) sites not through safe_read
        self.reader_fi: Optional[FuncInfo] = None
        self.writer_fi: Optional[FuncInfo] = None

    @property
    def name(self) -> str:
        return self.cls.name


def fmt_prim(fmt: Any) -> Optional[Tuple[int, str]]:
    s = fmt.decode() if isinstance(fmt, bytes) else fmt
    if not isinstance(s, str):
        return None
    order = "big"
    if s and s[0] in "><!=@":
        if s[0] == "<":
            order = "little"
        elif s[0] in "=@":
            return None
        s = s[1:]
    if len(s) != 1 or s not in STRUCT_CODES:
        return None
    return STRUCT_CODES[s], order


def fmt_fields(fmt: Any) -> Optional[List[Tuple[int, str]]]:
    """fields of a multi-character struct format with an explicit standard-size byte order ('>BIIQ'): [(width, order), ...]"""
    s = fmt.decode() if isinstance(fmt, bytes) else fmt
    if not isinstance(s, str) or not s:
        return None
    order = "big"
    if s[0] in "><!":
        order = "little" if s[0] == "<" else "big"
        s = s[1:]
    elif len(s) > 1:
        return None          # native alignment: sizes and padding are platform dependent
    out = []
    for ch in s:
        if ch not in STRUCT_CODES:
            return None
        out.append((STRUCT_CODES[ch], order))
    return out or None


def struct_call(t: Term, method: str) -> Optional[Tuple[Any, Tuple[Term, ...]]]:
    """(format, remaining arguments) of struct.<method>(FMT, ...) or struct.Struct(FMT).<method>(...)"""
    if t[0] != "call" or t[3]:
        return None
    if t[1] == ("g", "ext:struct." + method) and t[2] and t[2][0][0] == "c":
        return t[2][0][1], t[2][1:]
    f = t[1]
    if f[0] == "a" and f[2] == method and f[1][0] == "call" and f[1][1] == ("g", "ext:struct.Struct") and len(f[1][2]) == 1 and f[1][2][0][0] == "c":
        return f[1][2][0][1], t[2]
    return None


def _unit_resolve(conds: frozenset) -> frozenset:
    """`a or b or c` together with `not a`, `not b` leaves `c` (an if/elif chain whose else raises)."""
    from .terms import assume
    out = set(conds)
    for x in conds:
        if x[0] == "or":
            r = assume(x, conds - {x})
            if r[0] != "or":
                out.update(conjuncts(r))
    return frozenset(out)


def tag_of_term(t: Term) -> Optional[int]:
    if t[0] == "call":
        for k in t[3]:
            if isinstance(k, tuple) and k and k[0] == "#":
                return k[1][1]
    return None


def read_tags(t: Any) -> List[int]:
    return [tag_of_term(x) for x in subterms(t) if x[0] == "call" and tag_of_term(x) is not None]  # type: ignore


class Extractor:
    def __init__(self, repo: Repo, walker: Optional[Walker] = None):
        self.repo = repo
        self.w = walker or Walker(repo, 0)
        self.codecs: Dict[str, Codec] = {}
        self._multi: Dict[int, List[Tuple[int, str]]] = {}
        self._multi_used: Dict[int, Set[int]] = {}
        base = SER + "Serializable"
        repo.cls(base)
        for q in repo.subclasses(base):
            self.codecs[q] = self._extract(repo.classes[q])

    # ------------------------------------------------------------------ constructor
    def _ctor(self, c: Codec) -> None:
        mi = self.repo.find_method(c.q, "__init__")
        if mi is None or not mi.params:
            return
        c.ctor_params = mi.params[1:]
        s = self.w.summary(mi.qualname, 0)
        selfv = ("v", mi.params[0])
        for e in s.events:
            if e.kind == "store" and e.term[0] == "a" and e.term[1] == selfv and e.value is not None:
                a = e.term[2]
                v = e.value
                if v[0] == "v" and v[1] in mi.params:
                    c.ctor[v[1]] = a
                elif v[0] == "c":
                    c.ctor_consts[a] = v[1]

    # ------------------------------------------------------------------ writer
    def _writer(self, c: Codec, fi: FuncInfo) -> None:
        c.writer_fi = fi
        body = func_body(fi)
        if len(body) == 1 and isinstance(body[0], ast.Raise):
            c.writer = None
            return
        if len(fi.params) < 2:
            c.problems.append("writer signature")
            return
        s = self.w.summary(fi.qualname, 0)
        selfv, f = ("v", fi.params[0]), ("v", fi.params[1])
        seq: List[Prim] = []
        pending: Optional[Tuple[Any, str]] = None     # (width, attr) of a length just written
        for u in s.unknown:
            c.problems.append("writer: " + u)

        def attr_of(t: Term) -> Optional[str]:
            return t[2] if t[0] == "a" and t[1] == selfv else None

        def int_prim(x: Term, width: int, order: str) -> Optional[Prim]:
            nonlocal pending
            a = attr_of(x)
            if a is not None:
                if a in c.ctor_consts and a not in c.ctor.values() and isinstance(c.ctor_consts[a], int) and not isinstance(c.ctor_consts[a], bool):
                    try:
                        return ("const", c.ctor_consts[a].to_bytes(width, order))
                    except OverflowError:
                        return None
                return ("uint", width, order, a)
            if x[0] == "call" and x[1] == ("g", "builtin:len") and len(x[2]) == 1 and attr_of(x[2][0]) is not None:
                pending = (width, attr_of(x[2][0]))  # type: ignore
                return ("lenmark",)
            if is_int_const(x):
                try:
                    return ("const", x[1].to_bytes(width, order))
                except OverflowError:
                    return None
            return None

        def classify_write(x: Term, ev: Event) -> Optional[Prim]:
            nonlocal pending
            a = attr_of(x)
            if a is not None:
                if pending is not None and pending[1] == a and pending[0] != "vlq":
                    w_, _ = pending
                    pending = None
                    return ("lp", w_, a)
                return ("raw", None, a)
            if x[0] == "a" and x[2] == "packed" and attr_of(x[1]) is not None:
                return ("ip16", attr_of(x[1]))
            if x[0] == "c" and isinstance(x[1], bytes):
                return ("const", x[1])
            sc = struct_call(x, "pack")
            if sc is not None and len(sc[1]) == 1:
                fp = fmt_prim(sc[0])
                if fp is None:
                    return None
                return int_prim(sc[1][0], fp[0], fp[1])
            if x[0] == "call" and x[1][0] == "a" and x[1][2] == "to_bytes" and len(x[2]) == 3:
                ln, bo, sg = x[2]
                if is_int_const(ln) and bo[0] == "c" and sg == C(False):
                    return int_prim(x[1][1], ln[1], bo[1])
            if x[0] == "e" and x[2] == "elem" and attr_of(x[1]) is not None and ev.loops and pending == ("vlq", attr_of(x[1])):
                pending = None
                return ("rawlist", None, attr_of(x[1]))
            return None

        for e in s.events:
            if e.chain or e.kind != "call" or e.parts is None:
                continue
            fn, args = e.parts[0], list(e.term[2]) if e.term[0] == "call" else list(e.parts[1])
            p: Optional[Prim] = None
            handled = False
            if fn == ("a", f, "write") and len(args) == 1:
                handled = True
                sc = struct_call(args[0], "pack")
                fields = fmt_fields(sc[0]) if sc is not None else None
                if sc is not None and fields is not None and len(fields) > 1 and len(fields) == len(sc[1]) and not e.loops \
                        and not (e.pc and any(cj.prov not in ("raise-surv",) for cj in e.pc)):
                    # one pack call writing several fixed-width integers
                    many = [int_prim(x, w_, o_) for x, (w_, o_) in zip(sc[1], fields)]
                    if all(m is not None and m != ("lenmark",) for m in many):
                        seq.extend(many)     # type: ignore
                        continue
                    c.problems.append("%s:%d writer statement outside the idiom set: %s" % (fi.module.path, e.line, show(e.term)[:70]))
                    continue
                p = classify_write(args[0], e)
            elif SER + "stream_serialize_vlq" in e.targets and len(args) == 2 and args[0] == f:
                handled = True
                a = attr_of(args[1])
                if a is not None:
                    p = ("vlq", a)
                elif args[1][0] == "call" and args[1][1] == ("g", "builtin:len") and len(args[1][2]) == 1 and attr_of(args[1][2][0]) is not None:
                    pending = ("vlq", attr_of(args[1][2][0]))  # type: ignore
                    p = ("lenmark",)
            elif SER + "stream_serialize_list" in e.targets and len(args) == 2 and args[0] == f:
                handled = True
                a = attr_of(args[1])
                p = ("list", None, a) if a is not None else None
            elif fn[0] == "a" and fn[2] == "stream_serialize" and args == [f]:
                handled = True
                a = attr_of(fn[1])
                p = ("nested", None, a) if a is not None else None
            if not handled:
                continue
            if e.pc and any(cj.prov not in ("raise-surv",) for cj in e.pc):
                c.problems.append("%s:%d conditional write %s" % (fi.module.path, e.line, show(e.term)[:60]))
                continue
            if p is None:
                c.problems.append("%s:%d writer statement outside the idiom set: %s" % (fi.module.path, e.line, show(e.term)[:70]))
                continue
            if e.loops and p[0] != "rawlist":
                c.problems.append("%s:%d write inside a loop: %s" % (fi.module.path, e.line, show(e.term)[:60]))
                continue
            if p != ("lenmark",):
                seq.append(p)
        if pending is not None:
            c.problems.append("%s: length prefix without payload for %s" % (fi.qualname, pending))
        c.writer = seq

    # ------------------------------------------------------------------ reader
    def _classify_read(self, c: Codec, t: Term, fvar: Term, reads: Dict[int, Event]) -> Optional[Tuple[Prim, int]]:
        """primitive produced by a constructor-argument term, and the index of the (first) stream read it consumes"""
        k = tag_of_term(t)
        if t[0] == "call" and k is not None:
            fn, args = t[1], t[2]
            if fn == ("g", SER + "safe_read") and len(args) == 2 and args[0] == fvar:
                if is_int_const(args[1]):
                    return ("raw", args[1][1], None), k
                # length-prefixed payload: safe_read(f, <uint read just before>)
                inner = self._classify_read(c, args[1], fvar, reads)
                if inner is not None and inner[0][0] == "uint":
                    return ("lp", inner[0][1], None), inner[1]
                return None
            if fn == ("g", SER + "stream_deserialize_vlq") and args == (fvar,):
                return ("vlq", None), k
            if fn == ("g", SER + "stream_deserialize_list") and len(args) == 2 and args[0] == fvar and args[1][0] == "g" and args[1][1] in self.repo.classes:
                return ("list", args[1][1], None), k
            if fn[0] == "a" and fn[2] == "stream_deserialize" and args == (fvar,):
                recv = fn[1]
                if recv[0] == "g" and recv[1] in self.repo.classes:
                    return ("nested", recv[1], None), k
                if recv[0] == "s" and recv[1][0] == "g":      # TABLE[tag field]
                    inner = self._classify_read(c, recv[2], fvar, reads)
                    if inner is not None:
                        return ("bytag", inner[1], None), k
                return None
            return None
        # struct.unpack(FMT, safe_read(f, n))[i]  /  struct.Struct(FMT).unpack(safe_read(f, n))[i]
        if t[0] == "s" and is_int_const(t[2]) and t[1][0] == "call":
            sc = struct_call(t[1], "unpack")
            if sc is not None and len(sc[1]) == 1:
                fields = fmt_fields(sc[0])
                inner = self._classify_read(c, sc[1][0], fvar, reads)
                i = t[2][1]
                if fields is not None and inner is not None and inner[0][0] == "raw" and 0 <= i < len(fields):
                    if inner[0][1] != sum(w_ for w_, _o in fields):
                        c.problems.append("struct format is %d bytes wide but %d bytes are read" % (sum(w_ for w_, _o in fields), inner[0][1]))
                        return None
                    if len(fields) > 1:
                        self._multi.setdefault(inner[1], fields)
                        self._multi_used.setdefault(inner[1], set()).add(i)
                        return ("uint", fields[i][0], fields[i][1], None), (inner[1], i)   # type: ignore
                    return ("uint", fields[0][0], fields[0][1], None), inner[1]
                return None
        if t[0] == "call" and t[1] == ("g", "builtin:int.from_bytes") and len(t[2]) == 3 and t[2][1][0] == "c" and t[2][2] == C(False):
            inner = self._classify_read(c, t[2][0], fvar, reads)
            if inner is not None and inner[0][0] == "raw":
                return ("uint", inner[0][1], t[2][1][1], None), inner[1]
            return None
        if t[0] == "call" and t[1][0] == "g" and t[1][1].split(".")[-1] == "IPv6Address" and len(t[2]) == 1:
            inner = self._classify_read(c, t[2][0], fvar, reads)
            if inner is not None and inner[0][:2] == ("raw", 16):
                return ("ip16", None), inner[1]
            return None
        # [safe_read(f, n) for _ in range(vlq(f))]
        if t[0] == "comp" and t[1] == "list" and len(t[3]) == 1 and not t[3][0][1]:
            dom = t[3][0][0]
            if dom[0] == "call" and dom[1] == ("g", "builtin:range") and len(dom[2]) == 1:
                cnt = self._classify_read(c, dom[2][0], fvar, reads)
                el = self._classify_read(c, t[2], fvar, reads)
                if cnt is not None and cnt[0][0] == "vlq" and el is not None and el[0][0] == "raw":
                    return ("rawlist", el[0][1], None), cnt[1]
            return None
        return None

    def _reader(self, c: Codec, fi: FuncInfo) -> None:
        c.reader_fi = fi
        body = func_body(fi)
        if len(body) == 1 and isinstance(body[0], ast.Raise):
            c.reader = None
            return
        if len(fi.params) < 2:
            c.problems.append("reader signature")
            return
        s = self.w.summary(fi.qualname, 0)
        clsv, fvar = ("v", fi.params[0]), ("v", fi.params[1])
        for u in s.unknown:
            c.problems.append("reader: " + u)
        reads: Dict[int, Event] = {}
        for e in s.events:
            if e.kind == "call" and not e.chain:
                k = tag_of_term(e.term)
                if k is not None:
                    reads[k] = e
                    if e.parts and e.parts[0] == ("a", fvar, "read"):
                        c.raw_reads.append((e.line, show(untag(e.term))))
        from .match import decision_table, function_value
        # ---- tag dispatch: every return is `Sub.stream_deserialize(f)` under `tag == CONST` (sequential ifs or an if/elif chain)
        all_rets = s.returns()
        is_disp = lambda r: r.term[0] == "call" and r.term[1][0] == "a" and r.term[1][2] == "stream_deserialize" and r.term[1][1] != clsv  # noqa
        rets = [r for r in all_rets if is_disp(r)]
        stray = [r for r in all_rets if not is_disp(r)]
        if rets and (not stray or len(rets) >= 2 or any(cj.prov == "branch" for r in rets for cj in r.pc)):
            # the class may be chosen first (`message_class = X` in an if/elif chain) and decoded once: expand the conditional
            pairs: List[Tuple[frozenset, Term]] = []
            table_guarded: List[Any] = []
            for r in rets:
                base = frozenset(x for cj in r.pc if cj.prov in ("branch", "ret-surv", "raise-surv") for x in conjuncts(cj.term))
                recv0 = r.term[1][1]
                if recv0[0] == "s" and recv0[1][0] == "dict" and recv0[1][1] and all(isinstance(kv, tuple) and len(kv) == 2 and kv[0][0] == "c" for kv in recv0[1][1]) \
                        and ("cmp", "in", recv0[2], recv0[1]) in base:
                    # TABLE[tag].stream_deserialize(f) under `tag in TABLE`: one row per entry of the table
                    for k_, v_ in recv0[1][1]:
                        pairs.append((frozenset({("cmp", "==", k_, recv0[2])}), ("call", ("a", v_, "stream_deserialize"), r.term[2], r.term[3])))
                    table_guarded.append(r)
                    continue
                tab = decision_table(r.term)
                if tab is None:
                    c.problems.append("%s: dispatch too branchy" % fi.qualname)
                    return
                for conds, v in tab:
                    pairs.append((base | conds, v))
            d = Dispatch()
            d.line = fi.node.lineno  # type: ignore
            tagread: Optional[Term] = None
            ok = True
            for conds, v in pairs:
                conds = _unit_resolve(conds)
                recv = v[1][1]
                if not (recv[0] == "g" and recv[1] in self.repo.classes):
                    if recv[0] == "opaque" or recv[0] == "lv":
                        continue
                    ok = False
                    break
                pick = None
                for x in conds:
                    if x[0] == "cmp" and x[1] == "==":
                        for a_, b_ in ((x[2], x[3]), (x[3], x[2])):
                            if a_[0] == "c" and isinstance(a_[1], bytes) and tag_of_term(b_) is not None:
                                pick = (a_[1], b_)
                if pick is None or (tagread is not None and tagread != pick[1]):
                    ok = False
                    break
                tagread = pick[1]
                d.table.append((pick[0], recv[1]))
            if ok and tagread is not None and d.table:
                cl = self._classify_read(c, tagread, fvar, reads)
                if cl is not None and cl[0][0] == "raw":
                    d.width = cl[0][1]
                    # unknown tags raise: a raise that is not guarded by a positive tag test
                    fall = [e for e in s.raises() if not any(x[0] == "cmp" and x[1] == "==" and tagread in (x[2], x[3])
                                                             for cj in e.pc for x in conjuncts(cj.term))]
                    uncond = [r for r in rets if r not in table_guarded and not any(x[0] == "cmp" and x[1] == "==" and tagread in (x[2], x[3])
                                                         for cj in r.pc for x in conjuncts(cj.term))
                              and not any(cn and any(y[0] == "cmp" and y[1] == "==" for y in cn) for cn, _ in (decision_table(r.term) or []))]
                    d.fallthrough_raises = bool(fall) and not uncond and not stray
                    if not d.fallthrough_raises:
                        c.problems.append("%s:%d tag dispatch does not end in an unconditional raise" % (fi.module.path, d.line))
                    c.dispatch = d
                    c.reader = []
                    return
            c.problems.append("%s: dispatching decoder outside the idiom set" % fi.qualname)
            return
        val = function_value(s)
        if val is None:
            c.problems.append("%s: decoder never returns" % fi.qualname)
            return
        rows = decision_table(val)
        if rows is None or len(rows) != 1:
            c.problems.append("%s: decoder returns different objects on different paths" % fi.qualname)
            return
        value = rows[0][1]
        if not (value[0] == "call" and value[1] == clsv):
            c.problems.append("%s:%d reader does not return cls(...): %s" % (fi.module.path, fi.node.lineno, show(value)[:60]))  # type: ignore
            return
        params = c.ctor_params
        bind: List[Tuple[str, Term]] = []
        for i, a in enumerate(value[2]):
            if i < len(params):
                bind.append((params[i], a))
        for k_, a in value[3]:
            if k_ != "#":
                bind.append((k_, a))
        items: List[Tuple[Any, Prim, Optional[str]]] = []
        used: Set[int] = set()
        self._multi = {}
        self._multi_used = {}
        for pname, a in bind:
            # id computed from the raw span: sha256d(f.read(end - start)) after f.seek(start)
            if a[0] == "call" and a[1] == ("g", "skepticoin.hash.sha256d") and len(a[2]) == 1 and tag_of_term(a[2][0]) is not None \
                    and a[2][0][1] == ("a", fvar, "read"):
                self._span(c, pname, a[2][0], s, reads, fvar)
                used.update(read_tags(a))
                continue
            cl = self._classify_read(c, a, fvar, reads)
            if cl is None:
                if a[0] == "c":
                    continue
                c.problems.append("%s:%d constructor argument %s outside the idiom set: %s" % (fi.module.path, fi.node.lineno, pname, show(untag(a))[:70]))  # type: ignore
                continue
            items.append((cl[1], cl[0], pname))
            used.update(read_tags(a))
        # reads that do not reach the constructor: strictly compared constants, or ignored bytes
        for k, e in sorted(reads.items()):
            if k in used:
                continue
            t = e.term
            if e.parts and e.parts[0][0] == "a" and e.parts[0][1] == fvar and e.parts[0][2] in ("tell", "seek", "read"):
                continue
            cl = self._classify_read(c, t, fvar, reads)
            if cl is None or cl[0][0] != "raw":
                c.problems.append("%s:%d stream read whose value is unused: %s" % (fi.module.path, e.line, show(untag(t))[:60]))
                continue
            n = cl[0][1]
            const = None
            for r in s.raises():
                for cj in r.pc:
                    for x in conjuncts(cj.term):
                        if x[0] == "cmp" and x[1] == "!=" and t in (x[2], x[3]):
                            o = x[3] if x[2] == t else x[2]
                            if o[0] == "c" and isinstance(o[1], bytes) and len(o[1]) == n and cj.prov == "branch":
                                const = o[1]
            # also the unpacked form: struct.unpack('B', read)[0] != 0   /   (v,) = struct.unpack(b'B', read); if v != 0
            if const is None and n == 1:
                from .terms import lin_parts as _lin_parts

                def _byte_of(a: Term) -> bool:
                    # a denotes the single byte of this read, as an integer
                    if a[0] in ("s", "e") and len(a) == 3 and a[2] in (C(0), 0) and a[1][0] == "call" and a[1][1] == ("g", "ext:struct.unpack") \
                            and len(a[1][2]) == 2 and a[1][2][1] == t and a[1][2][0][0] == "c" and a[1][2][0][1] in (b"B", "B", b">B", ">B", b"<B", "<B", b"!B", "!B"):
                        return True
                    return False
                for r in s.raises():
                    for cj in r.pc:
                        if cj.prov != "branch":
                            continue
                        for x in conjuncts(cj.term):
                            if x[0] == "cmp" and x[1] == "!=":
                                for a, o in ((x[2], x[3]), (x[3], x[2])):
                                    if _byte_of(a) and o[0] == "c" and isinstance(o[1], int) and not isinstance(o[1], bool) and 0 <= o[1] < 256:
                                        const = bytes([o[1]])
                            elif x[0] == "cmpz" and x[1] == "!=":
                                atoms, k0 = _lin_parts(x[2])
                                if len(atoms) == 1:
                                    (a, co), = atoms.items()
                                    if _byte_of(a) and co in (1, -1) and 0 <= -k0 * co < 256:
                                        const = bytes([-k0 * co])
            if const is not None:
                items.append((k, ("const", const), None))
            else:
                # is the value used anywhere at all (e.g. compared loosely)?
                used_elsewhere = any(t in list(subterms(x.term)) for cj_e in s.events for x in cj_e.pc)
                if used_elsewhere:
                    c.problems.append("%s:%d read compared in a way that is not a strict constant check: %s" % (fi.module.path, e.line, show(untag(t))[:60]))
                items.append((k, ("ignored", n), None))
        for k, fields in self._multi.items():
            for i, (w_, _o) in enumerate(fields):
                if i not in self._multi_used.get(k, set()):
                    items.append(((k, i), ("ignored", w_), None))
        items.sort(key=lambda it: it[0] if isinstance(it[0], tuple) else (it[0], 0))
        c.reader = [p for _, p, _ in items]
        c.reader_args = [a for _, _, a in items]

    def _span(self, c: Codec, pname: str, readcall: Term, s: Summary, reads: Dict[int, Event], fvar: Term) -> None:
        """readcall = f.read(end - start)#k ; start/end must be f.tell() values; a seek(start) precedes the read"""
        k = tag_of_term(readcall)
        info: Dict[str, Any] = {"param": pname, "line": reads[k].line if k in reads else 0, "ok": False}
        arg = readcall[2][0] if readcall[2] else None
        if arg is not None:
            atoms, const = lin_parts(arg)
            pos = [a for a, v in atoms.items() if v == 1]
            neg = [a for a, v in atoms.items() if v == -1]
            if len(pos) == 1 and len(neg) == 1 and const == 0 and len(atoms) == 2:
                end, start = pos[0], neg[0]
                ke, ks = tag_of_term(end), tag_of_term(start)
                is_tell = lambda t: t[0] == "call" and t[1] == ("a", fvar, "tell")  # noqa
                seeks = [kk for kk, e in reads.items() if e.parts and e.parts[0] == ("a", fvar, "seek") and e.term[2] == (start,)]
                if ke is not None and ks is not None and is_tell(end) and is_tell(start) and seeks:
                    ksk = max(x for x in seeks if x < k) if any(x < k for x in seeks) else None
                    consuming = [kk for kk, e in reads.items()
                                 if not (e.parts and e.parts[0][0] == "a" and e.parts[0][1] == fvar and e.parts[0][2] in ("tell", "seek", "read"))]
                    info.update({
                        "start_tag": ks, "end_tag": ke, "seek_tag": ksk, "read_tag": k,
                        "reads_before_start": len([x for x in consuming if x < ks]),
                        "reads_in_span": len([x for x in consuming if ks < x < ke]),
                        "reads_after_end": len([x for x in consuming if x > ke]),
                        "span_read_tags": [x for x in consuming if ks < x < ke],
                        "ok": ksk is not None and ke < ksk < k and not [x for x in consuming if ke < x < k],
                    })
        c.span = info

    # ------------------------------------------------------------------ per class
    def _extract(self, ci: ClassInfo) -> Codec:
        c = Codec(ci)
        self._ctor(c)
        w = ci.methods.get("stream_serialize")
        r = ci.methods.get("stream_deserialize")
        try:
            if w is not None:
                self._writer(c, w)
        except AnalysisError as e:
            c.problems.append("writer: %s" % e)
        try:
            if r is not None:
                self._reader(c, r)
        except AnalysisError as e:
            c.problems.append("reader: %s" % e)
        return c

    # ------------------------------------------------------------------ queries
    def dispatching_base(self, q: str) -> Optional[Codec]:
        for b in self.repo.mro(q)[1:]:
            cb = self.codecs.get(b)
            if cb is not None and cb.dispatch is not None:
                return cb
        return None

    def tag_of(self, q: str) -> Optional[bytes]:
        b = self.dispatching_base(q)
        if b is None or b.dispatch is None:
            return None
        for tag, sub in b.dispatch.table:
            if sub == q:
                return tag
        return None


def show_prim(p: Prim) -> str:
    k = p[0]
    if k == "raw":
        return "%s raw(%s)" % (p[2], p[1] if p[1] is not None else "?")
    if k == "uint":
        return "%s u%d%s" % (p[3], p[1] * 8, "be" if p[2] == "big" else "le")
    if k == "const":
        v = p[1]
        return "const %s" % (v.hex() if len(v) <= 8 else "%d*%s" % (len(v), v[:1].hex()) if len(set(v)) == 1 else v[:8].hex() + "..")
    if k == "lenient":
        return "%s lenient(%d)" % (p[2], p[1])
    if k == "ignored":
        return "ignored(%d)" % p[1]
    if k == "vlq":
        return "%s vlq" % p[1]
    if k == "lp":
        return "%s %s-len+raw" % (p[2], "u%d" % (p[1] * 8) if isinstance(p[1], int) else p[1])
    if k == "list":
        return "%s list<%s>" % (p[2], (p[1] or "?").split(".")[-1])
    if k == "rawlist":
        return "%s vlq+raw(%s)*" % (p[2], p[1] if p[1] is not None else "?")
    if k == "nested":
        return "%s %s" % (p[2], (p[1] or "?").split(".")[-1])
    if k == "ip16":
        return "%s ip16" % p[1]
    if k == "bytag":
        return "%s by-tag(%s)" % (p[2], p[1])
    return repr(p)
