"""E7: syntax-directed summariser.

Walks a function body once, keeping an environment of normalised definitions, the path condition
(with provenance of every conjunct), the loop / try / with context, and emits events:
raise, assert, call, return, store, del. Resolved repo callees are inlined (bounded depth) so that a
guard counts wherever it lives. Nothing is executed and no solver is involved.
"""
from __future__ import annotations

import ast
from typing import Any, Dict, List, Optional, Set, Tuple

from .repo import AnalysisError, FuncInfo, Repo, func_body
from .terms import (C, Norm, Scope, Term, Typer, conjuncts, key, lin_add, mk_and, mk_not, mk_or, mk_sub, refine_lookups, show, subterms)

MUTATORS = {"append", "add", "pop", "clear", "update", "insert", "remove", "extend", "discard", "popitem", "setdefault",
            "difference_update", "intersection_update", "sort", "reverse", "__setitem__", "__delitem__"}

BUILTIN_EXC_BASES = {
    "BaseException": None, "Exception": "BaseException", "KeyboardInterrupt": "BaseException", "SystemExit": "BaseException",
    "ValueError": "Exception", "KeyError": "LookupError", "IndexError": "LookupError", "LookupError": "Exception",
    "TypeError": "Exception", "AttributeError": "Exception", "AssertionError": "Exception", "OSError": "Exception",
    "RuntimeError": "Exception", "NotImplementedError": "RuntimeError", "StopIteration": "Exception",
    "OverflowError": "ArithmeticError", "ZeroDivisionError": "ArithmeticError", "ArithmeticError": "Exception",
    "ConnectionRefusedError": "OSError", "struct.error": "Exception", "UnicodeDecodeError": "ValueError",
}


class Conj:
    __slots__ = ("term", "prov", "line")

    def __init__(self, term: Term, prov: str, line: int):
        self.term = term
        self.prov = prov   # branch | raise-surv | ret-surv | cont-surv | break-surv | handler | loopcond | filter
        self.line = line

    def __repr__(self) -> str:
        return "%s[%s]" % (show(self.term), self.prov)


class TryInfo:
    def __init__(self, node: ast.Try, fi: FuncInfo, handlers: List[Tuple[Optional[List[str]], bool]]):
        self.node = node
        self.fi = fi
        self.handlers = handlers   # (caught type names or None for bare, reraises?)
        self.handler_falls = False  # does some handler complete normally (execution continues after the try)?


class Event:
    def __init__(self, kind: str, term: Term, ctx: "Ctx", line: int, **extra: Any):
        self.kind = kind           # raise | assert | call | return | store | del
        self.term = term
        self.pc: Tuple[Conj, ...] = tuple(ctx.pc)
        self.loops: Tuple[Tuple[Any, ...], ...] = tuple(ctx.loops)
        self.tries: Tuple[TryInfo, ...] = tuple(ctx.tries)
        self.else_of: Tuple[TryInfo, ...] = tuple(ctx.else_of)   # try statements whose else-block contains the event
        self.finally_of: Tuple[TryInfo, ...] = tuple(ctx.finally_of)   # try statements whose finally-block contains it (runs on failure too)
        self.withs: Tuple[Term, ...] = tuple(ctx.withs)
        self.func = ctx.fi.qualname
        self.file = ctx.fi.module.path
        self.chain = ctx.chain
        self.line = line
        self.targets: List[str] = extra.get("targets", [])
        self.parts = extra.get("parts")          # (f, args, kwargs) of a call
        self.value: Optional[Term] = extra.get("value")   # stored value
        self.inlined = False
        self.seq = -1
        self.stmt_id = ctx.stmt_id
        self.inner_stmt_id = ctx.inner_stmt_id       # the statement inside a helper expanded in place (== stmt_id outside helpers)
        self.inl_path: Tuple[int, ...] = ctx.inl_path   # which expansions of transparent helpers the event lies in (outermost first)

    @property
    def cond(self) -> Term:
        return mk_and([c.term for c in self.pc])

    @property
    def loc(self) -> str:
        return "%s:%d" % (self.file, self.line)

    def describe(self) -> str:
        s = "%s %s" % (self.kind, show(self.term))
        if self.kind == "store" and self.value is not None:
            s += " := " + show(self.value)
        if self.pc:
            s += "  if " + " ∧ ".join(repr(c) for c in self.pc)
        if self.loops:
            s += "  [" + "; ".join("%s %s%s" % (l[0], show(l[1]), " (early-exit)" if l[2] else "") for l in self.loops) + "]"
        return s

    def __repr__(self) -> str:
        return "<%s @%s>" % (self.describe(), self.loc)


class Ctx:
    def __init__(self, fi: FuncInfo, scope: Scope, depth: int = 0):
        self.fi = fi
        self.scope = scope
        self.pc: List[Conj] = []
        self.loops: List[Tuple[Any, ...]] = []
        self.tries: List[TryInfo] = []
        self.else_of: List[TryInfo] = []
        self.finally_of: List[TryInfo] = []
        self.withs: List[Term] = []
        self.chain: Tuple[Tuple[str, int], ...] = ()
        self.depth = depth
        self.stmt_id = 0
        self.inner_stmt_id = 0
        self.inl_path: Tuple[int, ...] = ()
        self.freeze = False                         # transparent helper: events belong to the caller's statement
        self.captured: Optional[List["Event"]] = None   # returns of a transparent helper
        self.inl: Tuple[str, ...] = ()              # transparent helpers currently being expanded (recursion guard)

    def child(self, fi: FuncInfo, scope: Scope, line: int) -> "Ctx":
        c = Ctx(fi, scope, self.depth + 1)
        c.pc = list(self.pc)
        c.loops = list(self.loops)
        c.tries = list(self.tries)
        c.else_of = list(self.else_of)
        c.finally_of = list(self.finally_of)
        c.withs = list(self.withs)
        c.chain = self.chain + ((self.fi.qualname, line),)
        c.inl_path = self.inl_path
        c.inner_stmt_id = self.inner_stmt_id
        return c


class Summary:
    def __init__(self, fi: FuncInfo, events: List[Event], norm: Norm, scope: Scope, unknown: List[str]):
        self.fi = fi
        self.events = events
        self.norm = norm
        self.scope = scope
        self.unknown = unknown     # constructs the walker did not model (analysis left the fragment)
        self.tests: Dict[int, Term] = {}    # id(If/While node) -> normalised test
        self.iters: Dict[int, Term] = {}    # id(For node) -> normalised iteration domain
        self.tests2: Dict[Tuple[Tuple[int, ...], int], Term] = {}
        self.inlinings: Dict[int, FuncInfo] = {}
        self.inl_anchor: Dict[int, Tuple[Tuple[int, ...], int, int]] = {}
        self.falls = True                   # can execution run off the end of the body (implicit `return None`)?
        self.end_pc: Tuple[Conj, ...] = ()  # the conditions under which it does

    def of_kind(self, *kinds: str) -> List[Event]:
        return [e for e in self.events if e.kind in kinds]

    def raises(self) -> List[Event]:
        return [e for e in self.events if e.kind in ("raise", "assert")]

    def calls_to(self, qualname: str) -> List[Event]:
        return [e for e in self.events if e.kind == "call" and qualname in e.targets]

    def own(self, kinds: Tuple[str, ...] = ()) -> List[Event]:
        return [e for e in self.events if not e.chain and (not kinds or e.kind in kinds)]

    def returns(self) -> List[Event]:
        return [e for e in self.events if e.kind == "return" and not e.chain]

    def dump(self) -> str:
        out = []
        for e in self.events:
            out.append("%3d %s%s  @%s:%d" % (e.seq, "  " * len(e.chain), e.describe(), e.func.split(".")[-1], e.line))
        return "\n".join(out)


def lazy_init_name(st: ast.stmt) -> Optional[str]:
    """`if n is None: n = <expr>` (nothing else, no else-branch) -> n"""
    if not (isinstance(st, ast.If) and not st.orelse and len(st.body) == 1 and isinstance(st.test, ast.Compare) and len(st.test.ops) == 1
            and isinstance(st.test.ops[0], ast.Is) and isinstance(st.test.left, ast.Name)
            and isinstance(st.test.comparators[0], ast.Constant) and st.test.comparators[0].value is None):
        return None
    a = st.body[0]
    if isinstance(a, ast.Assign) and len(a.targets) == 1 and isinstance(a.targets[0], ast.Name) and a.targets[0].id == st.test.left.id:
        return st.test.left.id
    if isinstance(a, ast.AnnAssign) and a.value is not None and isinstance(a.target, ast.Name) and a.target.id == st.test.left.id:
        return st.test.left.id
    return None


def lazy_init_names(body: List[ast.stmt]) -> Set[str]:
    """names whose every assignment inside the loop body is one `if n is None: n = <expr>` statement"""
    cand: Dict[str, int] = {}
    inner: Set[int] = set()
    for s_ in body:
        for n in ast.walk(s_):
            nm = lazy_init_name(n) if isinstance(n, ast.If) else None
            if nm is not None:
                cand[nm] = cand.get(nm, 0) + 1
                inner.add(id(n.body[0]))
    out = set()
    for nm, k in cand.items():
        if k != 1:
            continue
        others = 0
        for s_ in body:
            for n in ast.walk(s_):
                if isinstance(n, (ast.Assign, ast.AnnAssign, ast.AugAssign, ast.For, ast.With, ast.NamedExpr)) and id(n) not in inner:
                    if isinstance(n, ast.NamedExpr):
                        hit = n.target.id == nm
                    elif isinstance(n, ast.For):
                        hit = nm in assigned_names([ast.Assign(targets=[n.target], value=ast.Constant(0), lineno=n.lineno)])
                    elif isinstance(n, ast.With):
                        hit = any(i.optional_vars is not None and nm in assigned_names([ast.Assign(targets=[i.optional_vars], value=ast.Constant(0), lineno=n.lineno)])
                                  for i in n.items)
                    else:
                        hit = nm in assigned_names([n])
                    others += bool(hit)
        if not others:
            out.add(nm)
    return out


def assigned_names(stmts: List[ast.stmt]) -> Set[str]:
    out: Set[str] = set()

    def tgt(t: ast.AST) -> None:
        if isinstance(t, ast.Attribute) and isinstance(t.value, ast.Name):
            out.add("@%s.%s" % (t.value.id, t.attr))
        if isinstance(t, ast.Name):
            out.add(t.id)
        elif isinstance(t, (ast.Tuple, ast.List)):
            for e in t.elts:
                tgt(e)
        elif isinstance(t, ast.Starred):
            tgt(t.value)

    class V(ast.NodeVisitor):
        def visit_Assign(self, n: ast.Assign) -> None:
            for t in n.targets:
                tgt(t)
            self.generic_visit(n)

        def visit_AugAssign(self, n: ast.AugAssign) -> None:
            tgt(n.target)
            self.generic_visit(n)

        def visit_AnnAssign(self, n: ast.AnnAssign) -> None:
            if n.value is not None:
                tgt(n.target)
            self.generic_visit(n)

        def visit_For(self, n: ast.For) -> None:
            tgt(n.target)
            self.generic_visit(n)

        def visit_With(self, n: ast.With) -> None:
            for it in n.items:
                if it.optional_vars is not None:
                    tgt(it.optional_vars)
            self.generic_visit(n)

        def visit_NamedExpr(self, n: ast.NamedExpr) -> None:
            tgt(n.target)
            self.generic_visit(n)

        def visit_ExceptHandler(self, n: ast.ExceptHandler) -> None:
            if n.name:
                out.add(n.name)
            self.generic_visit(n)

        def visit_FunctionDef(self, n: ast.FunctionDef) -> None:
            return

        def visit_Lambda(self, n: ast.Lambda) -> None:
            return

        def visit_ClassDef(self, n: ast.ClassDef) -> None:
            return

    v = V()
    for s in stmts:
        v.visit(s)
    return out


def contains_jump(stmts: List[ast.stmt], kinds: Tuple[type, ...]) -> bool:
    for s in stmts:
        for n in ast.walk(s):
            if isinstance(n, (ast.FunctionDef, ast.Lambda, ast.ClassDef)):
                continue
            if isinstance(n, kinds):
                return True
    return False


class Walker:
    def __init__(self, repo: Repo, depth: int = 3, typer: Optional[Typer] = None):
        self.repo = repo
        self.max_depth = depth
        self.typer = typer or Typer(repo)
        self.unresolved: List[str] = []
        self.api: Optional[Set[str]] = None
        self._transp: Dict[str, bool] = {}
        try:
            import json
            import os
            p_ = os.path.join(os.path.dirname(os.path.dirname(os.path.dirname(os.path.abspath(__file__)))), "reference", "api_functions.json")
            with open(p_) as fh:
                self.api = set(json.load(fh))
        except Exception:
            self.api = None
        self._cache: Dict[Tuple[str, int, bool], Summary] = {}

    def transparent(self, qualname: str) -> bool:
        """functions that did not exist when the rule tables were written (helpers extracted later) are looked through"""
        if self.api is None or qualname in self.api or qualname not in self.repo.functions:
            return False
        c = self._transp.get(qualname)
        if c is None:
            c = self._transp[qualname] = not self._opaque_helper(self.repo.functions[qualname])
        return c

    @staticmethod
    def _opaque_helper(fi: FuncInfo) -> bool:
        """new helpers that cannot be expanded in place: recursive ones, generators, and those whose result depends on which
        exception was caught (a `return` inside a try statement). They are analysed like any other function, through their call sites."""
        node = fi.node
        for n in ast.walk(node):
            if isinstance(n, (ast.Yield, ast.YieldFrom)):
                return True
            if isinstance(n, ast.Call) and ((isinstance(n.func, ast.Name) and n.func.id == fi.name)
                                            or (isinstance(n.func, ast.Attribute) and n.func.attr == fi.name)):
                return True
            if isinstance(n, ast.Try):
                for sub in ast.walk(n):
                    if isinstance(sub, ast.Return):
                        return True
        return False

    # ------------------------------------------------------------------ public
    def summary(self, qualname: str, depth: Optional[int] = None, heap: bool = False) -> Summary:
        """heap=True: stores to `name.attr` are remembered, so a later read of `name.attr` denotes the stored value."""
        d = self.max_depth if depth is None else depth
        ck = (qualname, d, heap)
        if ck in self._cache:
            return self._cache[ck]
        fi = self.repo.func(qualname)
        s = _Run(self, fi, d, heap).run()
        self._cache[ck] = s
        return s


class _Run:
    def __init__(self, w: Walker, fi: FuncInfo, depth: int, heap: bool = False):
        self.heap = heap
        self.w = w
        self.repo = w.repo
        self.fi = fi
        self.max_depth = depth
        self.norm = Norm(w.repo, w.typer)
        self.norm.on_call = self.on_call
        self.norm.on_property = self.on_property
        self.norm.on_yield = lambda v, node: self.emit("yield", v, node.lineno)
        self.events: List[Event] = []
        self.unknown: List[str] = []
        self.cur: Ctx
        self._loop_n = 0
        self._new_n = 0
        self.reader_ctx = "deserialize" in fi.name     # stream reads get an identity: two safe_read(f, 32) are different values
        self._read_n = 0
        self.builders: Dict[Term, List[Tuple[Term, Tuple[Any, ...], Tuple[Conj, ...]]]] = {}
        self.dirty: Set[Term] = set()
        self.seeds: Dict[Term, Term] = {}      # seeded builders: container identity -> initial (fresh) list value
        self._inl_n = 0
        self.inlinings: Dict[int, FuncInfo] = {}                 # expansion id -> helper expanded in place
        self.inl_anchor: Dict[int, Tuple[Tuple[int, ...], int, int]] = {}   # expansion id -> (path, statement, event index) of the call
        self.tests2: Dict[Tuple[Tuple[int, ...], int], Term] = {}  # (expansion path, id(If/While node)) -> normalised test
        self.lazy_lv: Set[Term] = set()
        self.tests: Dict[int, Term] = {}
        self.iters: Dict[int, Term] = {}

    # ------------------------------------------------------------------ set-up
    def run(self) -> Summary:
        fi = self.fi
        scope = self.param_scope(fi, None)
        self.cur = Ctx(fi, scope, 0)
        out = self.block(func_body(fi))
        for i, e in enumerate(self.events):
            e.seq = i
        sm = Summary(fi, self.events, self.norm, scope, self.unknown)
        sm.falls = "fall" in out
        sm.end_pc = tuple(self.cur.pc) if sm.falls else ()
        sm.tests = self.tests
        sm.tests2 = self.tests2
        sm.inlinings = self.inlinings
        sm.inl_anchor = self.inl_anchor
        sm.iters = self.iters
        return sm

    def param_scope(self, fi: FuncInfo, outer: Optional[Scope]) -> Scope:
        if outer is None and fi.parent is not None:
            # a nested function summarised on its own: its free variables are the enclosing function's parameters (with their types)
            outer = self.param_scope(fi.parent, None)
        scope = Scope(fi.module, fi, outer=outer)
        a = fi.node.args  # type: ignore
        allp = a.posonlyargs + a.args + a.kwonlyargs
        for i, p in enumerate(allp):
            t: Term = ("v", p.arg)
            scope.env[p.arg] = t
            ty = self.w.typer.parse_ann(p.annotation, fi.module, fi)
            if ty is None and i == 0 and fi.cls is not None and not fi.is_staticmethod:
                ty = ("K", fi.cls.qualname) if fi.is_classmethod else ("C", fi.cls.qualname)
            if ty is not None:
                scope.types[p.arg] = ty
                self.norm.var_types[t] = ty
        if a.vararg:
            scope.env[a.vararg.arg] = ("v", "*" + a.vararg.arg)
        if a.kwarg:
            scope.env[a.kwarg.arg] = ("v", "**" + a.kwarg.arg)
        return scope

    def emit(self, kind: str, term: Term, line: int, **extra: Any) -> Event:
        ctx = self.cur
        e = Event(kind, term, ctx, line, **extra)
        if self.norm.guard_stack:
            e.pc = e.pc + tuple(Conj(g, "branch", line) for g in self.norm.guard_stack)
        # comprehension context
        if self.norm.comp_stack:
            loops = list(e.loops)
            pc = list(e.pc)
            for dom, conds in self.norm.comp_stack:
                loops.append(("comp", dom, False, len(pc)))
                for c in conds:
                    pc.append(Conj(c, "filter", line))
            e.loops = tuple(loops)
            e.pc = tuple(pc)
        self.events.append(e)
        return e

    def N(self, node: ast.AST) -> Term:
        return self.norm.norm(node, self.cur.scope)

    # ------------------------------------------------------------------ calls
    def resolve_targets(self, f: Term, scope: Scope) -> List[str]:
        repo = self.repo
        if f[0] == "g":
            ref = f[1]
            if ref in repo.functions:
                return [ref]
            if ref in repo.classes:
                mi = repo.find_method(ref, "__init__")
                return ["new:" + ref] + ([mi.qualname] if mi else [])
            return []
        if f[0] == "a":
            rt = self.norm.type_of(f[1], scope)
            return self._method_targets(rt, f[2])
        return []

    def _method_targets(self, rt: Any, name: str) -> List[str]:
        repo = self.repo
        if rt is None:
            return []
        if rt[0] == "U":
            out: List[str] = []
            for x in rt[1]:
                for q in self._method_targets(x, name):
                    if q not in out:
                        out.append(q)
            return out
        if rt[0] == "K":
            mi = repo.find_method(rt[1], name)
            return [mi.qualname] if mi else []
        if rt[0] == "C":
            out = []
            mi = repo.find_method(rt[1], name)
            if mi is not None:
                out.append(mi.qualname)
            for sub in repo.subclasses(rt[1]):
                m2 = repo.classes[sub].methods.get(name)
                if m2 is not None and m2.qualname not in out:
                    out.append(m2.qualname)
            return out
        return []

    def on_property(self, base: Term, prop: FuncInfo, node: ast.AST, scope: Scope) -> Optional[Term]:
        """reading a @property that was introduced after the rule tables were written is a call of a transparent helper"""
        ctx = self.cur
        if not self.w.transparent(prop.qualname) or prop.qualname == ctx.fi.qualname or prop.qualname in ctx.inl or len(ctx.inl) >= 6:
            return None
        return self.inline_transparent(prop, ("a", base, prop.name), [], [], getattr(node, "lineno", 0))

    def on_call(self, term: Term, node: ast.Call, scope: Scope, parts: Tuple[Term, List[Term], List[Tuple[str, Term]]]) -> Optional[Term]:
        f, args, kwargs = parts
        targets = self.resolve_targets(f, scope)
        ctx = self.cur
        tagged = False
        if self.reader_ctx and term[0] == "call" and self._is_stream_op(f, targets):
            self._read_n += 1
            term = ("call", term[1], term[2], term[3] + (("#", C(self._read_n)),))
            tagged = True
        if f[0] == "a" and f[1][0] == "new":
            if f[2] in ("append", "add") and len(args) == 1 and not kwargs and f[1][1] in ("list", "set"):
                self.builders.setdefault(f[1], []).append((args[0], tuple(ctx.loops), tuple(ctx.pc)))
            elif f[2] in ("extend", "update") and len(args) == 1 and not kwargs and f[1][1] in ("list", "set") and args[0][0] == "comp" \
                    and args[0][1] == "list" and args[0][3]:
                # xs.extend([e for ..]) adds e for every iteration of the comprehension's loops, in order
                loops2 = list(ctx.loops)
                pc2 = list(ctx.pc)
                for dom, conds in args[0][3]:
                    loops2.append(("for", dom, False, len(pc2)))
                    for c in conds:
                        pc2.append(Conj(c, "filter", node.lineno))
                self.builders.setdefault(f[1], []).append((args[0][2], tuple(loops2), tuple(pc2)))
            elif f[2] in ("extend",) and len(args) == 1 and not kwargs and f[1][1] == "list" and args[0][0] in ("list", "tuple"):
                for x in args[0][1]:
                    self.builders.setdefault(f[1], []).append((x, tuple(ctx.loops), tuple(ctx.pc)))
            elif f[2] in MUTATORS:
                self.dirty.add(f[1])
        elif f[0] == "a" and f[2] in MUTATORS and f[1][0] in ("comp", "list", "cat", "set", "dict") and isinstance(node.func, ast.Attribute) \
                and isinstance(node.func.value, ast.Name) and scope is not None and scope.env.get(node.func.value.id) == f[1] and not ctx.loops:
            # a local name that denotes a finished value (a comprehension, a display, the result of the builder idiom) and is changed in
            # place afterwards denotes the changed value from here on
            nm_ = node.func.value.id
            old_v = f[1]
            if f[2] == "append" and len(args) == 1 and not kwargs and old_v[0] in ("comp", "list", "cat") and not (old_v[0] == "comp" and old_v[1] != "list"):
                scope.env[nm_] = self.norm.mk_binop(ast.Add(), old_v, ("list", (args[0],)), scope)
            elif f[2] == "extend" and len(args) == 1 and not kwargs and old_v[0] in ("comp", "list", "cat") and args[0][0] in ("comp", "list", "cat", "tuple"):
                ext = ("list", args[0][1]) if args[0][0] == "tuple" else args[0]
                scope.env[nm_] = self.norm.mk_binop(ast.Add(), old_v, ext, scope)
            elif f[2] == "insert" and len(args) == 2 and not kwargs and args[0] == C(0) and old_v[0] in ("comp", "list", "cat") \
                    and not (old_v[0] == "comp" and old_v[1] != "list"):
                scope.env[nm_] = self.norm.mk_binop(ast.Add(), ("list", (args[1],)), old_v, scope)
            elif f[2] == "sort" and not args:
                scope.env[nm_] = self.norm.mk_call(("g", "builtin:sorted"), [old_v], list(kwargs), scope)
            else:
                scope.env[nm_] = ("call", ("g", "builtin:changed_by_" + f[2]), (old_v,) + tuple(args), tuple(kwargs))
        real = [t for t in targets if not t.startswith("new:")]
        # a helper that is not part of the recorded API (extracted later by a maintainer) is transparent: its events are the
        # caller's events and its value is expanded in place, so extracting / inlining helpers changes nothing for the rules
        if len(real) == 1 and not any(t.startswith("new:") for t in targets) and self.w.transparent(real[0]) \
                and real[0] != ctx.fi.qualname and real[0] not in ctx.inl and len(ctx.inl) < 6:
            return self.inline_transparent(self.repo.functions[real[0]], f, args, kwargs, node.lineno)
        ev = self.emit("call", term, node.lineno, targets=targets, parts=parts)
        ret = term if tagged else None
        if any(t.startswith("new:") for t in targets):
            return ret   # constructors are not inlined
        if len(real) != 1:
            return ret
        callee = self.repo.functions[real[0]]
        if ctx.depth >= self.max_depth:
            return ret
        if callee.qualname == ctx.fi.qualname or any(callee.qualname == c[0] for c in ctx.chain):
            return ret   # recursion
        self.inline(callee, f, args, kwargs, node.lineno, ev)
        return ret

    STREAM_FUNCS = ("skepticoin.serialization.safe_read", "skepticoin.serialization.stream_deserialize_vlq",
                    "skepticoin.serialization.stream_deserialize_list")

    def _is_stream_op(self, f: Term, targets: List[str]) -> bool:
        if any(t in self.STREAM_FUNCS for t in targets):
            return True
        if f[0] == "a" and f[2] in ("stream_deserialize", "read", "tell", "seek", "readinto", "read1"):
            return True
        return False

    def inline_transparent(self, callee: FuncInfo, f: Term, args: List[Term], kwargs: List[Tuple[str, Term]], line: int) -> Optional[Term]:
        ctx = self.cur
        # the call site's own context: enclosing comprehensions and short-circuit guards become loops / conditions of the callee
        n_pc = len(ctx.pc) + len(self.norm.guard_stack) + sum(len(conds) for _d, conds in self.norm.comp_stack)
        n_loops = len(ctx.loops) + len(self.norm.comp_stack)
        captured: List[Event] = []
        n_ev = len(self.events)
        n_tries = len(ctx.tries)
        ok = self.inline(callee, f, args, kwargs, line, None, transparent=True, captured=captured)
        if not ok:
            return None
        # the caller goes on only if the helper did not raise: what survives its raise statements is a condition of everything after
        if not self.norm.guard_stack and not self.norm.comp_stack:
            for e in self.events[n_ev:]:
                if e.kind in ("raise", "assert") and len(e.tries) == n_tries and not e.loops[n_loops:]:
                    rel = [c.term for c in e.pc[n_pc:]]
                    if rel:
                        ctx.pc.append(Conj(mk_not(mk_and(rel)), "raise-surv", line))
        # value of the helper: its returns folded into one conditional term (conditions relative to the call site).
        # Returns inside a loop of the helper make a first-match search: ("first", domain, ((condition, value), ...), default) -
        # the value for the first element satisfying one of the exit conditions, else the value of the code after the loop.
        val: Optional[Term] = None
        pending: Optional[Tuple[Any, List[Tuple[Term, Term]], List[Term]]] = None
        provs = ("branch", "handler", "loopcond", "filter")

        def flush() -> None:
            nonlocal val, pending
            if pending is None:
                return
            loop, exits, outer_rel = pending
            fv: Term = ("first", loop[1], tuple(exits), val if val is not None else C(None))
            cond = mk_and(outer_rel)
            val = fv if (val is None or cond == C(True)) else self.norm.mk_ife(cond, fv, val)
            pending = None

        for r in reversed(captured):
            rl = r.loops[n_loops:]
            if rl:
                if len(rl) != 1 or rl[0][0] not in ("for", "comp"):
                    return ("opaque", "return inside a loop of %s" % callee.name)
                loop = rl[0]
                mark = max(loop[3], n_pc)
                inner = mk_and([c.term for c in r.pc[mark:]])
                outer_rel = [c.term for c in r.pc[n_pc:mark] if c.prov in provs]
                if pending is not None and pending[0] == loop:
                    pending[1].insert(0, (inner, r.term))
                else:
                    flush()
                    pending = (loop, [(inner, r.term)], outer_rel)
                continue
            flush()
            rel = [c.term for c in r.pc[n_pc:] if c.prov in provs]
            cond = mk_and(rel)
            if val is None or cond == C(True):
                val = r.term
            else:
                val = self.norm.mk_ife(cond, r.term, val)
        flush()
        return val if val is not None else C(None)

    def inline(self, callee: FuncInfo, f: Term, args: List[Term], kwargs: List[Tuple[str, Term]], line: int, ev: Optional[Event],
               transparent: bool = False, captured: Optional[List[Event]] = None) -> bool:
        ctx = self.cur
        outer = None
        if callee.parent is not None:
            s: Optional[Scope] = ctx.scope
            while s is not None:
                if s.func is callee.parent:
                    outer = s
                    break
                s = s.outer
        scope = Scope(callee.module, callee, outer=outer)
        a = callee.node.args  # type: ignore
        params = [p.arg for p in a.posonlyargs + a.args]
        bound: Dict[str, Term] = {}
        pos = list(args)
        if f[0] == "a" and callee.cls is not None and not callee.is_staticmethod and params:
            recv = f[1]
            if callee.is_classmethod:
                rt = self.norm.type_of(recv, ctx.scope)
                recv = ("g", rt[1]) if rt and rt[0] in ("K", "C") else recv
            bound[params[0]] = recv
            params = params[1:]
        if any(x[0] == "call" and x[1] == ("g", "builtin:star") for x in pos) or any(k == "**" for k, _ in kwargs):
            return False
        for p, v in zip(params, pos):
            bound[p] = v
        for k_, v in kwargs:
            bound[k_] = v
        defaults = callee.defaults()
        for p in params + callee.kwonly:
            if p not in bound:
                if p in defaults:
                    try:
                        bound[p] = Norm(self.repo, self.w.typer).norm(defaults[p], Scope(callee.module, callee))
                    except Exception:
                        bound[p] = ("v", p)
                else:
                    bound[p] = ("v", p)
        for p, v in bound.items():
            scope.env[p] = v
            ty = self.w.typer.parse_ann(callee.param_annotation(p), callee.module, callee)
            if ty is not None:
                scope.types[p] = ty
                if self.norm.type_of(v, ctx.scope) is None and v[0] != "c":
                    self.norm.var_types[v] = ty
        heap_map: Dict[str, str] = {}
        if transparent and self.heap:
            # remembered attribute stores travel with the objects handed to a transparent helper (and back)
            for p, v in bound.items():
                if v[0] == "v":
                    heap_map[p] = v[1]
                    pre = "@%s." % v[1]
                    for k_, hv in list(ctx.scope.env.items()):
                        if k_.startswith(pre):
                            scope.env["@%s.%s" % (p, k_[len(pre):])] = hv
        saved = self.cur
        self.cur = ctx.child(callee, scope, line)
        if self.norm.guard_stack:
            for g in self.norm.guard_stack:
                self.cur.pc.append(Conj(g, "branch", line))
        if transparent:
            self.cur.chain = ctx.chain
            self.cur.depth = ctx.depth
            self.cur.freeze = True
            self.cur.stmt_id = ctx.stmt_id
            self._inl_n += 1
            self.cur.inl_path = ctx.inl_path + (self._inl_n,)
            self.inlinings[self._inl_n] = callee
            self.inl_anchor[self._inl_n] = (ctx.inl_path, ctx.inner_stmt_id if ctx.inl_path else ctx.stmt_id, len(self.events))
            self.cur.captured = captured
            self.cur.inl = ctx.inl + (callee.qualname,)
        else:
            self.cur.inl = ctx.inl
        # comprehension context becomes part of the callee's loop context
        if self.norm.comp_stack:
            for dom, conds in self.norm.comp_stack:
                self.cur.loops.append(("comp", dom, False, len(self.cur.pc)))
                for c in conds:
                    self.cur.pc.append(Conj(c, "filter", line))
        saved_stack = self.norm.comp_stack
        saved_guards = self.norm.guard_stack
        self.norm.comp_stack = []
        self.norm.guard_stack = []
        try:
            self.block(func_body(callee))
            if ev is not None:
                ev.inlined = True
        finally:
            self.cur = saved
            self.norm.comp_stack = saved_stack
            self.norm.guard_stack = saved_guards
        for p, name in heap_map.items():
            pre = "@%s." % p
            for k_, hv in list(scope.env.items()):
                if k_.startswith(pre):
                    ctx.scope.env["@%s.%s" % (name, k_[len(pre):])] = hv
        return True

    # ------------------------------------------------------------------ statements
    def block(self, stmts: List[ast.stmt]) -> Set[str]:
        """returns the set of ways the block may complete: fall return raise break continue"""
        out: Set[str] = {"fall"}
        for st in stmts:
            if "fall" not in out:
                break   # unreachable code
            out.discard("fall")
            out |= self.stmt(st)
        return out

    def stmt(self, st: ast.stmt) -> Set[str]:
        if not self.cur.freeze:
            self.cur.stmt_id = id(st)
        self.cur.inner_stmt_id = id(st)
        m = getattr(self, "s_" + type(st).__name__, None)
        if m is None:
            self.unknown.append("%s:%d %s" % (self.cur.fi.module.path, st.lineno, type(st).__name__))
            return {"fall"}
        return m(st)

    def s_Pass(self, st: ast.Pass) -> Set[str]:
        return {"fall"}

    s_Import = s_ImportFrom = s_Global = s_Nonlocal = s_FunctionDef = s_ClassDef = s_AsyncFunctionDef = s_Pass  # type: ignore

    def s_Break(self, st: ast.Break) -> Set[str]:
        return {"break"}

    def s_Continue(self, st: ast.Continue) -> Set[str]:
        return {"continue"}

    def s_Expr(self, st: ast.Expr) -> Set[str]:
        if isinstance(st.value, ast.Constant):
            return {"fall"}
        self.N(st.value)
        return {"fall"}

    def s_Return(self, st: ast.Return) -> Set[str]:
        v = self.N(st.value) if st.value is not None else C(None)
        if self.cur.captured is not None:
            self.cur.captured.append(Event("return", v, self.cur, st.lineno))
        else:
            self.emit("return", v, st.lineno)
        return {"return"}

    def s_Raise(self, st: ast.Raise) -> Set[str]:
        v = self.N(st.exc) if st.exc is not None else ("g", "builtin:reraise")
        self.emit("raise", v, st.lineno)
        return {"raise"}

    def s_Assert(self, st: ast.Assert) -> Set[str]:
        t = self.N(st.test)
        saved = list(self.cur.pc)
        self.cur.pc.append(Conj(mk_not(t), "branch", st.lineno))
        self.emit("assert", ("g", "builtin:AssertionError"), st.lineno)
        self.cur.pc = saved
        self.cur.pc.append(Conj(t, "raise-surv", st.lineno))
        return {"fall"}

    def assign_target(self, tgt: ast.AST, value: Term, line: int, ann: Any = None) -> None:
        scope = self.cur.scope
        if isinstance(tgt, ast.Name):
            scope.env[tgt.id] = value
            if ann is not None:
                scope.types[tgt.id] = ann
                if value[0] not in ("c",):
                    self.norm.var_types[value] = ann
            return
        if isinstance(tgt, (ast.Tuple, ast.List)) and sum(isinstance(e, ast.Starred) for e in tgt.elts) == 1:
            # `first, *rest = xs`: positions before the star count from the front, after it from the back, the star takes the slice between
            k = [i for i, e in enumerate(tgt.elts) if isinstance(e, ast.Starred)][0]
            after = len(tgt.elts) - k - 1
            if value[0] in ("tuple", "list") and len(value[1]) >= len(tgt.elts) - 1:
                vals = list(value[1])
                for el, v in zip(tgt.elts[:k], vals[:k]):
                    self.assign_target(el, v, line)
                self.assign_target(tgt.elts[k].value, ("list", tuple(vals[k:len(vals) - after])), line)     # type: ignore[attr-defined]
                for el, v in zip(tgt.elts[k + 1:], vals[len(vals) - after:]):
                    self.assign_target(el, v, line)
            else:
                for i, el in enumerate(tgt.elts[:k]):
                    self.assign_target(el, mk_sub(value, C(i)), line)
                self.assign_target(tgt.elts[k].value, ("sl", value, C(k) if k else None, C(-after) if after else None, None), line)   # type: ignore[attr-defined]
                for i, el in enumerate(tgt.elts[k + 1:]):
                    self.assign_target(el, mk_sub(value, C(i - after)), line)
            return
        if isinstance(tgt, (ast.Tuple, ast.List)):
            if value[0] in ("tuple", "list") and len(value[1]) == len(tgt.elts):
                for el, v in zip(tgt.elts, value[1]):
                    self.assign_target(el, v, line)
            else:
                n = len(tgt.elts)
                for i, el in enumerate(tgt.elts):
                    self.assign_target(el, mk_sub(value, C(i)), line)
            return
        if isinstance(tgt, ast.Starred):
            self.assign_target(tgt.value, ("opaque", "starred"), line)
            return
        if isinstance(tgt, (ast.Attribute, ast.Subscript)):
            t = self.N(_as_load(tgt))
            self.emit("store", t, line, value=value)
            if t[0] == "s" and t[1][0] == "new" and t[1][1] == "dict":
                self.builders.setdefault(t[1], []).append((("tuple", (t[2], value)), tuple(self.cur.loops), tuple(self.cur.pc)))
            if self.heap and isinstance(tgt, ast.Attribute) and isinstance(tgt.value, ast.Name):
                scope.env["@%s.%s" % (tgt.value.id, tgt.attr)] = value
            return
        self.unknown.append("%s:%d assignment target %s" % (self.cur.fi.module.path, line, type(tgt).__name__))

    def _fresh_container(self, v: Term, name: Optional[str] = None, st: Optional[ast.stmt] = None) -> Term:
        """a newly created empty mutable container gets an identity, so two local sets are not confused. A non-empty fresh list that
        is only extended by appends in a later loop (`xs = list(a); for ..: xs.append(e)`) is a seeded builder: seed ++ [e for ..]."""
        kind = None
        if v[0] == "call" and v[1][0] == "g" and v[1][1] in ("builtin:set", "builtin:list", "builtin:dict") and not v[2] and not v[3]:
            kind = v[1][1][8:]
        elif v in (("list", ()), ("dict", ()), ("set", ())):
            kind = v[0]
        seed = None
        if kind is None and name is not None and self._is_fresh_list(v) and self._appended_in_later_loop(name, st):
            kind, seed = "list", v
        if kind is None:
            return v
        self._new_n += 1
        X = ("new", kind, self._new_n, tuple(l[1] for l in self.cur.loops))
        if seed is not None:
            self.seeds[X] = seed
        return X

    @staticmethod
    def _is_fresh_list(v: Term) -> bool:
        if v[0] == "call" and v[1] in (("g", "builtin:list"), ("g", "builtin:sorted")) and len(v[2]) == 1:
            return True
        return (v[0] == "list" and bool(v[1])) or (v[0] == "comp" and v[1] == "list")

    def _appended_in_later_loop(self, name: str, st: Optional[ast.stmt]) -> bool:
        """syntactic: `name` is assigned once in the function and every `name.append(..)` occurs inside a for loop that does not
        contain the assignment"""
        node = self.cur.fi.node
        n_assign = 0
        for n in ast.walk(node):
            if isinstance(n, (ast.Assign, ast.AnnAssign, ast.AugAssign)):
                if name in assigned_names([n]):
                    n_assign += 1
            elif isinstance(n, (ast.For, ast.comprehension)) and name in assigned_names(
                    [ast.Assign(targets=[n.target], value=ast.Constant(0), lineno=0)]):
                n_assign += 1
        if n_assign != 1:
            return False
        is_app = lambda c: (isinstance(c, ast.Call) and isinstance(c.func, ast.Attribute) and c.func.attr == "append"   # noqa
                            and isinstance(c.func.value, ast.Name) and c.func.value.id == name)
        total = sum(1 for c in ast.walk(node) if is_app(c))
        inside: Set[int] = set()
        for loop in ast.walk(node):
            if isinstance(loop, ast.For) and not any(x is st for x in ast.walk(loop)):
                inside.update(id(c) for c in ast.walk(loop) if is_app(c))
        return total > 0 and len(inside) == total

    def s_Assign(self, st: ast.Assign) -> Set[str]:
        v = self.N(st.value)
        if len(st.targets) == 1 and isinstance(st.targets[0], ast.Name):
            v = self._fresh_container(v, st.targets[0].id, st)
        for t in st.targets:
            self.assign_target(t, v, st.lineno)
        return {"fall"}

    def s_AnnAssign(self, st: ast.AnnAssign) -> Set[str]:
        if st.value is None:
            return {"fall"}
        v = self.N(st.value)
        if isinstance(st.target, ast.Name):
            v = self._fresh_container(v, st.target.id, st)
        ann = self.w.typer.parse_ann(st.annotation, self.cur.fi.module, self.cur.fi)
        self.assign_target(st.target, v, st.lineno, ann)
        return {"fall"}

    def s_AugAssign(self, st: ast.AugAssign) -> Set[str]:
        v = self.N(st.value)
        load = ast.copy_location(_as_load(st.target), st.target)
        cur = self.N(load)
        new = self.norm.mk_binop(st.op, cur, v, self.cur.scope)
        if isinstance(st.target, ast.Name):
            self.cur.scope.env[st.target.id] = new
        else:
            self.emit("store", cur, st.lineno, value=new)
            if self.heap and isinstance(st.target, ast.Attribute) and isinstance(st.target.value, ast.Name):
                self.cur.scope.env["@%s.%s" % (st.target.value.id, st.target.attr)] = new
        return {"fall"}

    def s_Delete(self, st: ast.Delete) -> Set[str]:
        for t in st.targets:
            if isinstance(t, ast.Name):
                self.cur.scope.env.pop(t.id, None)
            else:
                self.emit("del", self.N(_as_load(t)), st.lineno)
        return {"fall"}

    # -- branching
    def _merge_env(self, cond: Term, base: Dict[str, Term], a: Optional[Dict[str, Term]], b: Optional[Dict[str, Term]]) -> Dict[str, Term]:
        if a is None and b is None:
            return base
        if a is None:
            return b  # type: ignore
        if b is None:
            return a
        out = dict(a)
        for k_ in set(a) | set(b):
            va, vb = a.get(k_), b.get(k_)
            if k_.startswith("@") and (va is None or vb is None):
                # a remembered attribute store on one side only: on the other side the attribute still has its old (unknown) value
                name, _, attr = k_[1:].partition(".")
                old = ("a", base.get(name, ("v", name)), attr)
                va = old if va is None else va
                vb = old if vb is None else vb
            if va is None:
                out[k_] = vb  # type: ignore
            elif vb is None:
                out[k_] = va
            elif va != vb:
                out[k_] = self.norm.mk_ife(cond, va, vb)
        return out

    @staticmethod
    def _leave_prov(out: Set[str]) -> str:
        if "return" in out:
            return "ret-surv"
        if "break" in out:
            return "break-surv"
        if "continue" in out:
            return "cont-surv"
        return "raise-surv"

    def s_If(self, st: ast.If) -> Set[str]:
        ctx = self.cur
        cond = self.norm.truth(self.N(st.test), ctx.scope)
        self.tests[id(st)] = cond
        self.tests2[(ctx.inl_path, id(st))] = cond
        base_env = dict(ctx.scope.env)
        base_pc = list(ctx.pc)
        # true branch
        ctx.pc = base_pc + [Conj(cond, "branch", st.lineno)]
        self._refine_env(cond)
        out_t = self.block(st.body)
        env_t = dict(ctx.scope.env)
        extra_t = list(ctx.pc[len(base_pc) + 1:])      # what survived jumps inside the branch
        # false branch
        ctx.scope.env = dict(base_env)
        ncond = mk_not(cond)
        ctx.pc = base_pc + [Conj(ncond, "branch", st.lineno)]
        self._refine_env(ncond)
        out_f = self.block(st.orelse) if st.orelse else {"fall"}
        env_f = dict(ctx.scope.env)
        extra_f = list(ctx.pc[len(base_pc) + 1:])
        # merge
        t_falls, f_falls = "fall" in out_t, "fall" in out_f
        ctx.scope.env = self._merge_env(cond, base_env, env_t if t_falls else None, env_f if f_falls else None)
        lz = lazy_init_name(st)
        if lz is not None and t_falls and base_env.get(lz) in self.lazy_lv:
            val = env_t.get(lz)
            doms = {l[1] for l in ctx.loops}
            if val is not None and not any(x[0] == "lv" or (x[0] == "e" and x[1] in doms) for x in subterms(val)):
                ctx.scope.env[lz] = val     # computed on first use from things that do not change in the loop: the same value every time
        ctx.pc = base_pc
        if not t_falls and f_falls:
            ctx.pc = base_pc + [Conj(ncond, self._leave_prov(out_t), st.lineno)] + extra_f
            self._refine_env(ncond)
        elif t_falls and not f_falls:
            ctx.pc = base_pc + [Conj(cond, self._leave_prov(out_f), st.lineno)] + extra_t
            self._refine_env(cond)
        elif t_falls and f_falls and (extra_t or extra_f):
            # both fall, but a nested jump removed part of a branch: (cond and survived_t) or (not cond and survived_f)
            provs = {c.prov for c in extra_t + extra_f}
            prov = provs.pop() if len(provs) == 1 else next(p_ for p_ in ("ret-surv", "break-surv", "cont-surv", "raise-surv", "branch") if p_ in provs or p_ == "branch")
            tt = mk_and([cond] + [c.term for c in extra_t])
            ff = mk_and([ncond] + [c.term for c in extra_f])
            ctx.pc = base_pc + [Conj(mk_or([tt, ff]), prov, st.lineno)]
        return out_t | out_f

    def _refine_env(self, fact: Term) -> None:
        """a membership fact turns the `.get` lookups already bound to local names into subscripts"""
        if not any(c[0] == "cmp" and c[1] == "in" for c in conjuncts(fact)):
            return
        env = self.cur.scope.env
        for n, v in list(env.items()):
            if isinstance(v, tuple):
                v2 = refine_lookups(v, fact)
                if v2 is not v and v2 != v:
                    env[n] = v2

    def _havoc(self, names: Set[str]) -> None:
        env = self.cur.scope.env
        for n in names:
            if n in env:
                ty = self.norm.type_of(env[n], self.cur.scope) or self.cur.scope.var_type(n)
                old = env[n]
                env[n] = self.norm.fresh_lv(n)
                self.norm.lv_init[env[n]] = old      # the value the name had when the loop (or handler) was entered / left
                if ty is not None:
                    self.norm.var_types[env[n]] = ty   # a loop-carried variable keeps the type of its initial value

    def _accumulators(self, body: List[ast.stmt]) -> Dict[str, ast.AugAssign]:
        """names only ever updated by one top-level unconditional `n += expr` in the loop body."""
        out: Dict[str, ast.AugAssign] = {}
        counts: Dict[str, int] = {}
        for s in body:
            for n in ast.walk(s):
                if isinstance(n, ast.AugAssign) and isinstance(n.target, ast.Name):
                    counts[n.target.id] = counts.get(n.target.id, 0) + 1
                elif isinstance(n, (ast.Assign, ast.AnnAssign)):
                    for nm in assigned_names([n]):  # type: ignore
                        counts[nm] = counts.get(nm, 0) + 2
        seen_jump = False
        for s in body:
            if isinstance(s, ast.AugAssign) and isinstance(s.target, ast.Name) and isinstance(s.op, ast.Add) \
                    and counts.get(s.target.id) == 1 and not seen_jump:
                out[s.target.id] = s
            if contains_jump([s], (ast.Continue, ast.Break, ast.Return)):
                seen_jump = True
        return out

    def s_For(self, st: ast.For) -> Set[str]:
        ctx = self.cur
        it = self.N(st.iter)
        empty = lambda t: t in (("tuple", ()), ("list", ()))      # noqa
        if it[0] == "ife" and len(it) == 4 and empty(it[2]) != empty(it[3]) and not st.orelse:
            # for x in (() if c else xs): B   is   if not c: for x in xs: B
            cond = mk_not(it[1]) if empty(it[2]) else it[1]
            base = list(ctx.pc)
            base_env = dict(ctx.scope.env)
            ctx.pc = base + [Conj(cond, "branch", st.lineno)]
            out = self._s_For(st, it[3] if empty(it[2]) else it[2])
            env_t = dict(ctx.scope.env)
            ctx.scope.env = self._merge_env(cond, base_env, env_t, dict(base_env))
            ctx.pc = base
            return out
        return self._s_For(st, it)

    def _s_For(self, st: ast.For, it: Term) -> Set[str]:
        ctx = self.cur
        if it[0] == "comp" and it[1] == "list" and it[3] and not st.orelse:
            return self._for_over_comp(st, it)
        if it[0] in ("tuple", "list") and 0 < len(it[1]) <= 16 and not contains_jump(st.body, (ast.Break, ast.Continue)):
            # a loop over a literal (e.g. a small registry of (tag, class) pairs): the iterations one after the other
            out_u: Set[str] = {"fall"}
            for elem in it[1]:
                if "fall" not in out_u:
                    break
                out_u.discard("fall")
                self.assign_target(st.target, elem, st.lineno)
                out_u |= self.block(st.body)
            if "fall" in out_u and st.orelse:
                out_u.discard("fall")
                out_u |= self.block(st.orelse)
            return out_u
        dom, _roles = self.norm.iter_domain(it)
        self.iters[id(st)] = dom
        names = assigned_names(st.body) | assigned_names([ast.Assign(targets=[st.target], value=ast.Constant(0), lineno=st.lineno)])
        accs = self._accumulators(st.body)
        pre = dict(ctx.scope.env)
        self._havoc(names - set(accs))
        for n in lazy_init_names(st.body):
            if pre.get(n) == C(None) and n not in accs and ctx.scope.env.get(n, ("?",))[0] == "lv":
                self.lazy_lv.add(ctx.scope.env[n])      # None until first needed, then one value for the rest of the loop
        for n in accs:
            ctx.scope.env[n] = ("lv", n, 0)
        self.norm.bind_target(st.target, it, ctx.scope)
        base_pc = list(ctx.pc)
        ctx.loops.append(("for", dom, contains_jump(st.body, (ast.Break, ast.Return)), len(ctx.pc)))
        acc_terms: Dict[str, Term] = {}
        # evaluate accumulator increments in loop scope (before walking: walking re-evaluates them too)
        out_b = self.block_with_acc(st.body, accs, acc_terms)
        ctx.loops.pop()
        ctx.pc = base_pc
        self._finish_builders()
        self._havoc(names - set(accs))
        for n, aug in accs.items():
            init = pre.get(n, ("v", n))
            inc = acc_terms.get(n)
            if inc is None:
                ctx.scope.env[n] = self.norm.fresh_lv(n)
            else:
                ctx.scope.env[n] = lin_add(init, ("sum", inc, ((dom, ()),)))
        out: Set[str] = {"fall"}
        if st.orelse:
            out = self.block(st.orelse)
            if "break" in out_b:
                out |= {"fall"}
                # the else-branch runs only when the loop was not left by `break`: names it assigns are unknown afterwards
                self._havoc(assigned_names(st.orelse) | (names - set(accs)))
        out |= (out_b - {"break", "continue", "fall"})
        return out

    def _for_over_comp(self, st: ast.For, it: Term) -> Set[str]:
        """`for x in (e for a in A for b in B if c): body`  ==  `for a in A: for b in B: if c: x = e; body`"""
        ctx = self.cur
        names = assigned_names(st.body) | assigned_names([ast.Assign(targets=[st.target], value=ast.Constant(0), lineno=st.lineno)])
        accs = self._accumulators(st.body)
        pre = dict(ctx.scope.env)
        self._havoc(names - set(accs))
        for n_ in accs:
            ctx.scope.env[n_] = ("lv", n_, 0)
        base_pc = list(ctx.pc)
        early = contains_jump(st.body, (ast.Break, ast.Return))
        n = 0
        for dom, conds in it[3]:
            ctx.loops.append(("for", dom, early, len(ctx.pc)))
            n += 1
            for c in conds:
                ctx.pc.append(Conj(c, "filter", st.lineno))
        self.assign_target(st.target, it[2], st.lineno)
        acc_terms: Dict[str, Term] = {}
        out_b = self.block_with_acc(st.body, accs, acc_terms)
        del ctx.loops[len(ctx.loops) - n:]
        ctx.pc = base_pc
        self._havoc(names - set(accs))
        for n_, _aug in accs.items():
            init = pre.get(n_, ("v", n_))
            inc = acc_terms.get(n_)
            if inc is None:
                ctx.scope.env[n_] = self.norm.fresh_lv(n_)
            else:
                ctx.scope.env[n_] = lin_add(init, ("sum", inc, tuple(it[3])))
        self._finish_builders()
        return {"fall"} | (out_b - {"break", "continue", "fall"})

    def _finish_builders(self) -> None:
        """`xs = []; for ..: [if c:] xs.append(e)`  ==  `[e for .. if c]` (likewise sets and dicts); two complementary
        append sites are one conditional element."""
        ctx = self.cur
        depth = len(ctx.loops)
        for X in list(self.builders):
            if len(X[3]) != depth or X in self.dirty:
                if len(X[3]) >= depth:
                    continue
            recs = self.builders[X]
            if len(X[3]) != depth:
                continue
            del self.builders[X]
            term: Optional[Term] = None
            if not (X in self.dirty or not recs or any(len(r[1]) <= depth for r in recs)) \
                    and not any(tuple(l[1] for l in r[1][:depth]) != X[3] for r in recs):
                term = self._comp_from(X, recs, depth)
            seed = self.seeds.pop(X, None)
            if term is not None and seed is not None:
                term = ("cat", tuple((list(seed[1]) if seed[0] == "cat" else [seed]) + [term]))
            elif term is None and seed is not None:
                term = seed          # not the builder idiom after all: the name keeps denoting its initial value (mutations are events)
            if term is None:
                continue
            env = ctx.scope.env
            for n, v in list(env.items()):
                if v == X:
                    env[n] = term

    def _comp_from(self, X: Term, recs: List[Tuple[Term, Tuple[Any, ...], Tuple[Conj, ...]]], depth: int) -> Optional[Term]:
        def split(rec):  # type: ignore
            elt, loops, pc = rec
            rel = loops[depth:]
            if any(l[0] != "for" or l[2] for l in rel):
                return None
            gens = []
            for i, l in enumerate(rel):
                lo = l[3]
                hi = rel[i + 1][3] if i + 1 < len(rel) else len(pc)
                conds = []
                for c in pc[lo:hi]:
                    if c.prov in ("branch", "cont-surv", "filter"):
                        conds.append(c.term)
                    elif c.prov == "raise-surv":
                        continue
                    else:
                        return None
                gens.append((l[1], conds))
            # nothing conditional between the container's creation and the first loop
            if any(c.prov not in ("raise-surv",) for c in pc[len([0]) - 1 + 0:0]):
                return None
            return elt, gens
        parts = [split(r) for r in recs]
        if any(p is None for p in parts):
            return None
        kind = X[1]
        if len(parts) == 1:
            elt, gens = parts[0]
        elif len(parts) == 2:
            (e1, g1), (e2, g2) = parts
            if [g[0] for g in g1] != [g[0] for g in g2] or g1[:-1] != g2[:-1]:
                return None
            c1, c2 = list(g1[-1][1]), list(g2[-1][1])
            common = [c for c in c1 if c in c2]
            d1 = [c for c in c1 if c not in common]
            d2 = [c for c in c2 if c not in common]
            if len(d1) != 1 or len(d2) != 1 or mk_not(d1[0]) != d2[0]:
                return None
            elt = self.norm.mk_ife(d1[0], e1, e2)
            gens = g1[:-1] + [(g1[-1][0], common)]
        else:
            return None
        from .terms import fuse_comp, key as _key
        return fuse_comp(("comp", kind, elt, tuple((d, tuple(sorted(cs, key=_key))) for d, cs in gens)))

    def block_with_acc(self, body: List[ast.stmt], accs: Dict[str, ast.AugAssign], acc_terms: Dict[str, Term]) -> Set[str]:
        out: Set[str] = {"fall"}
        for s in body:
            if "fall" not in out:
                break
            out.discard("fall")
            if isinstance(s, ast.AugAssign) and isinstance(s.target, ast.Name) and accs.get(s.target.id) is s:
                acc_terms[s.target.id] = self.N(s.value)
                out |= {"fall"}
            else:
                out |= self.stmt(s)
        return out

    def s_While(self, st: ast.While) -> Set[str]:
        ctx = self.cur
        names = assigned_names(st.body)
        self._havoc(names)
        if not self.cur.freeze:
            self.cur.stmt_id = id(st)
        self.cur.inner_stmt_id = id(st)
        cond = self.N(st.test)
        self.tests[id(st)] = cond
        self.tests2[(ctx.inl_path, id(st))] = cond
        base_pc = list(ctx.pc)
        ctx.loops.append(("while", cond, contains_jump(st.body, (ast.Break, ast.Return)), len(ctx.pc)))
        if cond != C(True):
            ctx.pc = base_pc + [Conj(cond, "loopcond", st.lineno)]
        out_b = self.block(st.body)
        ctx.loops.pop()
        ctx.pc = base_pc
        self._havoc(names)
        out: Set[str] = set()
        if cond != C(True) or "break" in out_b:
            out.add("fall")
        if st.orelse:
            out |= self.block(st.orelse)
        out |= (out_b - {"break", "continue", "fall"})
        return out

    def _handler_types(self, h: ast.ExceptHandler) -> Optional[List[str]]:
        if h.type is None:
            return None
        nodes = h.type.elts if isinstance(h.type, ast.Tuple) else [h.type]
        out = []
        for n in nodes:
            r = self.repo.resolve_name_node(self.cur.fi.module, n, self.cur.fi)
            if r and r[0] == "cls":
                out.append(r[1])
            else:
                from .repo import dotted
                out.append(dotted(n) or "?")
        return out

    @staticmethod
    def _reraises(h: ast.ExceptHandler) -> bool:
        for s in h.body:
            for n in ast.walk(s):
                if isinstance(n, ast.Raise):
                    return True
        return False

    def s_Try(self, st: ast.Try) -> Set[str]:
        ctx = self.cur
        handlers = [(self._handler_types(h), self._reraises(h)) for h in st.handlers]
        ti = TryInfo(st, ctx.fi, handlers)
        names = assigned_names(st.body)
        base_pc = list(ctx.pc)
        ctx.tries.append(ti)
        out_b = self.block(st.body)
        ctx.tries.pop()
        if st.orelse:
            out_b.discard("fall")
            ctx.else_of.append(ti)
            out_b |= self.block(st.orelse)
            ctx.else_of.pop()
        env_after_body = dict(ctx.scope.env)
        out = set(out_b)
        catches_all = any(t is None or any(x in ("Exception", "BaseException") for x in t) for t, _ in handlers)
        if catches_all and not any(rr for _, rr in handlers):
            out.discard("raise")
        any_handler_falls = False
        for h in st.handlers:
            ctx.scope.env = dict(env_after_body)
            self._havoc(names)
            if h.name:
                ctx.scope.env[h.name] = ("v", "exc:" + h.name)
            types = self._handler_types(h)
            ctx.pc = base_pc + [Conj(("call", ("g", "builtin:caught"), tuple(C(t) for t in (types or ["*"])), ()), "handler", h.lineno)]
            oh = self.block(h.body)
            if "fall" in oh:
                any_handler_falls = True
            out |= oh
        ctx.pc = base_pc
        ctx.scope.env = dict(env_after_body)
        ti.handler_falls = any_handler_falls
        if any_handler_falls:
            self._havoc(names)
        if not st.handlers:
            pass
        if st.finalbody:
            ctx.finally_of.append(ti)
            of = self.block(st.finalbody)
            ctx.finally_of.pop()
            if "fall" not in of:
                out = of
            else:
                out |= (of - {"fall"})
        return out

    def s_With(self, st: ast.With) -> Set[str]:
        ctx = self.cur
        n = 0
        for it in st.items:
            t = self.N(it.context_expr)
            ctx.withs.append(t)
            n += 1
            if it.optional_vars is not None:
                self.assign_target(it.optional_vars, t, st.lineno)
        out = self.block(st.body)
        del ctx.withs[len(ctx.withs) - n:]
        return out


def _as_load(node: ast.AST) -> ast.AST:
    import copy
    n = copy.copy(node)
    if hasattr(n, "ctx"):
        n.ctx = ast.Load()  # type: ignore
    return n


# --------------------------------------------------------------------------- queries on events
def try_inside_loops(ev: Event) -> bool:
    """the innermost try statement around the event lies inside the innermost loop around it (per-iteration handling: a failing
    iteration does not end the loop). False when the try encloses the loop."""
    if not ev.tries or not ev.loops:
        return False
    t = ev.tries[-1].node
    best = None
    for n in ast.walk(ev.tries[-1].fi.node):
        if isinstance(n, (ast.For, ast.While)) and n.lineno <= ev.line <= (n.end_lineno or n.lineno):
            if best is None or n.lineno >= best.lineno:
                best = n
    return best is not None and best.lineno < t.lineno and (t.end_lineno or t.lineno) <= (best.end_lineno or best.lineno)


def after_completion(ev: Event, ret: Event) -> bool:
    """`ret` is only reached when the call `ev` inside a try body completed normally: later in the same try body under the same
    conditions, or in the else-block of that try statement, or behind the try statement when every handler leaves.
    (Conditions that merely record that an earlier raise / assert did not fire are not branch conditions.)"""
    if not ev.tries or ev.seq >= ret.seq:
        return False
    epc = [c.term for c in ev.pc if c.prov != "raise-surv"]
    rpc = [c.term for c in ret.pc if c.prov != "raise-surv"]
    if epc != rpc[:len(epc)]:
        return False
    same = len(epc) == len(rpc)
    if ev.tries == ret.tries and same:
        return True
    if ev.tries[:-1] == ret.tries and ev.tries[-1] in ret.else_of and same:
        return True
    return ev.tries[:-1] == ret.tries and not ev.tries[-1].handler_falls and not ev.tries[-1].node.finalbody and same \
        and ret.line > (ev.tries[-1].node.end_lineno or 0)


def exc_class(ev: Event) -> str:
    if ev.kind == "assert":
        return "AssertionError"
    t = ev.term
    if t[0] == "call":
        t = t[1]
    if t[0] == "g":
        ref = t[1]
        return ref[8:] if ref.startswith("builtin:") else (ref[4:] if ref.startswith("ext:") else ref)
    return "Exception"


def exc_ancestors(repo: Repo, cls: str) -> List[str]:
    out = [cls]
    if cls in repo.classes:
        for c in repo.mro(cls):
            if c not in out:
                out.append(c)
            for b in repo.classes[c].bases:
                if b.startswith("ext:"):
                    nm = b[4:]
                    while nm is not None and nm not in out:
                        out.append(nm)
                        nm = BUILTIN_EXC_BASES.get(nm)
        return out
    nm: Optional[str] = cls
    while nm is not None:
        if nm not in out:
            out.append(nm)
        nm = BUILTIN_EXC_BASES.get(nm, "Exception" if nm not in ("Exception", "BaseException") else
                                   ("BaseException" if nm == "Exception" else None))
    return out


def swallowed_by(repo: Repo, ev: Event, cls: Optional[str] = None) -> Optional[TryInfo]:
    """innermost enclosing try (own function or any frame of the inlining chain) that catches ev and does not re-raise."""
    anc = exc_ancestors(repo, cls or exc_class(ev))
    for ti in reversed(ev.tries):
        for types, reraises in ti.handlers:
            caught = types is None or any(t in anc or t.split(".")[-1] in anc for t in types)
            if caught:
                if reraises:
                    break
                return ti
    return None
