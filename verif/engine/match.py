"""Obligation matching over event summaries: guards (reject conditions), unconditional calls, return formulas."""
from __future__ import annotations

import ast
from typing import Any, Dict, List, Optional, Sequence, Tuple

from .repo import AnalysisError, FuncInfo, Repo
from .report import Check
from .terms import C, Norm, Scope, Term, conjuncts, implies, key, mk_and, same_operands, show, substitute, subterms
from .walker import Conj, Event, Summary, Walker, swallowed_by


class Spec:
    """Parses specification-side expressions with the same normaliser as the code side."""

    def __init__(self, summ: Summary, names: Sequence[str] = (), extra: Optional[Dict[str, Term]] = None,
                 forall: Sequence[Tuple[str, str]] = ()):
        self.summ = summ
        self.norm: Norm = summ.norm
        fi = summ.fi
        self.scope = Scope(fi.module, fi)
        params = fi.params + fi.kwonly
        if names and len(names) > len(params):
            raise AnalysisError("%s has %d parameters, the rule expects %d" % (fi.qualname, len(params), len(names)))
        for sn, actual in zip(names, params):
            self.scope.env[sn] = ("v", actual)
        for p in params[len(names):]:
            self.scope.env.setdefault(p, ("v", p))
        for k_, v in (extra or {}).items():
            self.scope.env[k_] = v
        self.n_named = len(names) if names else None
        self.loops: List[Term] = []
        for target, dom in forall:
            it = self.term(dom)
            d, _roles = self.norm.iter_domain(it)
            self.loops.append(d)
            self.norm.bind_target(ast.parse(target, mode="eval").body, it, self.scope)

    def term(self, text: str) -> Term:
        saved = self.norm.on_call
        self.norm.on_call = None
        try:
            return self.norm.norm(ast.parse(text.strip(), mode="eval").body, self.scope)
        except SyntaxError as e:
            raise AnalysisError("bad spec expression %r: %s" % (text, e))
        finally:
            self.norm.on_call = saved

    def terms(self, texts: Sequence[str]) -> List[Term]:
        return [self.term(t) for t in texts]


def loop_doms(ev: Event) -> List[Term]:
    return [l[1] for l in ev.loops]


def residual(ev: Event, context: Sequence[Term]) -> List[Conj]:
    """path-condition conjuncts that are neither raise-survivors, loop conditions nor implied by the declared context."""
    out = []
    for i, c in enumerate(ev.pc):
        if c.prov in ("raise-surv", "loopcond"):
            continue        # (a while loop's own condition is loop context, like a for loop's domain)
        if any(implies(x, c.term) for x in context):
            continue
        if c.term[0] == "cmpz" and c.term[1] == "!=" and c.term[2][0] == "call" and c.term[2][1] == ("g", "builtin:len") \
                and any(c.term[2][2] == (l[1],) and i < l[3] for l in ev.loops if l[0] == "for"):
            continue        # `if xs:` around `for x in xs:` - the body runs for the elements of xs either way
        out.append(c)
    return out


class GuardResult:
    def __init__(self, ok: bool, event: Optional[Event], why: str, near: Optional[List[Event]] = None):
        self.ok = ok
        self.event = event
        self.why = why
        self.near = near or []


def find_guard(repo: Repo, summ: Summary, reject: Term, loops: Sequence[Term] = (), context: Sequence[Term] = ()) -> GuardResult:
    """Is there a raise, propagating to the analysed function's exit, whose condition is implied by `reject`
    (given `context`), executed for exactly the iteration domains `loops`?"""
    near: List[Tuple[Event, str]] = []
    want = set()
    for a in conjuncts(reject):
        for d in (a[1] if a[0] == "or" else [a]):
            want.add(d)
    for ev in summ.raises():
        rest = residual(ev, context)
        code = mk_and([c.term for c in rest])
        related = any(same_operands(w, x) or w == x or (x[0] == "not" and x[1] == w) or (w[0] == "not" and w[1] == x)
                      for w in want for c in rest for y in conjuncts(c.term) for x in (y[1] if y[0] == "or" else [y]))
        if not implies(reject, code):
            if related:
                bad = [c for c in rest if not implies(reject, c.term)]
                near.append((ev, "condition not implied: " + "; ".join(repr(c) for c in bad)))
            continue
        if list(loop_doms(ev)) != list(loops):
            near.append((ev, "iteration domain differs: [%s] instead of [%s]" % (
                "; ".join(show(d) for d in loop_doms(ev)), "; ".join(show(d) for d in loops))))
            continue
        if any(l[2] for l in ev.loops):
            near.append((ev, "enclosing loop can exit early (break/return), later elements are not checked"))
            continue
        sw = swallowed_by(repo, ev)
        if sw is not None:
            near.append((ev, "exception is caught and dropped by try at %s:%d" % (sw.fi.module.path, sw.node.lineno)))
            continue
        if not rest and reject != C(True):
            continue
        return GuardResult(True, ev, "")
    if near:
        ev, why = near[0]
        return GuardResult(False, ev, why, [e for e, _ in near])
    return GuardResult(False, None, "no raise whose condition involves these operands")


def require_guard(ck: Check, rule: str, summ: Summary, spec: Spec, reject: str, what: str,
                  context: Sequence[str] = (), loops: Optional[Sequence[Term]] = None, exact: bool = False) -> Optional[Event]:
    """Obligation: `reject` => rejection. Records HOLDS / VIOLATED / UNKNOWN on ck. With `exact`, also rejection (at that raise) =>
    `reject`: for bounds the property states exactly ("at most 30 s ahead" is accepted at 30 s), a guard that refuses more is as wrong
    as one that refuses less."""
    fi = summ.fi
    rj = spec.term(reject)
    ctx = [spec.term(c) for c in context]
    lp = spec.loops if loops is None else loops
    res = find_guard(ck.repo, summ, rj, lp, ctx)
    construct = "%s: reject if %s%s" % (fi.qualname.replace("skepticoin.", ""), show(rj),
                                         (" ∀ " + "; ".join(show(d) for d in lp)) if lp else "")
    if res.ok and exact:
        rest = residual(res.event, ctx)     # type: ignore[arg-type]
        code = mk_and([c.term for c in rest])
        if not implies(code, rj):
            ck.violated(rule, construct + " — and only then", "%s — the raise at this guard also fires when %s holds without %s: inputs on the boundary "
                        "that the property accepts are refused" % (what, show(code)[:120], show(rj)[:120]), res.event.loc)  # type: ignore
            return None
    if res.ok:
        ck.ok(rule, construct, what, res.event.loc)  # type: ignore
        return res.event
    if summ.unknown:
        ck.unknown(rule, construct, "%s: not found, and the function contains constructs outside the analysed fragment: %s" % (
            what, "; ".join(summ.unknown[:3])), fi.loc)
        return None
    where = res.event.loc if res.event is not None else fi.loc
    ck.violated(rule, construct, "%s — required guard missing or bypassable: %s" % (what, res.why), where)
    return None


def call_args_match(ev: Event, args: Optional[Sequence[Optional[Term]]], recv: Optional[Term] = None) -> bool:
    f, a, kw = ev.parts
    if recv is not None:
        if f[0] != "a" or f[1] != recv:
            return False
    if args is None:
        return True
    t = ev.term
    actual = list(t[2]) if t[0] == "call" else list(a)
    if len(actual) < len([x for x in args]):
        # keyword arguments that could not be made positional
        kwd = dict(t[3]) if t[0] == "call" else dict(kw)
        if kwd:
            return False
    for i, want in enumerate(args):
        if want is None:
            continue
        if i >= len(actual) or actual[i] != want:
            return False
    return True


def find_calls(summ: Summary, target: str, args: Optional[Sequence[Optional[Term]]] = None, loops: Sequence[Term] = (),
               context: Sequence[Term] = (), recv: Optional[Term] = None, own_only: bool = False) -> Tuple[List[Event], List[Tuple[Event, str]]]:
    """(unconditional matching calls, near misses with reason)"""
    good: List[Event] = []
    near: List[Tuple[Event, str]] = []
    for ev in summ.events:
        if ev.kind != "call" or target not in ev.targets:
            continue
        if own_only and ev.chain:
            continue
        if not call_args_match(ev, args, recv):
            near.append((ev, "arguments differ: %s" % show(ev.term)))
            continue
        rest = residual(ev, context)
        if rest:
            near.append((ev, "call is conditional on %s" % "; ".join(repr(c) for c in rest)))
            continue
        if list(loop_doms(ev)) != list(loops):
            near.append((ev, "iteration domain differs: [%s] instead of [%s]" % (
                "; ".join(show(d) for d in loop_doms(ev)), "; ".join(show(d) for d in loops))))
            continue
        if any(l[2] for l in ev.loops):
            near.append((ev, "enclosing loop can exit early"))
            continue
        good.append(ev)
    return good, near


def require_call(ck: Check, rule: str, summ: Summary, spec: Spec, target: str, args: Optional[Sequence[Optional[str]]], what: str,
                 context: Sequence[str] = (), loops: Optional[Sequence[Term]] = None, recv: Optional[str] = None,
                 must_escape: bool = True) -> Optional[Event]:
    fi = summ.fi
    a = None if args is None else [None if x is None else spec.term(x) for x in args]
    ctx = [spec.term(c) for c in context]
    lp = spec.loops if loops is None else loops
    rv = spec.term(recv) if recv else None
    good, near = find_calls(summ, target, a, lp, ctx, rv)
    short = target.replace("skepticoin.", "")
    construct = "%s: calls %s(%s)%s" % (fi.qualname.replace("skepticoin.", ""), short,
                                        ", ".join("*" if x is None else show(x) for x in (a or [])),
                                        (" ∀ " + "; ".join(show(d) for d in lp)) if lp else "")
    if good and must_escape:
        ev = good[0]
        # an enclosing try that swallows the callee's exceptions turns the check into a no-op
        sw = swallowed_by(ck.repo, ev, "Exception")
        if sw is not None:
            ck.violated(rule, construct, "%s — exceptions of this call are caught and dropped by the try at %s:%d" % (
                what, sw.fi.module.path, sw.node.lineno), ev.loc)
            return None
    if good:
        ck.ok(rule, construct, what, good[0].loc)
        return good[0]
    if summ.unknown:
        ck.unknown(rule, construct, "%s: not found; unanalysed constructs: %s" % (what, "; ".join(summ.unknown[:3])), fi.loc)
        return None
    if near:
        ck.violated(rule, construct, "%s — %s" % (what, near[0][1]), near[0][0].loc)
    else:
        ck.violated(rule, construct, "%s — no such call on the analysed path" % what, fi.loc)
    return None


def single_return(summ: Summary) -> Term:
    rets = summ.returns()
    if len(rets) != 1:
        raise AnalysisError("%s: expected a single return, found %d" % (summ.fi.qualname, len(rets)))
    if residual(rets[0], ()):
        raise AnalysisError("%s: return is conditional" % summ.fi.qualname)
    return rets[0].term


def as_lambda(walker: Any, t: Term, depth: int = 0) -> Optional[Term]:
    """a term that denotes a callable, as ('lam', n, body): lambdas, references to simple repository functions (one value, parameters
    and enclosing-scope names only), functools.partial applications of those. None when it is not understood."""
    from .terms import substitute
    if depth > 4:
        return None
    if t[0] == "lam":
        return t
    if t[0] == "g" and t[1] in walker.repo.functions:
        fi = walker.repo.functions[t[1]]
        if fi.is_classmethod or (fi.cls is not None and not fi.is_staticmethod):
            return None
        try:
            summ = walker.summary(t[1], 0)
        except Exception:
            return None
        if summ.unknown or summ.falls or any(e.kind in ("store", "del", "raise", "assert") for e in summ.events):
            return None
        v = function_value(summ)
        if v is None:
            return None
        a = fi.node.args   # type: ignore
        if a.vararg or a.kwarg or a.kwonlyargs:
            return None
        params = [p_.arg for p_ in a.posonlyargs + a.args]
        return ("lam", len(params), substitute(v, {("v", p_): ("v", "λ%d" % i) for i, p_ in enumerate(params)}))
    if t[0] == "call" and t[1] in (("g", "ext:functools.partial"), ("g", "ext:partial")) and t[2] and not t[3]:
        inner = as_lambda(walker, t[2][0], depth + 1)
        bound = t[2][1:]
        if inner is None or len(bound) > inner[1]:
            return None
        m: Dict[Term, Term] = {}
        for i in range(inner[1]):
            m[("v", "λ%d" % i)] = bound[i] if i < len(bound) else ("v", "λ%d" % (i - len(bound)))
        return ("lam", inner[1] - len(bound), substitute(inner[2], m))
    return None


def canon_callables(walker: Any, t: Any) -> Any:
    """rewrite every callable passed as an argument (function reference, partial application) into its lambda form"""
    if not isinstance(t, tuple) or not t:
        return t
    if t[0] == "call" and len(t) == 4:
        f = canon_callables(walker, t[1])
        args = []
        for a in t[2]:
            a2 = canon_callables(walker, a)
            if isinstance(a2, tuple) and a2 and (a2[0] == "g" and a2[1] in walker.repo.functions or
                                                 (a2[0] == "call" and a2[1] in (("g", "ext:functools.partial"), ("g", "ext:partial")))):
                lam = as_lambda(walker, a2)
                if lam is not None:
                    a2 = lam
            args.append(a2)
        kw = tuple((k_, canon_callables(walker, v)) if isinstance(k_, str) else (k_, v) for k_, v in t[3]) if isinstance(t[3], tuple) else t[3]
        return ("call", f, tuple(args), kw)
    return tuple(canon_callables(walker, x) for x in t)


def require_return(ck: Check, rule: str, summ: Summary, spec: Spec, expected: str, what: str) -> bool:
    """Formula obligation: the function's (single, unconditional) return value normalises to `expected`."""
    fi = summ.fi
    want = spec.term(expected)
    construct = "%s returns %s" % (fi.qualname.replace("skepticoin.", ""), show(want))
    rets = summ.returns()
    uncond = [r for r in rets if not residual(r, ())]
    from .terms import untag as _untag
    if (len(rets) == 1 and uncond and _untag(rets[0].term) == want) or (rets and same_function(summ, want)):
        ck.ok(rule, construct, what, rets[0].loc)
        return True
    # callables handed on as arguments (a nested function, a module-level function bound with functools.partial, a lambda) compare
    # by what they compute
    fv = function_value(summ)
    if rets and fv is not None and same_value(canon_callables(ck.walker, fv), canon_callables(ck.walker, want)):
        ck.ok(rule, construct, what, rets[0].loc)
        return True
    # an optional parameter added later that no call site passes: the function is what it is with the default
    if rets and fv is not None and len(fi.params) > len(spec_params(spec, fi)):
        try:
            from ..rules.c15 import _decide_none_tests, param_bindings
            fv2 = fv
            for pn in fi.params[len(spec_params(spec, fi)):]:
                if pn not in fi.defaults():
                    fv2 = None
                    break
                vals = param_bindings(ck, fi.qualname, pn)
                if len(vals) != 1:
                    fv2 = None
                    break
                fv2 = _decide_none_tests(substitute(fv2, {("v", pn): vals[0]}))
            if fv2 is not None:
                fv2 = summ.norm.mk_ife(C(True), fv2, fv2) if fv2[0] != "ife" else _refold(summ, fv2)
                if same_value(canon_callables(ck.walker, fv2), canon_callables(ck.walker, want)) or untag_eq(fv2, want):
                    ck.ok(rule, construct, what + " (later optional parameters at their defaults: no call site passes them)", rets[0].loc)
                    return True
        except AnalysisError:
            pass
    if summ.unknown:
        ck.unknown(rule, construct, "unanalysed constructs: %s" % "; ".join(summ.unknown[:3]), fi.loc)
        return False
    got = "; ".join(show(r.term) + (" if " + show(r.cond) if r.pc else "") for r in rets) or "nothing"
    ck.violated(rule, construct, "%s — the function returns %s" % (what, got), rets[0].loc if rets else fi.loc)
    return False


def spec_params(spec: Spec, fi: Any) -> List[str]:
    """the parameters the rule was written against (those the specification names)"""
    n = getattr(spec, "n_named", None)
    return list(fi.params[:n]) if n is not None else list(fi.params)


def untag_eq(a: Term, b: Term) -> bool:
    from .terms import untag
    return untag(a) == untag(b)


def _refold(summ: Summary, t: Term) -> Term:
    """re-evaluate conditionals whose tests became constants after a substitution"""
    if not isinstance(t, tuple) or not t:
        return t
    t = tuple(_refold(summ, x) if isinstance(x, tuple) else x for x in t)
    if t[0] == "ife" and len(t) == 4:
        return summ.norm.mk_ife(t[1], t[2], t[3])
    if t[0] == "cmp" and len(t) == 4 and t[2][0] == "c" and t[3][0] == "c" and t[1] in ("is", "isnot", "==", "!="):
        same = (t[2][1] is t[3][1]) if t[1] in ("is", "isnot") else (t[2][1] == t[3][1])
        return C(same if t[1] in ("is", "==") else not same)
    return t


def require_returns_table(ck: Check, rule: str, summ: Summary, spec: Spec, table: Sequence[Tuple[str, str]], what: str) -> bool:
    """Decision table: list of (condition, value) rows; conditions written cumulatively (first match wins)."""
    fi = summ.fi
    rets = summ.returns()
    rows = [(spec.term(c), spec.term(v)) for c, v in table]
    construct = "%s returns {%s}" % (fi.qualname.replace("skepticoin.", ""), "; ".join("%s -> %s" % (show(c), show(v)) for c, v in rows))
    got = [(mk_and([c.term for c in residual(r, ())]), r.term) for r in rets]
    if sorted(got, key=key) == sorted(rows, key=key):
        ck.ok(rule, construct, what, fi.loc)
        return True
    # the same function written with other control flow (conditional expression, early returns in another order)
    spec_val: Optional[Term] = None
    for c_, v_ in reversed(rows):
        spec_val = v_ if spec_val is None else summ.norm.mk_ife(c_, v_, spec_val)
    if spec_val is not None and rets and same_function(summ, spec_val):
        ck.ok(rule, construct, what, fi.loc)
        return True
    if summ.unknown:
        ck.unknown(rule, construct, "unanalysed constructs: %s" % "; ".join(summ.unknown[:3]), fi.loc)
        return False
    ck.violated(rule, construct, "%s — the function's return table is {%s}" % (
        what, "; ".join("%s -> %s" % (show(c), show(v)) for c, v in got)), fi.loc)
    return False


def disj_atoms(t: Term) -> List[Term]:
    """atomic comparisons of a condition (through and / or)"""
    out: List[Term] = []
    for c in conjuncts(t):
        for d in (c[1] if c[0] == "or" else [c]):
            if d[0] == "and":
                out.extend(disj_atoms(d))
            else:
                out.append(d)
    return out


# --------------------------------------------------------------------------- decision tables (if/else vs conditional expressions)
def _first_ife(t: Any) -> Optional[Term]:
    if isinstance(t, tuple):
        if t and t[0] == "ife":
            inner = _first_ife(t[1])
            return inner if inner is not None else t
        for x in t:
            r = _first_ife(x)
            if r is not None:
                return r
    return None


def _replace(t: Any, old: Term, new: Term) -> Any:
    if t == old:
        return new
    if isinstance(t, tuple):
        return tuple(_replace(x, old, new) for x in t)
    return t


def decision_table(t: Term, limit: int = 64) -> Optional[List[Tuple[frozenset, Term]]]:
    """Expand every conditional inside `t` (lifting it to the top): rows (set of conditions, value without conditionals)."""
    from .terms import mk_not
    rows: List[Tuple[frozenset, Term]] = [(frozenset(), t)]
    out: List[Tuple[frozenset, Term]] = []
    while rows:
        conds, v = rows.pop()
        f = _first_ife(v)
        if f is None:
            out.append((conds, v))
            continue
        if len(rows) + len(out) > limit:
            return None
        c = f[1]
        for cc, val in ((c, f[2]), (mk_not(c), f[3])):
            if mk_not(cc) in conds:
                continue            # contradictory row
            rows.append((conds | set(conjuncts(cc)), _replace(v, f, val)))
    # drop contradictory rows, merge rows that differ in the polarity of one condition and agree on the value
    out = [(c, v) for c, v in out if not any(mk_not(x) in c for x in c)]
    changed = True
    while changed:
        changed = False
        for i in range(len(out)):
            for j in range(i + 1, len(out)):
                (c1, v1), (c2, v2) = out[i], out[j]
                if v1 != v2:
                    continue
                d1, d2 = c1 - c2, c2 - c1
                if len(d1) == 1 and len(d2) == 1 and mk_not(next(iter(d1))) == next(iter(d2)):
                    out[i] = (c1 & c2, v1)
                    del out[j]
                    changed = True
                    break
                if c1 == c2:
                    del out[j]
                    changed = True
                    break
            if changed:
                break
    return sorted(out, key=lambda r: (sorted(key(x) for x in r[0]), key(r[1])))


def _atoms_of(t: Term, acc: Dict[Term, int]) -> None:
    from .terms import mk_not
    if t[0] in ("and", "or"):
        for x in t[1]:
            _atoms_of(x, acc)
    elif t[0] == "not":
        _atoms_of(t[1], acc)
    elif t[0] == "c" and isinstance(t[1], bool):
        pass
    else:
        n = mk_not(t)
        if t not in acc and n not in acc:
            acc[t] = len(acc)


def _eval_cond(t: Term, acc: Dict[Term, int], bits: int) -> bool:
    from .terms import mk_not
    if t[0] == "and":
        return all(_eval_cond(x, acc, bits) for x in t[1])
    if t[0] == "or":
        return any(_eval_cond(x, acc, bits) for x in t[1])
    if t[0] == "not":
        return not _eval_cond(t[1], acc, bits)
    if t[0] == "c" and isinstance(t[1], bool):
        return t[1]
    if t in acc:
        return bool(bits >> acc[t] & 1)
    return not (bits >> acc[mk_not(t)] & 1)


def tables_equivalent(a: List[Tuple[frozenset, Term]], b: List[Tuple[frozenset, Term]], max_atoms: int = 14) -> bool:
    """two decision tables denote the same function of their (uninterpreted) atomic conditions: checked on the full truth table.
    Atoms are treated as independent, so `True` is sound; a `False` may only mean the atoms are related."""
    acc: Dict[Term, int] = {}
    for tab in (a, b):
        for conds, _ in tab:
            for c in conds:
                _atoms_of(c, acc)
    if len(acc) > max_atoms:
        return False
    for bits in range(1 << len(acc)):
        va = {v for conds, v in a if all(_eval_cond(c, acc, bits) for c in conds)}
        vb = {v for conds, v in b if all(_eval_cond(c, acc, bits) for c in conds)}
        if va != vb:
            return False
    return True


def same_value(got: Term, want: Term) -> bool:
    """equal terms, or conditional terms with the same decision table (up to propositional equivalence of the conditions)"""
    from .terms import untag
    got, want = untag(got), untag(want)
    if got == want:
        return True
    a, b = decision_table(got), decision_table(want)
    if a is None or b is None:
        return False
    return a == b or tables_equivalent(a, b)


def function_value(summ: Summary) -> Optional[Term]:
    """all own returns folded into one conditional term, in program order"""
    from .terms import Norm
    rets = summ.returns()
    if not rets:
        return None
    val: Optional[Term] = None
    for r in reversed(rets):
        cond = mk_and([c.term for c in r.pc if c.prov in ("branch", "handler", "loopcond", "filter")])
        if val is None:
            val = r.term
        elif cond == C(True):
            val = r.term
        else:
            val = summ.norm.mk_ife(cond, r.term, val)
    return val


def same_function(summ: Summary, want: Term) -> bool:
    from .terms import untag
    got = function_value(summ)
    if got is None:
        return False
    got = untag(got)
    want = untag(want)
    if got == want:
        return True
    if any(r.loops for r in summ.returns()):
        return False
    a, b = decision_table(got), decision_table(want)
    return a is not None and b is not None and (a == b or tables_equivalent(a, b))
