"""E11: reads the DDL / INSERT / SELECT string constants of the block store."""
from __future__ import annotations

import ast
import re
from typing import Any, Dict, List, Optional, Tuple

from .repo import AnalysisError, Module


class Table:
    def __init__(self, name: str):
        self.name = name
        self.columns: List[str] = []
        self.pk: List[str] = []
        self.fks: List[Tuple[Tuple[str, ...], str, Tuple[str, ...]]] = []   # (cols, ref table, ref cols)
        self.uniques: List[List[str]] = []
        self.without_rowid = False      # rows are then stored (and scanned) in primary-key order, not in insertion order
        self.options: List[str] = []    # tokens after the closing parenthesis of the column list
        self.line = 0


class Insert:
    def __init__(self, table: str, conflict: Optional[str], arity: int, columns: Optional[List[str]], line: int, node: ast.Call):
        self.table = table
        self.conflict = conflict      # IGNORE / REPLACE / None
        self.arity = arity
        self.columns = columns
        self.line = line
        self.node = node


class Select:
    def __init__(self, columns: List[str], table: str, order_by: List[Tuple[str, str]], where: Optional[str], line: int, node: ast.Call):
        self.columns = columns
        self.table = table
        self.order_by = order_by
        self.where = where
        self.line = line
        self.node = node


def _tokens(s: str) -> List[str]:
    return re.findall(r"[A-Za-z_][A-Za-z_0-9]*|\?|[(),*;]|'[^']*'|[0-9]+", s)


def _split_top(tokens: List[str]) -> List[List[str]]:
    out: List[List[str]] = [[]]
    depth = 0
    for t in tokens:
        if t == "(":
            depth += 1
        elif t == ")":
            depth -= 1
        if t == "," and depth == 0:
            out.append([])
        else:
            out[-1].append(t)
    return [x for x in out if x]


class Schema:
    def __init__(self, m: Module, repo: Optional[Any] = None):
        self.module = m
        self.tables: Dict[str, Table] = {}
        self.inserts: List[Insert] = []
        self.selects: List[Select] = []
        self.others: List[Tuple[int, str]] = []
        self.unique_indexes: List[Tuple[str, List[str], int]] = []
        self.unparsed: List[Tuple[int, str]] = []
        self.text_of: Dict[int, str] = {}       # id(call node) -> statement text (a literal, or a name that folds to a string constant)
        # `for stmt in STATEMENTS: self.sql(stmt)` over a constant tuple of texts: every text is a statement at that call
        loop_texts: Dict[int, List[str]] = {}
        if repo is not None:
            for lp in ast.walk(m.tree):
                if isinstance(lp, ast.For) and isinstance(lp.target, ast.Name):
                    try:
                        vals = repo.fold(lp.iter, m, None, {})
                    except Exception:
                        continue
                    if isinstance(vals, (tuple, list)) and vals and all(isinstance(v, str) for v in vals):
                        for c in ast.walk(lp):
                            if isinstance(c, ast.Call) and isinstance(c.func, ast.Attribute) and c.func.attr in ("sql", "execute", "executescript") \
                                    and c.args and isinstance(c.args[0], ast.Name) and c.args[0].id == lp.target.id:
                                loop_texts[id(c)] = list(vals)
        for n in ast.walk(m.tree):
            if id(n) in loop_texts:
                for text in loop_texts[id(n)]:
                    self._stmt(text, n)     # type: ignore
                continue
            if isinstance(n, ast.Call) and isinstance(n.func, ast.Attribute) and n.func.attr in ("sql", "execute", "executemany", "executescript") \
                    and n.args:
                text = None
                if isinstance(n.args[0], ast.Constant) and isinstance(n.args[0].value, str):
                    text = n.args[0].value
                elif repo is not None and isinstance(n.args[0], (ast.Name, ast.Attribute)):
                    try:
                        v = repo.fold(n.args[0], m, None, {})
                    except Exception:
                        v = None
                    if isinstance(v, str):
                        text = v
                if text is not None:
                    self.text_of[id(n)] = text
                    self._stmt(text, n)

    def _stmt(self, text: str, node: ast.Call) -> None:
        toks = _tokens(text)
        low = [t.lower() for t in toks]
        if not toks:
            return
        if low[:2] == ["create", "table"]:
            self._create(toks, low, node)
        elif low[0] == "insert":
            self._insert(toks, low, node)
        elif low[0] == "select":
            self._select(toks, low, node)
        elif low[:3] == ["create", "unique", "index"] and "on" in low:
            o = low.index("on")
            cols = [x for x in toks[o + 2:] if x not in "(),"]
            self.unique_indexes.append((toks[o + 1], cols, node.lineno))
            self.others.append((node.lineno, " ".join(low[:3])))
        elif low[0] in ("pragma", "begin", "commit", "create", "rollback", "end"):
            self.others.append((node.lineno, " ".join(low[:3])))
        else:
            self.unparsed.append((node.lineno, text[:60]))

    def _create(self, toks: List[str], low: List[str], node: ast.Call) -> None:
        i = 2
        if low[i:i + 3] == ["if", "not", "exists"]:
            i += 3
        t = Table(toks[i])
        t.line = node.lineno
        try:
            lp = toks.index("(", i)
        except ValueError:
            self.unparsed.append((node.lineno, "create table without column list"))
            return
        depth = 0
        end = None
        for j in range(lp, len(toks)):
            if toks[j] == "(":
                depth += 1
            elif toks[j] == ")":
                depth -= 1
                if depth == 0:
                    end = j
                    break
        if end is None:
            self.unparsed.append((node.lineno, "unbalanced DDL"))
            return
        for part in _split_top(toks[lp + 1:end]):
            pl = [x.lower() for x in part]
            if pl[:2] == ["primary", "key"]:
                t.pk = [x for x in part[2:] if x not in "(),"]
            elif pl[:2] == ["foreign", "key"]:
                r = pl.index("references")
                cols = tuple(x for x in part[2:r] if x not in "(),")
                rt = part[r + 1]
                rcols = tuple(x for x in part[r + 2:] if x not in "(),")
                t.fks.append((cols, rt, rcols))
            elif pl[0] == "unique":
                t.uniques.append([x for x in part[1:] if x not in "(),"])
            elif pl[0] in ("check", "constraint"):
                if "unique" in pl:
                    u = pl.index("unique")
                    t.uniques.append([x for x in part[u + 1:] if x not in "(),"])
                continue
            else:
                col = part[0]
                t.columns.append(col)
                if "primary" in pl and "key" in pl:
                    t.pk = [col]
                if "unique" in pl:
                    t.uniques.append([col])
                if "references" in pl:
                    r = pl.index("references")
                    rcols = tuple(x for x in part[r + 2:] if x not in "(),")
                    t.fks.append(((col,), part[r + 1], rcols))
        t.options = [x.lower() for x in toks[end + 1:]]
        t.without_rowid = "without" in t.options and "rowid" in t.options
        self.tables[t.name] = t

    def _insert(self, toks: List[str], low: List[str], node: ast.Call) -> None:
        conflict = None
        i = 1
        if low[i] == "or":
            conflict = low[i + 1].upper()
            i += 2
        if low[i] != "into":
            self.unparsed.append((node.lineno, "insert without into"))
            return
        table = toks[i + 1]
        i += 2
        cols = None
        if toks[i] == "(":
            j = toks.index(")", i)
            cols = [x for x in toks[i + 1:j] if x != ","]
            i = j + 1
        if low[i] != "values":
            self.unparsed.append((node.lineno, "insert without values"))
            return
        arity = toks[i:].count("?")
        self.inserts.append(Insert(table, conflict, arity, cols, node.lineno, node))

    def _select(self, toks: List[str], low: List[str], node: ast.Call) -> None:
        try:
            f = low.index("from")
        except ValueError:
            self.unparsed.append((node.lineno, "select without from"))
            return
        cols = [x for x in toks[1:f] if x != ","]
        table = toks[f + 1]
        order: List[Tuple[str, str]] = []
        where = None
        rest = low[f + 2:]
        rest_t = toks[f + 2:]
        if "where" in rest:
            w = rest.index("where")
            e = rest.index("order") if "order" in rest else len(rest)
            where = " ".join(rest_t[w + 1:e])
        if "order" in rest:
            o = rest.index("order")
            for part in _split_top(rest_t[o + 2:]):
                d = "ASC"
                if len(part) > 1 and part[1].lower() in ("asc", "desc"):
                    d = part[1].upper()
                order.append((part[0], d))
        self.selects.append(Select(cols, table, order, where, node.lineno, node))
